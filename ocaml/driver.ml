(* Hand-written glue between the harness and the extracted model (trusted base).
   Line protocol on stdin/stdout.  One request per line: "<cmd> <tokens...>"; one reply line.
   While a request runs, an oracle closure may print "ASK <query>" and read one answer line. *)
type ostring = string
open Model

(* ---------- conversions between wire text and extracted Z / lists ---------- *)
let rec pos_of_int (n : int) : positive =
  if n = 1 then XH else if n land 1 = 1 then XI (pos_of_int (n lsr 1)) else XO (pos_of_int (n lsr 1))
let z_of_int (n : int) : z = if n = 0 then Z0 else if n > 0 then Zpos (pos_of_int n) else Zneg (pos_of_int (-n))
let ztab = Array.init 256 z_of_int
let rec int_of_pos = function XH -> 1 | XO p -> 2 * int_of_pos p | XI p -> 2 * int_of_pos p + 1
let int_of_z = function Z0 -> 0 | Zpos p -> int_of_pos p | Zneg p -> - (int_of_pos p)

let hexval c = match c with
  | '0'..'9' -> Char.code c - 48 | 'a'..'f' -> Char.code c - 87 | 'A'..'F' -> Char.code c - 55
  | _ -> failwith "bad hex"

(* big ints on the wire: [-]hex digits *)
let z_of_hexstr (s) : z =
  let neg = String.length s > 0 && s.[0] = '-' in
  let start = if neg then 1 else 0 in
  (* build positive from most significant bit down *)
  let acc = ref None in
  for i = start to String.length s - 1 do
    let v = hexval s.[i] in
    for b = 3 downto 0 do
      let bit = (v lsr b) land 1 in
      acc := (match !acc with
        | None -> if bit = 1 then Some XH else None
        | Some p -> Some (if bit = 1 then XI p else XO p))
    done
  done;
  match !acc with None -> Z0 | Some p -> if neg then Zneg p else Zpos p

let hexstr_of_z (x : z) =
  let bits_of_pos p =
    let rec go p acc = match p with XH -> 1 :: acc | XO q -> go q (0 :: acc) | XI q -> go q (1 :: acc) in
    (* go builds most-significant-first because we prepend while walking from LSB: fix order *)
    let rec lsb p = match p with XH -> [1] | XO q -> 0 :: lsb q | XI q -> 1 :: lsb q in
    ignore go; List.rev (lsb p) in
  let hex_of_bits bits =
    let n = List.length bits in
    let pad = (4 - n mod 4) mod 4 in
    let bits = List.init pad (fun _ -> 0) @ bits in
    let buf = Buffer.create 16 in
    let rec go = function
      | a :: b :: c :: d :: r -> Buffer.add_char buf "0123456789abcdef".[a*8+b*4+c*2+d]; go r
      | [] -> () | _ -> assert false in
    go bits; Buffer.contents buf in
  match x with
  | Z0 -> "0"
  | Zpos p -> hex_of_bits (bits_of_pos p)
  | Zneg p -> "-" ^ hex_of_bits (bits_of_pos p)

let bytes_of_hex (s) : z list =
  let n = String.length s / 2 in
  List.init n (fun i -> ztab.(hexval s.[2*i] * 16 + hexval s.[2*i+1]))
let hex_of_bytes (l : z list) =
  let buf = Buffer.create 64 in
  List.iter (fun b -> let v = int_of_z b in
    if v < 0 || v > 255 then Buffer.add_string buf (Printf.sprintf "<%d>" v)
    else Buffer.add_string buf (Printf.sprintf "%02x" v)) l;
  Buffer.contents buf

let str_of_cps (s) : z list =   (* "12.34.56" -> code points *)
  if s = "" then [] else List.map (fun t -> z_of_int (int_of_string t)) (String.split_on_char '.' s)
let cps_of_str (l : z list) = String.concat "." (List.map (fun c -> string_of_int (int_of_z c)) l)

(* ---------- token stream ---------- *)
let toks : ostring list ref = ref []
let next () = match !toks with t :: r -> toks := r; t | [] -> failwith "out of tokens"
let strip_prefix pfx t =
  let n = String.length pfx in
  if String.length t >= n && String.sub t 0 n = pfx then String.sub t n (String.length t - n)
  else failwith ("expected " ^ pfx ^ " got " ^ t)
let rd_bytes () = bytes_of_hex (strip_prefix "b:" (next ()))
let rd_str () = str_of_cps (strip_prefix "s:" (next ()))
let rd_int () = z_of_hexstr (strip_prefix "i:" (next ()))
let rd_nat () = int_of_string (next ())
let rd_bool () = match next () with "T" -> true | "F" -> false | t -> failwith ("bool " ^ t)
let rd_list f = let n = rd_nat () in List.init n (fun _ -> f ())
let rd_opt f = match next () with "N" -> None | "Y" -> Some (f ()) | t -> failwith ("opt " ^ t)

let pr_bytes l = "b:" ^ hex_of_bytes l
let pr_str l = "s:" ^ cps_of_str l
let pr_int x = "i:" ^ hexstr_of_z x
let pr_bool b = if b then "T" else "F"
let pr_opt f = function None -> "N" | Some x -> "Y " ^ f x
let pr_list f l = string_of_int (List.length l) ^ String.concat "" (List.map (fun x -> " " ^ f x) l)

(* ---------- oracle queries (synchronous ASK) ---------- *)
let ask (q) =
  print_string ("ASK " ^ q ^ "\n"); flush stdout;
  input_line stdin

(* ---------- printing of model outcomes ---------- *)
let lib_name = function
  | WebAuthnException -> "WebAuthnException" | InvalidRegistrationOptions -> "InvalidRegistrationOptions"
  | InvalidRegistrationResponse -> "InvalidRegistrationResponse" | InvalidAuthenticationOptions -> "InvalidAuthenticationOptions"
  | InvalidAuthenticationResponse -> "InvalidAuthenticationResponse" | InvalidPublicKeyStructure -> "InvalidPublicKeyStructure"
  | UnsupportedPublicKeyType -> "UnsupportedPublicKeyType" | InvalidJSONStructure -> "InvalidJSONStructure"
  | InvalidAuthenticatorDataStructure -> "InvalidAuthenticatorDataStructure"
  | SignatureVerificationException -> "SignatureVerificationException" | UnsupportedAlgorithm -> "UnsupportedAlgorithm"
  | UnsupportedPublicKey -> "UnsupportedPublicKey" | UnsupportedEC2Curve -> "UnsupportedEC2Curve"
  | InvalidTPMPubAreaStructure -> "InvalidTPMPubAreaStructure" | InvalidTPMCertInfoStructure -> "InvalidTPMCertInfoStructure"
  | InvalidCertificateChain -> "InvalidCertificateChain" | InvalidBackupFlags -> "InvalidBackupFlags"
  | InvalidCBORData -> "InvalidCBORData"
let py_name = function
  | KeyError -> "KeyError" | TypeError -> "TypeError" | ValueError -> "ValueError" | IndexError -> "IndexError"
  | AttributeError -> "AttributeError" | OtherPy -> "Other"
let pr_exn = function Lib c -> "Lib:" ^ lib_name c | Py k -> "Py:" ^ py_name k | Unmodelled -> "Unmodelled"
let pr_res f = function Ok a -> "OK " ^ f a | Err e -> "ERR " ^ pr_exn e

(* ---------- JSON / CBOR / keys on the wire ---------- *)
let rec rd_json () : json =
  match next () with
  | "jn" -> JNull | "jt" -> JBool true | "jf" -> JBool false
  | "ji" -> JInt (rd_int ()) | "jd" -> JFloat (rd_int ())
  | "js" -> JStr (rd_str ())
  | "ja" -> let n = rd_nat () in JArr (List.init n (fun _ -> rd_json ()))
  | "jo" -> let n = rd_nat () in JObj (List.init n (fun _ -> let k = rd_str () in let v = rd_json () in (k, v)))
  | t -> failwith ("json token " ^ t)
let rec pr_json (j : json) =
  match j with
  | JNull -> "jn" | JBool true -> "jt" | JBool false -> "jf"
  | JInt z -> "ji " ^ pr_int z | JFloat z -> "jd " ^ pr_int z
  | JStr s -> "js " ^ pr_str s
  | JArr l -> "ja " ^ pr_list pr_json l
  | JObj m -> "jo " ^ pr_list (fun (k, v) -> pr_str k ^ " " ^ pr_json v) m

let rec rd_cbor () : cbor =
  match next () with
  | "ci" -> CInt (rd_int ()) | "cb" -> CBytes (rd_bytes ()) | "ct" -> CText (rd_bytes ())
  | "ca" -> let n = rd_nat () in CArr (List.init n (fun _ -> rd_cbor ()))
  | "cm" -> let n = rd_nat () in CMap (List.init n (fun _ -> let k = rd_cbor () in let v = rd_cbor () in (k, v)))
  | "cT" -> CBool true | "cF" -> CBool false | "cn" -> CNull | "cu" -> CUndef
  | t -> failwith ("cbor token " ^ t)
let rec pr_cbor (c : cbor) =
  match c with
  | CInt z -> "ci " ^ pr_int z | CBytes b -> "cb " ^ pr_bytes b | CText b -> "ct " ^ pr_bytes b
  | CArr l -> "ca " ^ pr_list pr_cbor l
  | CMap m -> "cm " ^ pr_list (fun (k, v) -> pr_cbor k ^ " " ^ pr_cbor v) m
  | CBool true -> "cT" | CBool false -> "cF" | CNull -> "cn" | CUndef -> "cu"

let pr_hash = function SHA1 -> "SHA1" | SHA256 -> "SHA256" | SHA384 -> "SHA384" | SHA512 -> "SHA512"
let pr_scheme = function
  | ECDSA h -> "ECDSA-" ^ pr_hash h | PKCS1 h -> "PKCS1-" ^ pr_hash h | PSS h -> "PSS-" ^ pr_hash h | ED25519 -> "ED25519"
let pr_key = function
  | PkEC (c, x, y) -> "EC " ^ pr_int c ^ " " ^ pr_int x ^ " " ^ pr_int y
  | PkRSA (n, e) -> "RSA " ^ pr_int n ^ " " ^ pr_int e
  | PkEd x -> "ED " ^ pr_bytes x
  | PkOther t -> "OTHER " ^ pr_int t

(* ---------- answers to ASK: parsed with a private token cursor ---------- *)
let with_tokens (line) (f : unit -> 'a) : 'a =
  let saved = !toks in
  toks := List.filter (fun t -> t <> "") (String.split_on_char ' ' line);
  let r = (try f () with e -> toks := saved; raise e) in
  toks := saved; r

let rd_key () : pubkey =
  match next () with
  | "EC" -> let c = rd_int () in let x = rd_int () in let y = rd_int () in PkEC (c, x, y)
  | "RSA" -> let n = rd_int () in let e = rd_int () in PkRSA (n, e)
  | "ED" -> PkEd (rd_bytes ())
  | "OTHER" -> PkOther (rd_int ())
  | t -> failwith ("key token " ^ t)

let rd_cert () : cert =
  let key = rd_key () in
  let spki = rd_bytes () in
  let pem = rd_bytes () in
  let version = rd_int () in
  let subject_len = rd_int () in
  let cns = rd_list rd_str in
  let san = (match next () with
    | "ABSENT" -> SanAbsent | "EMPTY" -> SanEmpty | "NOTDIR" -> SanNotDirectory
    | "DIR" -> SanDir (rd_list (fun () -> let o = rd_str () in let v = rd_str () in (o, v)))
    | t -> failwith ("san " ^ t)) in
  let eku = rd_opt (fun () -> rd_list rd_str) in
  let bc = rd_opt rd_bool in
  let apple = rd_opt rd_bytes in
  let android = rd_opt (fun () -> rd_opt (fun () ->
    let ch = rd_bytes () in let sw = rd_bool () in let tee = rd_bool () in
    let org = rd_opt rd_int in let pur = rd_opt (fun () -> rd_list rd_int) in
    { kd_challenge = ch; kd_sw_all_apps = sw; kd_tee_all_apps = tee; kd_tee_origin = org; kd_tee_purpose = pur })) in
  { c_key = key; c_spki = spki; c_pem = pem; c_version = version; c_subject_len = subject_len;
    c_subject_cns = cns; c_san = san; c_eku = eku; c_basic_ca = bc; c_apple_ext = apple; c_android_ext = android }

let the_oracles : oracles = {
  o_hash = (fun h d -> with_tokens (ask ("hash " ^ pr_hash h ^ " " ^ pr_bytes d)) rd_bytes);
  o_json_loads = (fun is_text d ->
    let q = if is_text then "json T " ^ pr_str d else "json F " ^ pr_bytes d in
    with_tokens (ask q) (fun () -> match next () with
      | "OK" -> JOk (rd_json ()) | "DECODE" -> JDecodeError | "UNICODE" -> JUnicodeError | _ -> JOtherError));
  o_key_ok = (fun k -> with_tokens (ask ("keyok " ^ pr_key k)) rd_bool);
  o_verify = (fun k sch sg msg ->
    with_tokens (ask ("verify " ^ pr_key k ^ " " ^ pr_scheme sch ^ " " ^ pr_bytes sg ^ " " ^ pr_bytes msg)) rd_bool);
  o_spki = (fun k -> with_tokens (ask ("spki " ^ pr_key k)) rd_bytes);
  o_cert = (fun der -> with_tokens (ask ("cert " ^ pr_bytes der)) (fun () -> rd_opt rd_cert));
  o_chain = (fun now x5c roots ->
    with_tokens (ask ("chain " ^ pr_int now ^ " " ^ pr_list pr_bytes x5c ^ " " ^ pr_list pr_bytes roots))
      (fun () -> match next () with "OK" -> ChainOk | "INVALID" -> ChainInvalid | _ -> ChainOtherError));
}

(* ---------- structured inputs ---------- *)
let rd_xcert () : xcert =
  let s = rd_bytes () in let i = rd_bytes () in let nb = rd_int () in let na = rd_int () in
  let ca = rd_bool () in let k = rd_int () in let sb = rd_int () in
  { x_subject = s; x_issuer = i; x_not_before = nb; x_not_after = na; x_is_ca = ca; x_key = k; x_signed_by = sb }
let rd_origin () : origin_exp =
  match next () with
  | "S" -> OSingle (rd_str ()) | "M" -> OMany (rd_list rd_str) | t -> failwith ("origin " ^ t)
let rd_auth_policy () : auth_policy =
  let ch = rd_bytes () in let rp = rd_str () in let org = rd_origin () in
  let pk = rd_bytes () in let cnt = rd_int () in let uv = rd_bool () in
  { ap_challenge = ch; ap_rp_id = rp; ap_origin = org; ap_pubkey = pk; ap_count = cnt; ap_require_uv = uv }
let rd_auth_cred () : auth_cred cred_in =
  match next () with
  | "T" -> InText (rd_str ()) | "D" -> InDict (rd_json ())
  | "R" ->
    let id = rd_str () in let raw = rd_bytes () in let ty = rd_str () in
    let cdj = rd_bytes () in let ad = rd_bytes () in let sg = rd_bytes () in
    let uh = rd_opt rd_bytes in let att = rd_opt rd_str in
    InRec { acr_id = id; acr_raw_id = raw; acr_type = ty; acr_client_data = cdj; acr_auth_data = ad;
            acr_signature = sg; acr_user_handle = uh; acr_attachment = att }
  | t -> failwith ("cred " ^ t)
let rd_text_or_json () = match next () with
  | "T" -> Inl (rd_str ()) | "D" -> Inr (rd_json ()) | t -> failwith ("T/D " ^ t)

let pr_auth_data (a : auth_data) =
  pr_bytes a.ad_rp_hash ^ " " ^ pr_int a.ad_flags ^ " " ^ pr_int a.ad_count ^ " "
  ^ pr_opt (fun c -> pr_bytes c.ac_aaguid ^ " " ^ pr_bytes c.ac_cred_id ^ " " ^ pr_bytes c.ac_pubkey) a.ad_att ^ " "
  ^ pr_opt pr_bytes a.ad_ext
let pr_client_data (c : client_data) =
  pr_json c.cd_type ^ " " ^ pr_bytes c.cd_challenge ^ " " ^ pr_json c.cd_origin ^ " " ^ pr_opt pr_json c.cd_token_binding
let pr_auth_cred (c : auth_cred) =
  pr_str c.acr_id ^ " " ^ pr_bytes c.acr_raw_id ^ " " ^ pr_str c.acr_type ^ " " ^ pr_bytes c.acr_client_data ^ " "
  ^ pr_bytes c.acr_auth_data ^ " " ^ pr_bytes c.acr_signature ^ " " ^ pr_opt pr_bytes c.acr_user_handle ^ " "
  ^ pr_opt pr_str c.acr_attachment
let pr_reg_cred (c : reg_cred) =
  pr_str c.rcr_id ^ " " ^ pr_bytes c.rcr_raw_id ^ " " ^ pr_str c.rcr_type ^ " " ^ pr_bytes c.rcr_client_data ^ " "
  ^ pr_bytes c.rcr_att_obj ^ " " ^ pr_opt (pr_list pr_str) c.rcr_transports ^ " " ^ pr_opt pr_str c.rcr_attachment
let pr_decoded_key = function
  | DOKP (a, c, x) -> "OKP " ^ pr_cbor a ^ " " ^ pr_cbor c ^ " " ^ pr_cbor x
  | DEC2 (a, c, x, y) -> "EC2 " ^ pr_cbor a ^ " " ^ pr_cbor c ^ " " ^ pr_cbor x ^ " " ^ pr_cbor y
  | DRSA (a, n, e) -> "RSA " ^ pr_cbor a ^ " " ^ pr_cbor n ^ " " ^ pr_cbor e
let pr_verified_auth (v : verified_auth) =
  pr_bytes v.va_cred_id ^ " " ^ pr_int v.va_new_count ^ " " ^ pr_bool v.va_multi_device ^ " "
  ^ pr_bool v.va_backed_up ^ " " ^ pr_bool v.va_uv

let rd_reg_policy () : reg_policy =
  let ch = rd_bytes () in let rp = rd_str () in let org = rd_origin () in
  let up = rd_bool () in let uv = rd_bool () in let algs = rd_list rd_int in
  let roots = rd_list (fun () -> let f = rd_str () in let l = rd_list rd_bytes in (f, l)) in
  let ba = rd_list rd_bytes in let bk = rd_list rd_bytes in let bs = rd_list rd_bytes in
  let now = rd_int () in
  { rp_challenge = ch; rp_rp_id = rp; rp_origin = org; rp_require_up = up; rp_require_uv = uv; rp_algs = algs;
    rp_roots = roots; rp_builtin_apple = ba; rp_builtin_android_key = bk; rp_builtin_safetynet = bs; rp_now = now }
let rd_reg_cred () : reg_cred cred_in =
  match next () with
  | "T" -> InText (rd_str ()) | "D" -> InDict (rd_json ())
  | "R" ->
    let id = rd_str () in let raw = rd_bytes () in let ty = rd_str () in
    let cdj = rd_bytes () in let ao = rd_bytes () in
    let tr = rd_opt (fun () -> rd_list rd_str) in let att = rd_opt rd_str in
    InRec { rcr_id = id; rcr_raw_id = raw; rcr_type = ty; rcr_client_data = cdj; rcr_att_obj = ao;
            rcr_transports = tr; rcr_attachment = att }
  | t -> failwith ("cred " ^ t)
let pr_verified_reg (v : verified_reg) =
  pr_bytes v.vr_cred_id ^ " " ^ pr_bytes v.vr_pubkey ^ " " ^ pr_int v.vr_count ^ " " ^ pr_str v.vr_aaguid ^ " "
  ^ pr_bytes v.vr_fmt ^ " " ^ pr_str v.vr_type ^ " " ^ pr_bool v.vr_uv ^ " " ^ pr_bytes v.vr_att_obj ^ " "
  ^ pr_bool v.vr_multi_device ^ " " ^ pr_bool v.vr_backed_up
let rec cps_of_coqstring (s : Model.string) : z list =
  match s with EmptyString -> [] | String (c, r) ->
    (match c with Ascii (b0,b1,b2,b3,b4,b5,b6,b7) ->
      let v = (if b0 then 1 else 0) + (if b1 then 2 else 0) + (if b2 then 4 else 0) + (if b3 then 8 else 0)
            + (if b4 then 16 else 0) + (if b5 then 32 else 0) + (if b6 then 64 else 0) + (if b7 then 128 else 0) in
      z_of_int v :: cps_of_coqstring r)
let pr_cstr s = pr_str (cps_of_coqstring s)
let pr_cert_info (c : cert_info) =
  pr_bytes c.ci_magic ^ " " ^ pr_cstr c.ci_type ^ " " ^ pr_bytes c.ci_qualified_signer ^ " " ^ pr_bytes c.ci_extra_data ^ " "
  ^ pr_bytes c.ci_clock.ck_clock ^ " " ^ pr_int c.ci_clock.ck_reset ^ " " ^ pr_int c.ci_clock.ck_restart ^ " "
  ^ pr_bool c.ci_clock.ck_safe ^ " " ^ pr_bytes c.ci_firmware ^ " " ^ pr_cstr c.ci_name_alg ^ " "
  ^ pr_bytes c.ci_name_alg_bytes ^ " " ^ pr_bytes c.ci_name ^ " " ^ pr_bytes c.ci_qualified_name
let pr_pub_area (p : pub_area) =
  let attrs = String.concat "" (List.map (fun k -> if attr_bit p.pa_attrs k then "1" else "0") attr_positions) in
  let ps = (match p.pa_params with
    | RSAParams (sym, sch, kb, ex) -> "RSA " ^ pr_cstr sym ^ " " ^ pr_cstr sch ^ " " ^ pr_bytes kb ^ " " ^ pr_bytes ex
    | ECCParams (sym, sch, crv, kdf) -> "ECC " ^ pr_cstr sym ^ " " ^ pr_cstr sch ^ " " ^ pr_cstr crv ^ " " ^ pr_cstr kdf) in
  pr_cstr p.pa_type ^ " " ^ pr_cstr p.pa_name_alg ^ " " ^ attrs ^ " " ^ pr_bytes p.pa_auth_policy ^ " " ^ ps ^ " " ^ pr_bytes p.pa_unique

let rd_descriptor () : descriptor =
  let id = rd_bytes () in let ty = rd_str () in let tr = rd_opt (fun () -> rd_list rd_str) in
  { d_id = id; d_type = ty; d_transports = tr }
let pr_descriptor (d : descriptor) =
  pr_bytes d.d_id ^ " " ^ pr_str d.d_type ^ " " ^ pr_opt (pr_list pr_str) d.d_transports
let rd_auth_sel () : auth_sel =
  let a = rd_opt rd_str in let rk = rd_opt rd_str in let rr = rd_opt rd_bool in let uv = rd_opt rd_str in
  { as_attachment = a; as_resident_key = rk; as_require_rk = rr; as_uv = uv }
let pr_auth_sel (s : auth_sel) =
  pr_opt pr_str s.as_attachment ^ " " ^ pr_opt pr_str s.as_resident_key ^ " " ^ pr_opt pr_bool s.as_require_rk ^ " " ^ pr_opt pr_str s.as_uv
let rd_reg_args () : reg_args =
  let rp_id = rd_str () in let rp_name = rd_str () in let un = rd_str () in
  let uid = rd_opt rd_bytes in let dn = rd_opt rd_str in let ch = rd_opt rd_bytes in
  let to_ = rd_int () in let att = rd_str () in let sel = rd_opt rd_auth_sel in
  let ex = rd_opt (fun () -> rd_list rd_descriptor) in let algs = rd_opt (fun () -> rd_list rd_int) in
  let hints = rd_opt (fun () -> rd_list rd_str) in
  { ra_rp_id = rp_id; ra_rp_name = rp_name; ra_user_name = un; ra_user_id = uid; ra_display_name = dn; ra_challenge = ch;
    ra_timeout = to_; ra_attestation = att; ra_auth_sel = sel; ra_exclude = ex; ra_algs = algs; ra_hints = hints }
let rd_auth_args () : auth_args =
  let rp_id = rd_str () in let ch = rd_opt rd_bytes in let to_ = rd_int () in
  let al = rd_opt (fun () -> rd_list rd_descriptor) in let uv = rd_str () in
  { aa_rp_id = rp_id; aa_challenge = ch; aa_timeout = to_; aa_allow = al; aa_uv = uv }
let pr_creation_options (o : creation_options) =
  pr_opt pr_str o.co_rp_id ^ " " ^ pr_str o.co_rp_name ^ " " ^ pr_bytes o.co_user_id ^ " " ^ pr_str o.co_user_name ^ " "
  ^ pr_str o.co_display_name ^ " " ^ pr_bytes o.co_challenge ^ " " ^ pr_list (fun (t, a) -> pr_str t ^ " " ^ pr_int a) o.co_params ^ " "
  ^ pr_opt pr_int o.co_timeout ^ " " ^ pr_opt (pr_list pr_descriptor) o.co_exclude ^ " " ^ pr_opt pr_auth_sel o.co_auth_sel ^ " "
  ^ pr_opt pr_str o.co_attestation ^ " " ^ pr_opt (pr_list pr_str) o.co_hints
let rd_creation_options () : creation_options =
  let rp_id = rd_opt rd_str in let rp_name = rd_str () in let uid = rd_bytes () in let un = rd_str () in
  let dn = rd_str () in let ch = rd_bytes () in
  let params = rd_list (fun () -> let t = rd_str () in let a = rd_int () in (t, a)) in
  let to_ = rd_opt rd_int in let ex = rd_opt (fun () -> rd_list rd_descriptor) in let sel = rd_opt rd_auth_sel in
  let att = rd_opt rd_str in let hints = rd_opt (fun () -> rd_list rd_str) in
  { co_rp_id = rp_id; co_rp_name = rp_name; co_user_id = uid; co_user_name = un; co_display_name = dn; co_challenge = ch;
    co_params = params; co_timeout = to_; co_exclude = ex; co_auth_sel = sel; co_attestation = att; co_hints = hints }
let pr_request_options (o : request_options) =
  pr_bytes o.ro_challenge ^ " " ^ pr_opt pr_int o.ro_timeout ^ " " ^ pr_opt pr_str o.ro_rp_id ^ " "
  ^ pr_opt (pr_list pr_descriptor) o.ro_allow ^ " " ^ pr_opt pr_str o.ro_uv
let rd_request_options () : request_options =
  let ch = rd_bytes () in let to_ = rd_opt rd_int in let rp = rd_opt rd_str in
  let al = rd_opt (fun () -> rd_list rd_descriptor) in let uv = rd_opt rd_str in
  { ro_challenge = ch; ro_timeout = to_; ro_rp_id = rp; ro_allow = al; ro_uv = uv }
let rec nat_of_int n = if n <= 0 then O else S (nat_of_int (n - 1))
let rec int_of_nat = function O -> 0 | S n -> 1 + int_of_nat n
let draw_of (l : z list list) : nat -> z list = fun n -> (match List.nth_opt l (int_of_nat n) with Some b -> b | None -> [])

(* ---------- dispatch ---------- *)
let dispatch (cmd) =
  match cmd with
  | "ping" -> "pong"
  | "b64enc" -> pr_str (b64url_enc (rd_bytes ()))
  | "b64dec" -> pr_res pr_bytes (b64url_dec (rd_str ()))
  | "b64std" -> pr_str (b64std_enc (rd_bytes ()))
  | "cborload" -> (match cbor_loads (rd_bytes ()) with
      | DOk (v, r) -> "OK " ^ pr_cbor v ^ " " ^ pr_bytes r | DErr -> "ERR Lib:InvalidCBORData" | DUnm -> "ERR Unmodelled")
  | "cbordump" -> pr_bytes (cbor_enc (rd_cbor ()))
  | "authdata" -> pr_res pr_auth_data (parse_auth_data (rd_bytes ()))
  | "backupflags" -> let be = rd_bool () in let bs = rd_bool () in
      pr_res (fun (a, b) -> pr_bool a ^ " " ^ pr_bool b) (parse_backup_flags be bs)
  | "aaguid" -> pr_res pr_str (aaguid_to_string (rd_bytes ()))
  | "clientdata" -> pr_res pr_client_data (parse_client_data the_oracles (rd_bytes ()))
  | "authcred" -> pr_res pr_auth_cred (parse_auth_cred_json the_oracles (rd_text_or_json ()))
  | "regcred" -> pr_res pr_reg_cred (parse_reg_cred_json the_oracles (rd_text_or_json ()))
  | "decodekey" -> pr_res pr_decoded_key (decode_credential_public_key (rd_bytes ()))
  | "tocrypto" -> pr_res pr_key (bind (decode_credential_public_key (rd_bytes ())) (to_crypto the_oracles))
  | "verifyauth" -> let p = rd_auth_policy () in let c = rd_auth_cred () in
      pr_res pr_verified_auth (verify_auth the_oracles p c)
  | "verifyreg" -> let p = rd_reg_policy () in let c = rd_reg_cred () in
      pr_res pr_verified_reg (verify_reg the_oracles p c)
  | "certinfo" -> pr_res pr_cert_info (parse_cert_info (rd_bytes ()))
  | "pubarea" -> pr_res pr_pub_area (parse_pub_area (rd_bytes ()))
  | "tsok" -> let now = rd_int () in let ts = rd_int () in pr_bool (timestamp_ok now ts)
  | "chainspec" -> let now = rd_int () in let xs = rd_list rd_xcert in let rs = rd_list rd_xcert in pr_bool (chain_acceptable_b now xs rs)
  | "genreg" -> let a = rd_reg_args () in let n = rd_nat () in let draws = rd_list rd_bytes in
      pr_res (fun (o, n2) -> pr_creation_options o ^ " " ^ string_of_int (int_of_nat n2)) (gen_reg (draw_of draws) a (nat_of_int n))
  | "genauth" -> let a = rd_auth_args () in let n = rd_nat () in let draws = rd_list rd_bytes in
      pr_res (fun (o, n2) -> pr_request_options o ^ " " ^ string_of_int (int_of_nat n2)) (gen_auth (draw_of draws) a (nat_of_int n))
  | "regoptjson" -> pr_json (creation_options_json (rd_creation_options ()))
  | "authoptjson" -> pr_json (request_options_json (rd_request_options ()))
  | "parseregopt" -> pr_res pr_creation_options (parse_reg_options_json the_oracles (rd_text_or_json ()))
  | "parseauthopt" -> pr_res pr_request_options (parse_auth_options_json the_oracles (rd_text_or_json ()))
  | "counterok" -> let s = rd_int () in let c = rd_int () in pr_bool (counter_ok s c)
  | _ -> "DRIVER-ERROR unknown command " ^ cmd

let () =
  try
    while true do
      let line = input_line stdin in
      let ts = List.filter (fun t -> t <> "") (String.split_on_char ' ' line) in
      (match ts with
       | [] -> print_string "EMPTY\n"
       | cmd :: rest ->
         toks := rest;
         let out = (try dispatch cmd with
           | Failure m -> "DRIVER-ERROR " ^ m
           | Not_found -> "DRIVER-ERROR Not_found"
           | Stack_overflow -> "DRIVER-ERROR Stack_overflow") in
         print_string (out ^ "\n"));
      flush stdout
    done
  with End_of_file -> ()
