(* Hand-written glue between the harness and the extracted model (trusted base).
   Line protocol on stdin/stdout.  One request per line: "<cmd> <tokens...>"; one reply line.
   While a request runs, an oracle closure may print "ASK <query>" and read one answer line. *)
open Model

(* ---------- conversions between wire text and extracted Z / lists ---------- *)
let rec pos_of_int (n : int) : positive =
  if n = 1 then XH else if n land 1 = 1 then XI (pos_of_int (n lsr 1)) else XO (pos_of_int (n lsr 1))
let z_of_int (n : int) : z = if n = 0 then Z0 else if n > 0 then Zpos (pos_of_int n) else Zneg (pos_of_int (-n))
let ztab = Array.init 256 z_of_int
let rec int_of_pos = function XH -> 1 | XO p -> 2 * int_of_pos p | XI p -> 2 * int_of_pos p + 1
let int_of_z = function Z0 -> 0 | Zpos p -> int_of_pos p | Zneg p -> - (int_of_pos p)

let hexval c = match c with
  | '0'..'9' -> Char.code c - 48 | 'a'..'f' -> Char.code c - 87 | 'A'..'F' -> Char.code c - 55
  | _ -> failwith "bad hex"

(* big ints on the wire: [-]hex digits *)
let z_of_hexstr (s : string) : z =
  let neg = String.length s > 0 && s.[0] = '-' in
  let start = if neg then 1 else 0 in
  (* build positive from most significant bit down *)
  let acc = ref None in
  for i = start to String.length s - 1 do
    let v = hexval s.[i] in
    for b = 3 downto 0 do
      let bit = (v lsr b) land 1 in
      acc := (match !acc with
        | None -> if bit = 1 then Some XH else None
        | Some p -> Some (if bit = 1 then XI p else XO p))
    done
  done;
  match !acc with None -> Z0 | Some p -> if neg then Zneg p else Zpos p

let hexstr_of_z (x : z) : string =
  let bits_of_pos p =
    let rec go p acc = match p with XH -> 1 :: acc | XO q -> go q (0 :: acc) | XI q -> go q (1 :: acc) in
    (* go builds most-significant-first because we prepend while walking from LSB: fix order *)
    let rec lsb p = match p with XH -> [1] | XO q -> 0 :: lsb q | XI q -> 1 :: lsb q in
    ignore go; List.rev (lsb p) in
  let hex_of_bits bits =
    let n = List.length bits in
    let pad = (4 - n mod 4) mod 4 in
    let bits = List.init pad (fun _ -> 0) @ bits in
    let buf = Buffer.create 16 in
    let rec go = function
      | a :: b :: c :: d :: r -> Buffer.add_char buf "0123456789abcdef".[a*8+b*4+c*2+d]; go r
      | [] -> () | _ -> assert false in
    go bits; Buffer.contents buf in
  match x with
  | Z0 -> "0"
  | Zpos p -> hex_of_bits (bits_of_pos p)
  | Zneg p -> "-" ^ hex_of_bits (bits_of_pos p)

let bytes_of_hex (s : string) : z list =
  let n = String.length s / 2 in
  List.init n (fun i -> ztab.(hexval s.[2*i] * 16 + hexval s.[2*i+1]))
let hex_of_bytes (l : z list) : string =
  let buf = Buffer.create 64 in
  List.iter (fun b -> let v = int_of_z b in
    if v < 0 || v > 255 then Buffer.add_string buf (Printf.sprintf "<%d>" v)
    else Buffer.add_string buf (Printf.sprintf "%02x" v)) l;
  Buffer.contents buf

let str_of_cps (s : string) : z list =   (* "12.34.56" -> code points *)
  if s = "" then [] else List.map (fun t -> z_of_int (int_of_string t)) (String.split_on_char '.' s)
let cps_of_str (l : z list) : string = String.concat "." (List.map (fun c -> string_of_int (int_of_z c)) l)

(* ---------- token stream ---------- *)
let toks : string list ref = ref []
let next () = match !toks with t :: r -> toks := r; t | [] -> failwith "out of tokens"
let strip_prefix pfx t =
  let n = String.length pfx in
  if String.length t >= n && String.sub t 0 n = pfx then String.sub t n (String.length t - n)
  else failwith ("expected " ^ pfx ^ " got " ^ t)
let rd_bytes () = bytes_of_hex (strip_prefix "b:" (next ()))
let rd_str () = str_of_cps (strip_prefix "s:" (next ()))
let rd_int () = z_of_hexstr (strip_prefix "i:" (next ()))
let rd_nat () = int_of_string (next ())
let rd_bool () = match next () with "T" -> true | "F" -> false | t -> failwith ("bool " ^ t)
let rd_list f = let n = rd_nat () in List.init n (fun _ -> f ())
let rd_opt f = match next () with "N" -> None | "Y" -> Some (f ()) | t -> failwith ("opt " ^ t)

let pr_bytes l = "b:" ^ hex_of_bytes l
let pr_str l = "s:" ^ cps_of_str l
let pr_int x = "i:" ^ hexstr_of_z x
let pr_bool b = if b then "T" else "F"
let pr_opt f = function None -> "N" | Some x -> "Y " ^ f x
let pr_list f l = string_of_int (List.length l) ^ String.concat "" (List.map (fun x -> " " ^ f x) l)

(* ---------- oracle queries (synchronous ASK) ---------- *)
let ask (q : string) : string =
  print_string ("ASK " ^ q ^ "\n"); flush stdout;
  input_line stdin

(* ---------- printing of model outcomes ---------- *)
let lib_name = function
  | WebAuthnException -> "WebAuthnException" | InvalidRegistrationOptions -> "InvalidRegistrationOptions"
  | InvalidRegistrationResponse -> "InvalidRegistrationResponse" | InvalidAuthenticationOptions -> "InvalidAuthenticationOptions"
  | InvalidAuthenticationResponse -> "InvalidAuthenticationResponse" | InvalidPublicKeyStructure -> "InvalidPublicKeyStructure"
  | UnsupportedPublicKeyType -> "UnsupportedPublicKeyType" | InvalidJSONStructure -> "InvalidJSONStructure"
  | InvalidAuthenticatorDataStructure -> "InvalidAuthenticatorDataStructure"
  | SignatureVerificationException -> "SignatureVerificationException" | UnsupportedAlgorithm -> "UnsupportedAlgorithm"
  | UnsupportedPublicKey -> "UnsupportedPublicKey" | UnsupportedEC2Curve -> "UnsupportedEC2Curve"
  | InvalidTPMPubAreaStructure -> "InvalidTPMPubAreaStructure" | InvalidTPMCertInfoStructure -> "InvalidTPMCertInfoStructure"
  | InvalidCertificateChain -> "InvalidCertificateChain" | InvalidBackupFlags -> "InvalidBackupFlags"
  | InvalidCBORData -> "InvalidCBORData"
let py_name = function
  | KeyError -> "KeyError" | TypeError -> "TypeError" | ValueError -> "ValueError" | IndexError -> "IndexError"
  | AttributeError -> "AttributeError" | OtherPy -> "Other"
let pr_exn = function Lib c -> "Lib:" ^ lib_name c | Py k -> "Py:" ^ py_name k | Unmodelled -> "Unmodelled"
let pr_res f = function Ok a -> "OK " ^ f a | Err e -> "ERR " ^ pr_exn e

(* ---------- dispatch ---------- *)
let dispatch (cmd : string) : string =
  match cmd with
  | "ping" -> "pong"
  | "b64enc" -> pr_str (b64url_enc (rd_bytes ()))
  | "b64dec" -> pr_res pr_bytes (b64url_dec (rd_str ()))
  | "b64std" -> pr_str (b64std_enc (rd_bytes ()))
  | _ -> "DRIVER-ERROR unknown command " ^ cmd

let () =
  try
    while true do
      let line = input_line stdin in
      let ts = List.filter (fun t -> t <> "") (String.split_on_char ' ' line) in
      (match ts with
       | [] -> print_string "EMPTY\n"
       | cmd :: rest ->
         toks := rest;
         let out = (try dispatch cmd with
           | Failure m -> "DRIVER-ERROR " ^ m
           | Not_found -> "DRIVER-ERROR Not_found"
           | Stack_overflow -> "DRIVER-ERROR Stack_overflow") in
         print_string (out ^ "\n"));
      flush stdout
    done
  with End_of_file -> ()
