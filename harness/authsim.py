"""Ceremony simulator: real signing keys, authenticator data, client data, assertions and attestation
objects.  Plain Python over cryptography / cbor2; NOT trusted for the theorems - it only decides which
paths of model and implementation get compared."""
import os, json, hashlib, struct, base64
import cbor2
from cryptography.hazmat.primitives.asymmetric import ec, rsa, ed25519, padding
from cryptography.hazmat.primitives import hashes, serialization

KEYDIR = os.path.join(os.path.dirname(os.path.dirname(os.path.abspath(__file__))), "build", "keys")
HASH = {"SHA1": hashes.SHA1, "SHA256": hashes.SHA256, "SHA384": hashes.SHA384, "SHA512": hashes.SHA512}

# credential kinds: name -> (key family, curve or None, COSE alg, scheme)
KINDS = {
    "ES256-P256": ("ec", ec.SECP256R1, -7, "ECDSA-SHA256"),
    "ES256-P384": ("ec", ec.SECP384R1, -7, "ECDSA-SHA256"),
    "ES256-P521": ("ec", ec.SECP521R1, -7, "ECDSA-SHA256"),
    "ES512-P256": ("ec", ec.SECP256R1, -36, "ECDSA-SHA512"),
    "ES512-P521": ("ec", ec.SECP521R1, -36, "ECDSA-SHA512"),
    "EdDSA": ("ed", None, -8, "ED25519"),
    "RS256": ("rsa", None, -257, "PKCS1-SHA256"),
    "RS384": ("rsa", None, -258, "PKCS1-SHA384"),
    "RS512": ("rsa", None, -259, "PKCS1-SHA512"),
    "RS1": ("rsa", None, -65535, "PKCS1-SHA1"),
    "PS256": ("rsa", None, -37, "PSS-SHA256"),
    "PS384": ("rsa", None, -38, "PSS-SHA384"),
    "PS512": ("rsa", None, -39, "PSS-SHA512"),
}
CRV_ID = {"secp256r1": 1, "secp384r1": 2, "secp521r1": 3}
CRV_LEN = {"secp256r1": 32, "secp384r1": 48, "secp521r1": 66}


_KEYS_IN_MEMORY = {}


def _load_or_make(name, make):
    if name in _KEYS_IN_MEMORY:          # (loading an RSA key costs ~20 ms of consistency checks; key objects are immutable)
        return _KEYS_IN_MEMORY[name]
    k = _load_or_make_uncached(name, make)
    _KEYS_IN_MEMORY[name] = k
    return k


def _load_or_make_uncached(name, make):
    os.makedirs(KEYDIR, exist_ok=True)
    p = os.path.join(KEYDIR, name + ".pem")
    if os.path.exists(p):
        return serialization.load_pem_private_key(open(p, "rb").read(), None)
    k = make()
    tmp = p + f".{os.getpid()}"
    open(tmp, "wb").write(k.private_bytes(serialization.Encoding.PEM, serialization.PrivateFormat.PKCS8, serialization.NoEncryption()))
    os.replace(tmp, p)
    return k


def rsa_key(slot=0):
    return _load_or_make(f"rsa2048_{slot}", lambda: rsa.generate_private_key(65537, 2048))


def raw_sign(sk, scheme, msg):
    if scheme.startswith("ECDSA-"):
        return sk.sign(msg, ec.ECDSA(HASH[scheme[6:]]()))
    if scheme.startswith("PKCS1-"):
        return sk.sign(msg, padding.PKCS1v15(), HASH[scheme[6:]]())
    if scheme.startswith("PSS-"):
        h = HASH[scheme[4:]]()
        return sk.sign(msg, padding.PSS(mgf=padding.MGF1(h), salt_length=h.digest_size), h)
    if scheme.startswith("PSSM-"):
        # PSS whose mask generation function uses ANOTHER hash than the message digest (and optionally another salt length): a different padding scheme
        parts = scheme.split("-")
        h, m = HASH[parts[1]](), HASH[parts[2]]()
        return sk.sign(msg, padding.PSS(mgf=padding.MGF1(m), salt_length=(int(parts[3]) if len(parts) > 3 else h.digest_size)), h)
    if scheme == "ED25519":
        return sk.sign(msg)
    raise ValueError(scheme)


class Cred:
    """A credential key pair with its COSE encoding."""

    def __init__(self, kind, slot=0, sk=None, fresh=False):
        fam, curve, alg, scheme = KINDS[kind]
        self.kind, self.fam, self.alg, self.scheme = kind, fam, alg, scheme
        if sk is not None:
            self.sk = sk
        elif fam == "ec":
            self.sk = ec.generate_private_key(curve()) if fresh else _load_or_make(f"ec_{curve.name}_{slot}", lambda: ec.generate_private_key(curve()))
        elif fam == "ed":
            self.sk = ed25519.Ed25519PrivateKey.generate() if fresh else _load_or_make(f"ed_{slot}", ed25519.Ed25519PrivateKey.generate)
        else:
            self.sk = rsa_key(slot)
        self.pk = self.sk.public_key()
        self.cose = self.cose_map()
        self.cose_bytes = cbor2.dumps(self.cose)

    def cose_map(self, alg=None):
        alg = self.alg if alg is None else alg
        if self.fam == "ec":
            n = self.pk.public_numbers()
            L = CRV_LEN[self.pk.curve.name]
            return {1: 2, 3: alg, -1: CRV_ID[self.pk.curve.name], -2: n.x.to_bytes(L, "big"), -3: n.y.to_bytes(L, "big")}
        if self.fam == "ed":
            return {1: 1, 3: alg, -1: 6, -2: self.pk.public_bytes(serialization.Encoding.Raw, serialization.PublicFormat.Raw)}
        n = self.pk.public_numbers()
        return {1: 3, 3: alg, -1: n.n.to_bytes((n.n.bit_length() + 7) // 8, "big"), -2: n.e.to_bytes((n.e.bit_length() + 7) // 8, "big")}

    def sign(self, msg, scheme=None):
        return raw_sign(self.sk, scheme or self.scheme, msg)


def b64u(b):
    return base64.urlsafe_b64encode(b).decode().rstrip("=")


def authdata(rp_id, flags, count, aaguid=None, cred_id=None, cose_bytes=None, ext=None, rp_hash=None):
    """Authenticator data laid out as the flags announce (att data iff bit 6, ext iff bit 7)."""
    h = rp_hash if rp_hash is not None else hashlib.sha256(rp_id.encode("utf-8", "surrogatepass")).digest()
    out = h + bytes([flags]) + struct.pack(">I", count)
    if flags & 0x40:
        out += (aaguid if aaguid is not None else bytes(16))
        out += struct.pack(">H", len(cred_id)) + cred_id + cose_bytes
    if flags & 0x80:
        out += ext if ext is not None else cbor2.dumps({"credProtect": 2})
    return out


def client_data(typ, challenge, origin, extra=None, token_binding=None, cross_origin=None):
    d = {"type": typ, "challenge": b64u(challenge), "origin": origin}
    if cross_origin is not None:
        d["crossOrigin"] = cross_origin
    if token_binding is not None:
        d["tokenBinding"] = token_binding
    if extra:
        d.update(extra)
    return json.dumps(d, separators=(",", ":")).encode()


class Assertion:
    """An assertion with everything needed to present it in any form."""

    def __init__(self, cred, cred_id, cdj, ad, sig, user_handle=None, id_text=None, typ="public-key", attachment=None):
        self.cred, self.cred_id, self.cdj, self.ad, self.sig = cred, cred_id, cdj, ad, sig
        self.user_handle, self.typ, self.attachment = user_handle, typ, attachment
        self.id_text = b64u(cred_id) if id_text is None else id_text

    def as_dict(self):
        resp = {"clientDataJSON": b64u(self.cdj), "authenticatorData": b64u(self.ad), "signature": b64u(self.sig)}
        if self.user_handle is not None:
            resp["userHandle"] = b64u(self.user_handle)
        resp.update(getattr(self, "extra_response", None) or {})          # members no assertion response defines (decoys)
        import copy
        d = {"id": self.id_text, "rawId": b64u(self.cred_id), "response": resp, "type": self.typ,
             "clientExtensionResults": copy.deepcopy(getattr(self, "client_ext", None) or {})}
        if self.attachment is not None:
            d["authenticatorAttachment"] = self.attachment
        return d

    def as_text(self):
        return json.dumps(self.as_dict())

    def as_record(self):
        from webauthn.helpers.structs import AuthenticationCredential, AuthenticatorAssertionResponse, AuthenticatorAttachment
        kw = {}
        if self.attachment in ("platform", "cross-platform"):
            kw["authenticator_attachment"] = AuthenticatorAttachment(self.attachment)
        return AuthenticationCredential(
            id=self.id_text, raw_id=self.cred_id,
            response=AuthenticatorAssertionResponse(client_data_json=self.cdj, authenticator_data=self.ad, signature=self.sig, user_handle=self.user_handle),
            type=self.typ, **kw)


def make_assertion(cred, rp_id, challenge, origin, flags=0x05, count=1, cred_id=b"cred-id-0001", sign_scheme=None,
                   cd_type="webauthn.get", cd_extra=None, token_binding=None, ext=None, signer=None, **kw):
    cdj = client_data(cd_type, challenge, origin, extra=cd_extra, token_binding=token_binding)
    ad = authdata(rp_id, flags, count, aaguid=bytes(16), cred_id=cred_id, cose_bytes=cred.cose_bytes, ext=ext)
    sig = (signer or cred).sign(ad + hashlib.sha256(cdj).digest(), sign_scheme)
    return Assertion(cred, cred_id, cdj, ad, sig, **kw)


def ed_cred_leading_zero():
    """An Ed25519 credential whose 32-byte encoded public key starts with 0x00 (about 1 key in 256)."""
    def make():
        while True:
            k = ed25519.Ed25519PrivateKey.generate()
            if k.public_key().public_bytes(serialization.Encoding.Raw, serialization.PublicFormat.Raw)[0] == 0:
                return k
    return Cred("EdDSA", sk=_load_or_make("ed_leading_zero", make))


def short_ecdsa_signature(cred, msg, scheme=None, tries=20000):
    """A valid ECDSA signature whose DER encoding is shorter than usual (r or s with a leading zero byte dropped)."""
    usual = {"secp256r1": 70, "secp384r1": 102, "secp521r1": 137}[cred.pk.curve.name]
    best = None
    for _ in range(tries):
        sig = cred.sign(msg, scheme)
        if best is None or len(sig) < len(best):
            best = sig
        if len(sig) < usual:
            return sig
    return best


def rsa_cred_exponent(e, kind="RS256"):
    """An RSA credential whose public exponent is `e` (not 65537): built from the primes of a stored key."""
    import math
    for slot in range(0, 6):
        base = rsa_key(slot).private_numbers()
        p, q = base.p, base.q
        phi = (p - 1) * (q - 1)
        if math.gcd(e, phi) == 1:
            d = pow(e, -1, phi)
            nums = rsa.RSAPrivateNumbers(p, q, d, d % (p - 1), d % (q - 1), pow(q, -1, p), rsa.RSAPublicNumbers(e, p * q))
            return Cred(kind, sk=nums.private_key())
    raise RuntimeError("no stored RSA key is compatible with exponent %d" % e)


def p256_cred_with_x_prefix(prefix=b"\x04", kind="ES256-P256"):
    """A P-256 credential whose x coordinate starts with `prefix` (private scalars 1, 2, 3, ... until one fits)."""
    def make():
        d = 1
        while True:
            k = ec.derive_private_key(d, ec.SECP256R1())
            if k.public_key().public_numbers().x.to_bytes(32, "big").startswith(prefix):
                return k
            d += 1
    return Cred(kind, sk=_load_or_make("ec_p256_x_prefix_" + prefix.hex(), make))


def rsa_cred_structured(structure, kind="RS256"):
    """A genuine 2048-bit RSA credential whose PRIMES have arithmetic structure: 'roca' - both primes are k*M + (65537^a mod M) for M the primorial of 2..167, the shape of
    the Infineon RSALib keys (CVE-2017-15361) that ROCA detectors fingerprint; 'close-primes' - |p - q| < 2^520 (Fermat-factorable).  Weak, but perfectly conformant keys."""
    import random as _random

    def is_prime(n, rnd):
        if n < 2:
            return False
        for sp in (2, 3, 5, 7, 11, 13, 17, 19, 23, 29, 31, 37):
            if n % sp == 0:
                return n == sp
        d, s_ = n - 1, 0
        while d % 2 == 0:
            d //= 2
            s_ += 1
        for _ in range(24):
            a = rnd.randrange(2, n - 1)
            x = pow(a, d, n)
            if x in (1, n - 1):
                continue
            for _ in range(s_ - 1):
                x = x * x % n
                if x == n - 1:
                    break
            else:
                return False
        return True

    def make():
        rnd = _random.Random(structure)
        e = 65537
        if structure == "roca":
            M = 1
            for p_ in range(2, 168):
                if all(p_ % q_ for q_ in range(2, int(p_ ** 0.5) + 1)):
                    M *= p_
            def prime():
                while True:
                    a = rnd.randrange(1, 2 ** 60)
                    k_ = rnd.getrandbits(1024 - M.bit_length()) | (1 << (1023 - M.bit_length()))
                    c = k_ * M + pow(65537, a, M)
                    if c.bit_length() == 1024 and c % e != 1 and is_prime(c, rnd):
                        return c
            while True:
                p, q = prime(), prime()
                if p != q and (p * q).bit_length() in (2047, 2048):
                    break
        else:
            while True:
                base = rnd.getrandbits(1024) | (3 << 1022) | 1
                p = base
                while not (p % e != 1 and is_prime(p, rnd)):
                    p += 2
                q = p + (rnd.getrandbits(500) | 1) * 2
                while not (q % e != 1 and is_prime(q, rnd)):
                    q += 2
                if (p * q).bit_length() == 2048:
                    break
        phi = (p - 1) * (q - 1)
        d = pow(e, -1, phi)
        return rsa.RSAPrivateNumbers(p, q, d, d % (p - 1), d % (q - 1), pow(q, -1, p), rsa.RSAPublicNumbers(e, p * q)).private_key()
    return Cred(kind, sk=_load_or_make(f"rsa_structured_{structure}", make))


def rsa_cred_bits(bits, kind="RS256"):
    """An RSA credential with a modulus of exactly `bits` bits (sizes that are not multiples of 8 / unusually large ones)."""
    def make():
        while True:
            k = rsa.generate_private_key(65537, bits)
            if k.public_key().public_numbers().n.bit_length() == bits:
                return k
    return Cred(kind, sk=_load_or_make(f"rsa_{bits}", make))



# ---- Ed25519 by hand (RFC 8032 reference arithmetic): signatures whose nonce is CHOSEN - still valid signatures of the key ----
_P25519 = 2 ** 255 - 19
_L25519 = 2 ** 252 + 27742317777372353535851937790883648493
_D25519 = -121665 * pow(121666, -1, _P25519) % _P25519


def _ed_add(P, Q):
    A = (P[1] - P[0]) * (Q[1] - Q[0]) % _P25519
    B = (P[1] + P[0]) * (Q[1] + Q[0]) % _P25519
    C = 2 * P[3] * Q[3] * _D25519 % _P25519
    D = 2 * P[2] * Q[2] % _P25519
    E, F, G, H = B - A, D - C, D + C, B + A
    return (E * F % _P25519, G * H % _P25519, F * G % _P25519, E * H % _P25519)


def _ed_mul(s, P):
    Q = (0, 1, 1, 0)
    while s > 0:
        if s & 1:
            Q = _ed_add(Q, P)
        P = _ed_add(P, P)
        s >>= 1
    return Q


def _ed_base():
    y = 4 * pow(5, -1, _P25519) % _P25519
    x2 = (y * y - 1) * pow(_D25519 * y * y + 1, -1, _P25519) % _P25519
    x = pow(x2, (_P25519 + 3) // 8, _P25519)
    if (x * x - x2) % _P25519:
        x = x * pow(2, (_P25519 - 1) // 4, _P25519) % _P25519
    if x & 1:
        x = _P25519 - x
    return (x, y, 1, x * y % _P25519)


def _ed_compress(P):
    zi = pow(P[2], -1, _P25519)
    x, y = P[0] * zi % _P25519, P[1] * zi % _P25519
    return (y | ((x & 1) << 255)).to_bytes(32, "little")


def ed25519_sign_with_nonce(sk, msg, r):
    """a VALID Ed25519 signature of `msg` under the private key `sk` (cryptography object) whose per-signature nonce is r instead of the hash-derived one: R = r*B,
    S = r + H(R || A || M) * a mod L.  r = 0 gives R = the neutral element (a point of small order); every verifier that implements RFC 8032 accepts it."""
    seed = sk.private_bytes(serialization.Encoding.Raw, serialization.PrivateFormat.Raw, serialization.NoEncryption())
    h = hashlib.sha512(seed).digest()
    a = int.from_bytes(h[:32], "little")
    a &= (1 << 254) - 8
    a |= 1 << 254
    B = _ed_base()
    A = _ed_compress(_ed_mul(a, B))
    Rs = _ed_compress(_ed_mul(r % _L25519, B)) if r % _L25519 else (1).to_bytes(32, "little")
    k = int.from_bytes(hashlib.sha512(Rs + A + msg).digest(), "little") % _L25519
    S = (r + k * a) % _L25519
    return Rs + S.to_bytes(32, "little")
