"""Authentication scenarios and the ceremony-level fault catalogue (C01/C07/C10/C19/C20).
Every fault is built so that everything else - including the signature - stays genuine."""
import hashlib, copy, json, random
from harness import authsim, impl, fw

ALT_CRED_SLOT = 2


class Cycler:
    """Stands in for the random generator inside a catalogue entry: successive applications of one entry walk through its variants in order
    (choice -> the next element, random() -> a fixed cycle of values), so that WHICH variants a run covers does not depend on the random stream."""
    FRACTIONS = [0.05, 0.95, 0.55, 0.35, 0.75, 0.65, 0.15, 0.45]

    def __init__(self, name):
        import zlib
        self.n = 0
        self.k = 0
        self.maxlen = 1
        self.r = random.Random(zlib.crc32(name.encode()))

    def choice(self, seq):
        seq = list(seq)
        self.maxlen = max(self.maxlen, len(seq))
        return seq[self.n % len(seq)]

    def random(self):
        self.k += 1
        return self.FRACTIONS[(self.n + self.k - 1) % len(self.FRACTIONS)]

    def __getattr__(self, a):            # randbytes, randrange, sample, shuffle, ...
        return getattr(self.r, a)


_CYCLERS = {}


def cycler(name):
    return _CYCLERS.setdefault(name, Cycler(name))


def apply(table, name, s, scope=""):
    """Apply catalogue entry `name` of `table` to scenario s with the entry's own cycling generator."""
    c = cycler(scope + name)
    c.k = 0
    table[name](s, c)
    c.n += 1
    return c


def variants_left(name, scope="", cap=16):
    c = cycler(scope + name)
    return c.n < min(max(c.maxlen, len(Cycler.FRACTIONS) if c.k else 1), cap)


class Scn:
    """Parameters of one authentication ceremony; build() -> (policy, assertion)."""

    def __init__(self, kind="ES256-P256", rng=None):
        self.kind = kind
        self.rp_id = "example.com"
        self.sign_rp_id = None            # rp id the authenticator used (None = same)
        self.challenge = b"\x01\x02challenge-bytes-0123456789abcdef"
        self.sign_challenge = None
        self.origin = "https://example.com"
        self.exp_origin = None            # None -> same single string
        self.cd_type = "webauthn.get"
        self.flags = 0x05
        self.count = 10
        self.stored = 9
        self.require_uv = False
        self.cred_id = b"credential-id-1"
        self.id_text = None
        self.typ = "public-key"
        self.token_binding = None
        self.cd_extra = None
        self.signer_kind = None           # sign with another credential's key
        self.signer_slot = 0
        self.stored_key_kind = None       # RP stores another credential's key
        self.declared_alg = None          # the stored COSE key declares another algorithm than the key's own
        self.sign_scheme = None
        self.sign_over = None             # 'ad-only' | 'cdj-raw'
        self.post = None                  # function(assertion) mutating after signing
        self.ext = None
        self.at_cred_id = None            # credential id inside an attested-credential-data block of an ASSERTION (None = the credential's own)
        self.user_handle = None
        self.faults = []
        self.cd_prefix, self.cd_suffix = b"", b""      # bytes around the client data JSON that ARE part of what the authenticator hashed (BOM, whitespace)

    def build(self):
        cred = authsim.Cred(self.kind)
        signer = authsim.Cred(self.signer_kind, slot=self.signer_slot) if self.signer_kind else cred
        cdj = authsim.client_data(self.cd_type, self.sign_challenge if self.sign_challenge is not None else self.challenge,
                                  self.origin, extra=self.cd_extra, token_binding=self.token_binding)
        cdj = self.cd_prefix + cdj + self.cd_suffix
        if getattr(self, "cd_wrap", None):
            import json as _json
            for _ in range(self.cd_wrap[0]):
                cdj = _json.dumps(cdj.decode("utf-8")).encode()
            cdj += self.cd_wrap[1]
        ad = authsim.authdata(self.sign_rp_id or self.rp_id, self.flags, self.count, aaguid=bytes(16), cred_id=self.at_cred_id if self.at_cred_id is not None else self.cred_id,
                              cose_bytes=cred.cose_bytes, ext=self.ext)
        if self.sign_over == "ad-only":
            msg = ad
        elif self.sign_over == "cdj-raw":
            msg = ad + cdj
        elif self.sign_over == "ad-without-extensions":
            import cbor2 as _c
            ext_used = self.ext if self.ext is not None else _c.dumps({"credProtect": 2})
            msg = (ad[:len(ad) - len(ext_used)] if self.flags & 0x80 else ad) + hashlib.sha256(cdj).digest()
        elif isinstance(self.sign_over, tuple) and self.sign_over[0] == "digest":
            # the client data hash is SHA-256, whatever the client data say about themselves
            name = self.sign_over[1]
            try:
                dg = b"" if name == "null" else hashlib.new(name, cdj).digest() if not name.startswith("shake") else hashlib.new(name, cdj).digest(32)
            except Exception:
                dg = b""
            msg = ad + dg
        elif self.sign_over == "cdh-first":
            msg = hashlib.sha256(cdj).digest() + ad
        elif self.sign_over == "hash-of-the-base":
            msg = hashlib.sha256(ad + hashlib.sha256(cdj).digest()).digest()
        else:
            msg = ad + hashlib.sha256(cdj).digest()
        sig = signer.sign(msg, self.sign_scheme)
        a = authsim.Assertion(cred, self.cred_id, cdj, ad, sig, user_handle=self.user_handle, id_text=self.id_text, typ=self.typ)
        if self.post:
            self.post(a)
        stored_key = authsim.Cred(self.stored_key_kind, slot=ALT_CRED_SLOT).cose_bytes if self.stored_key_kind else cred.cose_bytes
        if self.declared_alg is not None:
            import cbor2
            stored_key = cbor2.dumps(cred.cose_map(alg=self.declared_alg))
        pol = impl.AuthPolicy(self.challenge, self.rp_id, self.exp_origin if self.exp_origin is not None else self.origin,
                              stored_key, self.stored, self.require_uv)
        return pol, a

    def describe(self):
        return {k: (v.hex() if isinstance(v, bytes) else v) for k, v in self.__dict__.items() if k != "post" and not callable(v)}


# ---- fault catalogue: name -> function(scn, rng) ----
def _word_decoys(s, r):
    # every short string the CHANGED source mentions and the pinned source did not: as client-data members whose (nested) values name the expected
    # RP id / origin / challenge - whatever a new code path might look for
    from harness import srcdict
    ws = srcdict.words()
    if not ws:
        return
    good = [s.rp_id, s.exp_origin if isinstance(s.exp_origin, str) else s.origin, authsim.b64u(s.challenge), True, 1]
    inner = {w: good[i % len(good)] for i, w in enumerate(ws + ["rpId", "origin", "topOrigin", "challenge", "total", "instrument", "value", "id"])}
    s.cd_extra = dict(s.cd_extra or {})
    for w in ws:
        s.cd_extra[w] = inner if r.random() < 0.7 else good[0]
def f_type(s, r):
    from harness import srcdict
    s.cd_type = r.choice(["webauthn.create", "webauthn.get ", "Webauthn.get", "", "payment.get", "webauthn.GET", "public-key"] + srcdict.words())
    _word_decoys(s, r)
def f_challenge_other(s, r): s.sign_challenge = bytes(x ^ 0xFF for x in s.challenge)
def f_challenge_trunc(s, r): s.sign_challenge = s.challenge[:-1] if r.random() < 0.5 else s.challenge + b"\x00"
def challenge_text_relation(s, r):
    """(expected challenge, carried challenge) related by a text encoding - one is the hex / Base64 / decimal TEXT of the other: different byte strings"""
    import base64
    raw = bytes(r.randrange(256) for _ in range(16))
    v = r.choice(["expected-is-hex-of-carried", "carried-is-hex-of-expected", "expected-is-HEX-of-carried", "expected-is-base64-of-carried", "expected-is-decimal-of-carried", "carried-is-hex-of-expected"])
    if v == "expected-is-hex-of-carried":
        s.challenge, s.sign_challenge = raw.hex().encode(), raw
    elif v == "expected-is-HEX-of-carried":
        s.challenge, s.sign_challenge = raw.hex().upper().encode(), raw
    elif v == "carried-is-hex-of-expected":
        s.sign_challenge = s.challenge.hex().encode()
    elif v == "expected-is-base64-of-carried":
        s.challenge, s.sign_challenge = base64.b64encode(raw), raw
    else:
        s.challenge, s.sign_challenge = str(int.from_bytes(raw, "big")).encode(), raw
def member_boundary_shifted(s, r):
    """type, challenge and origin are three members, each compared with its own expectation: moving characters across the boundary between two of them (the tail of one
    to the head of the next, so that their CONCATENATION is unchanged) changes two members"""
    exp_origin = s.exp_origin if getattr(s, "exp_origin", None) is not None else s.origin
    if not isinstance(exp_origin, str):
        exp_origin = exp_origin[0]
    if getattr(s, "exp_origin", "absent") is None:
        s.exp_origin = exp_origin
    v = r.choice(["type-tail-to-challenge", "challenge-tail-from-origin", "origin-head-to-challenge-2", "type-takes-challenge-head"])
    ch = s.challenge
    if v == "type-tail-to-challenge":
        s.cd_type, s.sign_challenge = s.cd_type[:-1], s.cd_type[-1:].encode() + ch
    elif v == "challenge-tail-from-origin":
        s.sign_challenge, s.origin = ch + exp_origin[:5].encode("utf-8", "surrogatepass"), exp_origin[5:]
    elif v == "origin-head-to-challenge-2":
        s.sign_challenge, s.origin = ch + exp_origin[:8].encode("utf-8", "surrogatepass"), exp_origin[8:]
    else:
        s.cd_type, s.sign_challenge = s.cd_type + ch[:1].decode("latin-1"), ch[1:]
def f_challenge_b64_alias(s, r):
    # the expected challenge is printable base64url text and the client data carries its base64url DECODING, or the client data
    # carries the base64url ENCODING of the expected bytes as its challenge
    import base64
    if r.random() < 0.3:
        return challenge_text_relation(s, r)
    if r.random() < 0.5:
        txt = "".join(r.choice("ABCDEFGHIJKLMNOPQRSTUVWXYZabcdefghijklmnopqrstuvwxyz0123456789-_") for _ in range(43))
        s.challenge = txt.encode()
        s.sign_challenge = base64.urlsafe_b64decode(txt + "=")
    else:
        s.sign_challenge = authsim.b64u(s.challenge).encode()
def f_declared_alg_foreign(s, r):
    # the stored key declares an algorithm of ANOTHER key family (or an unregistered one); the signature is a genuine one of the key's own scheme
    fam = authsim.KINDS[s.kind][0]
    from harness import srcdict
    foreign = {"ec": [-257, -258, -259, -37, -38, -39, -65535, -8, -35, -51, -52, -47, -9], "rsa": [-7, -36, -8, -35, -260], "ed": [-7, -36, -257, -37, -19, -53]}[fam] + srcdict.alg_ids()
    s.declared_alg = r.choice([a for a in foreign if a != authsim.KINDS[s.kind][2]])
def _keep_expected(s):
    if s.exp_origin is None:
        s.exp_origin = s.origin
def _l3_decoys(s, r):
    # Level-3 client data members naming the EXPECTED origin next to a wrong `origin`: they are not the origin
    good = s.exp_origin if isinstance(s.exp_origin, str) else (s.exp_origin[0] if s.exp_origin else s.origin)
    if r.random() < 0.6:
        s.cd_extra = r.choice([{"crossOrigin": True, "topOrigin": good}, {"crossOrigin": True, "topOrigin": good, "other": 1}, {"topOrigin": good}, {"crossOrigin": False, "topOrigin": good},
                               {"crossOrigin": True, "top_origin": good}, {"crossOrigin": True, "origins": [good]}])
def f_origin_other(s, r):
    _keep_expected(s); s.origin = r.choice(["https://evil.example", "https://example.com.evil.test", "http://example.com."]); _l3_decoys(s, r)
ORIGIN_ALIASES = [("https://bücher.example", "https://xn--bcher-kva.example"), ("https://xn--bcher-kva.example", "https://bücher.example"), ("https://Example.com", "https://example.com"),
                  ("https://example.com", "https://example.com/"), ("https://example.com:443", "https://example.com"), ("https://example.com", "https://example.com:443"),
                  ("https://straße.example", "https://strasse.example"), ("https://example.com", "https://example.com\ud83d"), ("https://example.com", "\udc00https://example.com"),
                  ("https://example.com", "https://exa\ud800mple.com"), ("https://example.com", "https://example.com\x00"), ("https://example.com", "https://example.com\u200b"),
                  ("https://example.com", "https://example.com\U000e0001\U000e0065\U000e006e"), ("https://example.com", "\ufeffhttps://example.com"), ("https://example.com", "https://example.com "), ("https://example.com", "https://EXAMPLE.com")]
def f_origin_alias(s, r):
    # (origin the RP expects - as a bare string or as a list -, origin in the client data): different strings, however similar
    exp, got = r.choice(ORIGIN_ALIASES)
    s.exp_origin = exp if r.random() < 0.6 else [exp, "https://other.example"]
    s.origin = got
# an expected origin is a STRING, not a pattern: characters that some pattern language (glob, regex, SQL LIKE) reads specially stand for themselves
ORIGIN_PATTERNS = [("http://[::1]:5000", "http://1:5000"), ("http://[::1]:5000", "http://::5000"), ("https://[2001:db8::1]", "https://2"), ("https://*.example.com", "https://login.example.com"),
                   ("https://example.com?", "https://example.comX"), ("https://example.com", "https://exampleXcom"), ("https://(a|b).example", "https://a.example"),
                   ("https://a.example|https://b.example", "https://a.example"), ("https://example.com$", "https://example.com"), ("^https://example.com", "https://example.com"),
                   ("https://%.example.com", "https://login.example.com"), ("https://_.example", "https://a.example"), ("https://example.com*", "https://example.com.evil.test"),
                   ("https://example.[a-z]*", "https://example.com"), ("*", "https://evil.example"), ("https://{a,b}.example", "https://a.example")]
def f_origin_pattern(s, r):
    exp, got = r.choice(ORIGIN_PATTERNS)
    s.exp_origin = exp if r.random() < 0.6 else [exp, "https://other.example"]
    s.origin = got
BOM = b"\xef\xbb\xbf"
def _affix(s, pre, suf, own):
    s.cd_prefix = own
    def post(a, pre=pre, suf=suf, own=own):
        # presented = own prefix kept, then the extra bytes spliced in right after it (so that a "strip the marks" reading swallows them)
        a.cdj = own + pre + a.cdj[len(own):] + suf
    s.post = post
def f_cd_unsigned_affix(s, r):
    # bytes put around the client data AFTER it was hashed and signed (transport noise, a re-serialising proxy) that leave it well-formed JSON:
    # the hash no longer matches
    pre, suf, own = r.choice([(BOM, b"", b""), (b" ", b"", b""), (b"\n", b"", b""), (b"", b" ", b""), (b"", b"\n", b""), (b"", b"\r\n", BOM), (b" ", b" ", b""), (b"\t", b"", b"")])
    _affix(s, pre, suf, own)
def f_cd_unsigned_affix_malformed(s, r):
    # ... and affixes that make it something json.loads refuses (a second byte order mark, stray mark bytes, NUL): no JSON, no ceremony
    from harness import srcdict
    pre, suf, own = r.choice([(BOM + BOM, b"", b""), (BOM + b"\xbb", b"", b""), (BOM + b"\xbf\xbb", b"", b""), (b"\xbb\xbf", b"", BOM), (BOM, b"", BOM), (b"\xbf", b"", BOM), (b"\xfe\xff", b"", b""),
                              (b"\x00", b"", b""), (b"", b"\x00", b""), (b"", BOM, b"")] + [(p, b"", b"") for p in srcdict.byte_prefixes()])
    _affix(s, pre, suf, own)
def f_origin_substring(s, r):
    # client origin is a proper substring / superstring of the expected one
    s.exp_origin = "https://example.com:8443"
    s.origin = r.choice(["https://example.com", "example.com:8443", "https://example.com:84430", "https://example.com:8443/"])
def f_origin_list_absent(s, r): s.exp_origin = ["https://a.example", "https://b.example"]; s.origin = r.choice(["https://c.example", "https://a.example https://b.example", "https://a.exampl"])
def f_origin_case(s, r): _keep_expected(s); s.origin = s.origin.upper() if s.origin.upper() != s.origin else s.origin.lower()
def f_token_binding(s, r): s.token_binding = {"status": r.choice(["not-supported", "unknown", "", "PRESENT"])}
RP_ALIASES = [("example.com", "evil.example"), ("example.com", "example.co"), ("example.com", "example.com."), ("example.com", "Example.com"),
              ("Example.COM", "example.com"), ("login.Example.com", "login.example.com"), ("example.com ", "example.com"), (" example.com", "example.com"),
              ("bücher.example", "xn--bcher-kva.example"), ("xn--bcher-kva.example", "bücher.example"), ("BÜCHER.example", "bücher.example"),
              ("straße.example", "strasse.example"), ("ｅxample.com", "example.com"), ("example.com", "example.com\u200b")]
def f_rp_other(s, r):
    # (RP ID the relying party expects, RP ID the authenticator hashed): different strings, however similar - no case folding, trimming, IDNA or
    # Unicode normalisation makes them "the same RP ID"
    s.rp_id, s.sign_rp_id = r.choice(RP_ALIASES)
    _good_copy_decoys(s)
def _good_copy_decoys(s):
    """next to a fault in the SIGNED authenticator data: unsigned response members that carry authenticator data without the fault (right RP ID hash, UP and
    UV set, a counter above the stored one, this credential's id and key) - an `attestationObject` as registration responses have one, and bare copies"""
    prev = s.post
    def post(a, prev=prev):
        if prev:
            prev(a)
        import cbor2
        good = authsim.authdata(s.rp_id, 0x45, min(max(s.stored, s.count, 0) + 1, 2 ** 32 - 1), aaguid=bytes(16), cred_id=s.cred_id, cose_bytes=a.cred.cose_bytes)
        ao = cbor2.dumps({"fmt": "none", "attStmt": {}, "authData": good})
        a.extra_response = {"attestationObject": authsim.b64u(ao), "authData": authsim.b64u(good), "authenticator_data": authsim.b64u(good), "unsignedAuthenticatorData": authsim.b64u(good)}
    s.post = post
def f_rp_hash_of_other_string(s, r):
    # the RP ID hash is SHA-256 of the RP ID - not of any other string of the ceremony (the origin as in the legacy AppID, its host, the challenge, ...)
    _keep_expected(s)
    o = s.origin
    cands = [o, o + "/", o.split("://")[-1], "https://" + s.rp_id, s.rp_id + ":443", authsim.b64u(s.challenge), s.cd_type, authsim.b64u(s.cred_id), "https://" + s.rp_id + "/app-id.json", " "]
    s.sign_rp_id = r.choice([c for c in cands if c != s.rp_id])
def f_cd_wrapped_as_string(s, r):
    # client data that is a JSON STRING holding the JSON text of the expected object (stringified twice), hashed and signed as such: it is no client data object
    import json as _json
    n = r.choice([1, 2])
    sfx = r.choice([b"", b" ", b"\n"])
    s.cd_wrap = (n, sfx)
def f_up_clear(s, r): s.flags &= ~0x01; _good_copy_decoys(s)
def f_uv_clear(s, r):
    _good_copy_decoys(s)
    s.require_uv = True; s.flags &= ~0x04
    if r.random() < 0.7:
        # extension outputs that TALK about user verification do not set the UV flag
        import cbor2
        s.flags |= 0x80
        s.ext = cbor2.dumps(r.choice([{"uvm": [[2, 4, 2]]}, {"uvm": [[2, 4, 2], [4, 4, 2]]}, {"uvm": [[0x2, 0xA, 0x4]], "credProtect": 3}, {"credProtect": 3}, {"userVerified": True}, {"uv": True}]))
ALPHA64 = "ABCDEFGHIJKLMNOPQRSTUVWXYZabcdefghijklmnopqrstuvwxyz0123456789-_"
def id_spellings(cred_id):
    """Texts that are NOT the base64url encoding of cred_id (several of them still decode to it under a lenient decoder)."""
    good = authsim.b64u(cred_id)
    out = {"padded-1": good + "=", "padded-2": good + "==", "char-appended": good + "A", "truncated": good[:-1], "case-changed": good.lower() if good.lower() != good else good + "x",
           "of-longer-raw-id": authsim.b64u(cred_id + b"\x00"), "newline-appended": good + "\n", "dot-inserted": good[:2] + "." + good[2:], "space-prefixed": " " + good,
           "standard-alphabet": good.replace("-", "+").replace("_", "/"), "empty": "",
           "non-ascii-appended": good + "\u00e9", "zero-width-space-inside": good[:1] + "\u200b" + good[1:], "lone-surrogate-appended": good + "\ud800", "nul-appended": good + "\x00",
           "no-break-space-appended": good + "\u00a0", "line-separator-prefixed": "\u2028" + good, "ideographic-space-appended": good + "\u3000", "next-line-appended": good + "\u0085"}
    if len(cred_id) % 3:
        out["last-char-spare-bits"] = good[:-1] + ALPHA64[ALPHA64.index(good[-1]) ^ 1]
    return {k: v for k, v in out.items() if v != good}
def id_fault(which):
    def f(s, r):
        sp = id_spellings(s.cred_id)
        s.id_text = sp.get(which) or sp["padded-1"]
    return f
def f_id_mismatch(s, r):
    sp = id_spellings(s.cred_id)
    s.id_text = sp[r.choice(sorted(sp))]
def f_signer_other(s, r): s.signer_kind = s.kind; s.signer_slot = 1
def f_stored_key_other(s, r): s.stored_key_kind = s.kind
def f_sign_ad_only(s, r): s.sign_over = "ad-only"
def f_sign_cdj_raw(s, r): s.sign_over = "cdj-raw"
def f_sign_other_base(s, r):
    # the signature covers authenticator data || SHA-256(client data) - all of the authenticator data, extension outputs included, in that order, not hashed again
    import cbor2 as _c
    s.sign_over = r.choice(["ad-without-extensions", "cdh-first", "hash-of-the-base", "ad-without-extensions"])
    s.flags |= 0x80
    s.ext = _c.dumps(r.choice([{"hmac-secret": bytes(range(32))}, {"credProtect": 2}, {"prf": {"results": {"first": b"\x01" * 32}}}, {"hmac-secret": bytes(64), "credBlob": b"blob"}]))
DIGEST_NAMES = {"SHA-1": "sha1", "SHA-512": "sha512", "sha384": "sha384", "SHA-384": "sha384", "md5": "md5", "MD5": "md5", "null": "null", "NULL": "null", "Null": "null", "": "null", "none": "null",
                "sha3-256": "sha3_256", "SHA3-256": "sha3_256", "blake2s256": "blake2s", "sha512-256": "sha512_256", "SHA-224": "sha224", "shake128": "shake_128", "sm3": "sm3", "S256": "null", "sha1": "sha1"}
def f_cd_announces_digest(s, r):
    # client data that announce a digest of their own (the `hashAlgorithm` member of early drafts, and every new member name of the changed source), hashed with THAT digest
    # ("null": nothing at all): the signature base uses SHA-256 and nothing else
    from harness import srcdict
    member = r.choice(["hashAlgorithm", "hashAlgorithm", "hashAlg", "alg", "digest"] + [w for w in srcdict.words() if w[:1].isalpha()][:8])
    name = r.choice(sorted(DIGEST_NAMES))
    import hashlib as _h
    real = DIGEST_NAMES[name]
    if real not in ("null",) and real not in _h.algorithms_available:
        real = "sha1"
    s.cd_extra = dict(s.cd_extra or {}, **{member: name})
    s.sign_over = ("digest", real)
def f_counter_equal(s, r):
    if s.count == 0:
        s.count = r.choice([1, 7, 2 ** 31])       # 0 = 0 is the one equal pair the rule accepts
    s.stored = s.count
    _good_copy_decoys(s)
def f_counter_lower(s, r): s.stored = s.count + r.choice([1, 2, 1000]); _good_copy_decoys(s)
def f_counter_zero_vs_stored(s, r): s.count = 0; s.stored = r.choice([1, 5, 2 ** 31]); _good_copy_decoys(s)
def f_bs_without_be(s, r): s.flags = (s.flags | 0x10) & ~0x08
def f_scheme_mismatch(s, r):
    fam = authsim.KINDS[s.kind][0]
    cur = authsim.KINDS[s.kind][3]
    alts = {"ec": ["ECDSA-SHA256", "ECDSA-SHA384", "ECDSA-SHA512", "ECDSA-SHA1"],
            "rsa": ["PKCS1-SHA256", "PKCS1-SHA384", "PKCS1-SHA512", "PKCS1-SHA1", "PSS-SHA256", "PSS-SHA384", "PSS-SHA512", "PSSM-SHA384-SHA256", "PSSM-SHA512-SHA256", "PSSM-SHA256-SHA1", "PSSM-SHA256-SHA384"], "ed": []}[fam]
    if cur.startswith("PSS-") and r.random() < 0.5:
        # the declared PSS scheme fixes the digest AND the mask generation hash: the same digest with MGF1 over another hash is another scheme
        alts = [f"PSSM-{cur[4:]}-{m}" for m in ("SHA1", "SHA256", "SHA384", "SHA512") if m != cur[4:]]
    alts = [a for a in alts if a != cur]
    if alts:
        s.sign_scheme = r.choice(alts)
    else:
        s.signer_kind = s.kind; s.signer_slot = 1
def f_cdj_edited(s, r):
    def post(a): a.cdj = a.cdj.replace(b'{"type"', b'{ "type"')
    s.post = post
def f_ad_trailing(s, r):
    def post(a): a.ad = a.ad + b"\x00"
    s.post = post
def f_sig_trunc(s, r):
    def post(a): a.sig = a.sig[:-1]
    s.post = post
def f_cred_type(s, r): s.typ = r.choice(["public-key ", "Public-Key", "", "password"])

FAULTS = {
    "cd-type": f_type, "challenge-other": f_challenge_other, "challenge-trunc": f_challenge_trunc,
    "origin-other": f_origin_other, "origin-substring": f_origin_substring, "origin-list-absent": f_origin_list_absent,
    "origin-case": f_origin_case, "token-binding-status": f_token_binding, "rp-id-other": f_rp_other,
    "up-clear": f_up_clear, "uv-clear-required": f_uv_clear, "id-not-b64-rawid": f_id_mismatch,
    "signed-by-other-key": f_signer_other, "stored-key-other": f_stored_key_other, "signed-over-ad-only": f_sign_ad_only,
    "signed-over-raw-cdj": f_sign_cdj_raw, "counter-equal": f_counter_equal, "counter-lower": f_counter_lower,
    "counter-zero-vs-stored": f_counter_zero_vs_stored, "bs-without-be": f_bs_without_be, "scheme-mismatch": f_scheme_mismatch,
    "cdj-edited-after-signing": f_cdj_edited, "authdata-trailing-byte": f_ad_trailing, "signature-truncated": f_sig_trunc,
    "id-not-b64-rawid:padded-1": id_fault("padded-1"), "id-not-b64-rawid:padded-2": id_fault("padded-2"), "id-not-b64-rawid:last-char-spare-bits": id_fault("last-char-spare-bits"),
    "id-not-b64-rawid:newline-appended": id_fault("newline-appended"), "id-not-b64-rawid:dot-inserted": id_fault("dot-inserted"), "id-not-b64-rawid:standard-alphabet": id_fault("standard-alphabet"),
    "id-not-b64-rawid:no-break-space-appended": id_fault("no-break-space-appended"), "id-not-b64-rawid:line-separator-prefixed": id_fault("line-separator-prefixed"),
    "id-not-b64-rawid:non-ascii-appended": id_fault("non-ascii-appended"), "id-not-b64-rawid:zero-width-space-inside": id_fault("zero-width-space-inside"), "id-not-b64-rawid:nul-appended": id_fault("nul-appended"),
    "id-not-b64-rawid:char-appended": id_fault("char-appended"), "id-not-b64-rawid:truncated": id_fault("truncated"), "id-not-b64-rawid:empty": id_fault("empty"),
    "credential-type": f_cred_type, "challenge-base64url-alias": f_challenge_b64_alias, "origin-alias-spelling": f_origin_alias, "client-data-affix-not-signed": f_cd_unsigned_affix, "signed-over-another-arrangement-of-the-same-data": f_sign_other_base, "rp-id-hash-of-another-ceremony-string": f_rp_hash_of_other_string, "client-data-is-a-json-string-wrapping-the-object": f_cd_wrapped_as_string, "client-data-malformed-affix-not-signed": f_cd_unsigned_affix_malformed, "origin-expected-read-as-pattern": f_origin_pattern, "declared-algorithm-of-another-family": f_declared_alg_foreign, "client-data-announce-another-digest-and-are-hashed-with-it": f_cd_announces_digest,
    "challenge-is-a-text-encoding-of-the-expected-one-or-vice-versa": challenge_text_relation, "characters-moved-across-the-boundary-between-two-client-data-members": member_boundary_shifted,
}
# faults that can only be expressed in some input forms
RECORD_ONLY = {"credential-type"}


def long_origin_list(origin, n=40):
    """a list of n expected origins with `origin` deep inside it (index >= n - 3) and, before AND after it, other origins of the same host
    (another scheme / port / case): membership is decided by string equality however long the list is and whatever else it holds"""
    try:
        from urllib.parse import urlsplit
        host = urlsplit(origin).hostname or "example.com"
    except Exception:
        host = "example.com"
    same_host = [f"http://{host}", f"https://{host}:8443", f"https://{host.upper()}", f"https://{host}:443"]
    same_host = [o for o in same_host if o != origin]
    fill = [f"https://tenant{i}.example" for i in range(max(0, n - len(same_host) - 1))]
    return same_host[:2] + fill + [origin] + same_host[2:]


def base_variation(s, rng):
    """Legitimate variation of the base ceremony (all accepted)."""
    s.rp_id = rng.choice(["example.com", "login.example.org", "xn--bcher-kva.example", "bücher.example", "a"])
    s.challenge = rng.randbytes(rng.choice([1, 16, 32, 64, 65]))
    o = rng.choice(["https://example.com", "https://example.com:8443", "android:apk-key-hash:abcdef", "https://bücher.example",
                    "android:apk-key-hash:Z8a8pvVL-_AbCdEfGhIjKlMnOpQrStUvWxYz0123456", "ios:bundle-id:com.Example.App"])
    if rng.random() < 0.25:
        s.challenge = "".join(rng.choice("ABCDEFGHIJKLMNOPQRSTUVWXYZabcdefghijklmnopqrstuvwxyz0123456789-_") for _ in range(rng.choice([22, 43, 64]))).encode()
    s.origin = o
    if rng.random() < 0.5:
        others = ["https://other.example", "https://example.com:9999"]
        l = others[:rng.randrange(0, 3)]
        l.insert(rng.randrange(0, len(l) + 1), o)
        s.exp_origin = l
    s.flags = 0x01 | rng.choice([0, 0x04]) | rng.choice([0, 0x08, 0x18]) | rng.choice([0, 0x02]) | rng.choice([0, 0x20])
    if rng.random() < 0.3:
        s.flags |= 0x40
    if rng.random() < 0.3:
        s.flags |= 0x80
        if rng.random() < 0.7:
            import cbor2
            from harness import cborgen
            s.ext = cbor2.dumps(cborgen.known_ext(rng))
    if s.flags & 0x40 and rng.random() < 0.5:
        s.at_cred_id = rng.choice([b"another-credential", b"", rng.randbytes(16)])      # an attested block in an assertion is not compared with anything
    s.require_uv = bool(s.flags & 0x04) and rng.random() < 0.5
    s.count, s.stored = rng.choice([(0, 0), (1, 0), (10, 9), (2 ** 32 - 1, 2 ** 32 - 2), (2 ** 31, 2 ** 31 - 1), (rng.randrange(1, 2 ** 32), 0)])
    s.cred_id = rng.randbytes(rng.choice([1, 16, 32, 64, 255, 1023]))
    if rng.random() < 0.3:
        s.token_binding = rng.choice([{"status": "supported"}, {"status": "present", "id": "abc"}, "unused-string"])
    if rng.random() < 0.3:
        s.cd_extra = {"crossOrigin": rng.choice([True, False]), "other_keys_can_be_added_here": "do not compare clientDataJSON against a template"}
    if rng.random() < 0.3:
        s.user_handle = rng.randbytes(rng.choice([1, 16, 64]))
    if rng.random() < 0.12 and s.exp_origin is None:
        s.rp_id = s.origin          # the legacy AppID case (`appid` extension): the identifier the authenticator hashed is the origin string itself - to this API just another RP ID
    if rng.random() < 0.2:
        # the client data is whatever bytes the client serialised and the authenticator hashed: a byte order mark or white space around the JSON text is part of it
        s.cd_prefix, s.cd_suffix = rng.choice([(b"\xef\xbb\xbf", b""), (b" ", b"\n"), (b"\n\t ", b" "), (b"\xef\xbb\xbf", b"\r\n")])
    return s


def expected_accept(s):
    return not s.faults
