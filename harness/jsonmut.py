"""Structural mutation of credential JSON (dict form) and comparison of parser/verifier outcomes."""
import copy, json
from harness import fw, impl
from harness.oracle import json_to_wire

VALUES = [None, True, False, 0, 1, -7, 3.5, "", "A", "AA", "AAA=", "public-key", "platform", "cross-platform", "usb", "é", "!!!!",
          [], ["usb"], ["usb", ["nfc"], "internal"], {}, {"a": 1}, [1, [2, [3]]], "public-key ", "hybrid", "%%%", "Zm9v", "Zm9vYg", "Zm9vYmE"]


def paths(d, prefix=()):
    out = [prefix]
    if isinstance(d, dict):
        for k, v in d.items():
            out += paths(v, prefix + (k,))
    return out


def get_parent(d, path):
    for k in path[:-1]:
        d = d[k]
    return d


def mutate(base, rng, n=None):
    d = copy.deepcopy(base)
    for _ in range(n or rng.choice([1, 1, 1, 2, 3])):
        ps = [p for p in paths(d) if p]
        op = rng.random()
        if op < 0.15:
            return rng.choice(VALUES)            # non-object / arbitrary top-level value
        p = rng.choice(ps)
        try:
            par = get_parent(d, p)
        except Exception:
            continue
        if not isinstance(par, dict) or p[-1] not in par:
            continue
        if op < 0.4:
            del par[p[-1]]
        elif op < 0.9:
            par[p[-1]] = copy.deepcopy(rng.choice(VALUES))
        else:
            par[rng.choice(["transports", "authenticatorAttachment", "userHandle", "type", "extra"])] = copy.deepcopy(rng.choice(VALUES))
    return d


def compare_auth_dict(B, pol, d, as_text):
    chk = B.chk
    val = json.dumps(d) if as_text else d
    il = impl.outcome(lambda: __import__("webauthn").verify_authentication_response(credential=val, **pol.kwargs()), impl.pr_verified_auth) \
        if isinstance(val, (str, dict)) else None
    if il is None:
        return
    chk.evals += 1
    if B.R:
        w = ("T " + fw.ws(val)) if as_text else ("D " + json_to_wire(d))
        ml = B.R.call("verifyauth " + pol.wire() + " " + w)
        if not fw.exn_refines(ml, il):
            chk.diverge("Model.verify_auth(json-mutation)", f"model {ml[:90]} impl {il[:90]} input {json.dumps(d)[:200]}",
                        {"entry": "verify_authentication_response", "credential": d, "as_text": as_text, "policy": pol.describe(), "impl": il, "model": ml})
    chk.count("jsonmut:" + il[:24])
    chk.seen(("jsonmut", json.dumps(d, sort_keys=True)[:200]))
