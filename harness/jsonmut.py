"""Structural mutation of credential JSON (dict form) and comparison of parser/verifier outcomes."""
import copy, json
from harness import fw, impl
from harness.oracle import json_to_wire

VALUES = [None, True, False, 0, 1, -7, 3.5, "", "A", "AA", "AAA=", "public-key", "platform", "cross-platform", "usb", "é", "!!!!",
          [], ["usb"], ["usb", ["nfc"], "internal"], {}, {"a": 1}, [1, [2, [3]]], "public-key ", "hybrid", "%%%", "Zm9v", "Zm9vYg", "Zm9vYmE"]


def paths(d, prefix=()):
    out = [prefix]
    if isinstance(d, dict):
        for k, v in d.items():
            out += paths(v, prefix + (k,))
    return out


def get_parent(d, path):
    for k in path[:-1]:
        d = d[k]
    return d


def mutate(base, rng, n=None):
    d = copy.deepcopy(base)
    for _ in range(n or rng.choice([1, 1, 1, 2, 3])):
        ps = [p for p in paths(d) if p]
        op = rng.random()
        if op < 0.15:
            return rng.choice(VALUES)            # non-object / arbitrary top-level value
        p = rng.choice(ps)
        try:
            par = get_parent(d, p)
        except Exception:
            continue
        if not isinstance(par, dict) or p[-1] not in par:
            continue
        if op < 0.4:
            del par[p[-1]]
        elif op < 0.9:
            par[p[-1]] = copy.deepcopy(rng.choice(VALUES))
        else:
            par[rng.choice(["transports", "authenticatorAttachment", "userHandle", "type", "extra"])] = copy.deepcopy(rng.choice(VALUES))
    return d


def compare_auth_dict(B, pol, d, as_text):
    chk = B.chk
    val = json.dumps(d) if as_text else d
    il = impl.outcome(lambda: __import__("webauthn").verify_authentication_response(credential=val, **pol.kwargs()), impl.pr_verified_auth) \
        if isinstance(val, (str, dict)) else None
    if il is None:
        return
    chk.evals += 1
    if B.R:
        w = ("T " + fw.ws(val)) if as_text else ("D " + json_to_wire(d))
        ml = B.R.call("verifyauth " + pol.wire() + " " + w)
        if not fw.exn_refines(ml, il):
            chk.diverge("Model.verify_auth(json-mutation)", f"model {ml[:90]} impl {il[:90]} input {json.dumps(d)[:200]}",
                        {"entry": "verify_authentication_response", "credential": d, "as_text": as_text, "policy": pol.describe(), "impl": il, "model": ml})
    chk.count("jsonmut:" + il[:24])
    chk.seen(("jsonmut", json.dumps(d, sort_keys=True)[:200]))



def text_spellings(d):
    """JSON texts that json.loads reads as exactly the value d (checked): repeated member names (the last one counts), escaped member names and
    strings, white space, another member order, a byte order mark-free but padded text.  -> [(name, text)]"""
    import json
    t = json.dumps(d)
    out = []
    if isinstance(d, dict) and d:
        k0 = next(iter(d))
        out.append(("first member repeated with another value in front", "{" + json.dumps(k0) + ": " + json.dumps("AAAA") + ", " + t[1:]))
        out.append(("an ignored member given twice", t[:-1] + ', "clientExtensionResults": {"a": 1, "a": 2}, "clientExtensionResults": ' + json.dumps(d.get("clientExtensionResults", {})) + "}")
                   if "clientExtensionResults" in d or True else None)
        if isinstance(d.get("response"), dict):
            r = d["response"]
            rk = next(iter(r))
            t2 = json.dumps(dict(d, response="@@R@@")).replace('"@@R@@"', "{" + json.dumps(rk) + ": 7, " + json.dumps(r)[1:])
            out.append(("a response member repeated with another value in front", t2))
            out.append(("the response given twice", "{" + '"response": {}, ' + t[1:]))
        esc = "".join("\\u%04x" % ord(c) for c in k0)
        out.append(("member name written with escapes", "{\"" + esc + "\"" + t[1 + len(json.dumps(k0)):]))
    out.append(("indented, sorted", json.dumps(d, indent=2, sort_keys=True)))
    out.append(("ASCII-escaped, compact", json.dumps(d, ensure_ascii=True, separators=(",", ":"))))
    out.append(("non-ASCII kept", json.dumps(d, ensure_ascii=False)))
    good = []
    for nm, tx in out:
        try:
            if json.loads(tx) == d and (nm, tx) not in good:
                good.append((nm, tx))
        except Exception:
            pass
    return good
