"""Environment invariance probe.  `python -m harness.envprobe <group>` prints one line per case (label TAB outcome); the checks run it
in child interpreters started with different process environments (default, `-O` / PYTHONOPTIMIZE, warnings turned into errors, another
time zone, a private SSL_CERT_FILE) and compare the outputs line by line: the outcome of every call is a function of its arguments and
the clock - not of how the interpreter was started.  Everything is seeded and keys / certificates are cached on disk, so two runs of the
same group print identical lines."""
import sys, os, json, random

REPO = os.environ.get("VERIF_REPO", "/repo")
sys.path.insert(0, os.path.dirname(os.path.dirname(os.path.abspath(__file__))))
sys.path.insert(0, os.environ.get("VERIF_LIB_PATH") or REPO)          # (VERIF_LIB_PATH: e.g. a zip archive of the package)


def auth_lines(rng):
    from harness import authcat, impl
    out = []
    for kind in ("ES256-P256", "RS256", "PS256", "EdDSA"):
        s = authcat.Scn(kind)
        pol, a = s.build()
        out.append((f"auth baseline {kind}", impl.verify_auth(pol, a.as_record())))
    # legitimate variation: with and without a user handle, extensions, attested data, token binding, origin lists, every flag mix
    for i in range(40):
        s = authcat.base_variation(authcat.Scn(("ES256-P256", "RS256", "EdDSA", "PS256")[i % 4]), rng)
        if i % 2 == 0:
            s.user_handle = None
        pol, a = s.build()
        for form in ("record", "dict"):
            out.append((f"auth variation {i} user_handle={'absent' if s.user_handle is None else 'present'} flags={s.flags:#04x} {form}", impl.verify_auth(pol, a.as_record() if form == "record" else a.as_dict())))
    for name, f in authcat.FAULTS.items():
        for ruv in (False, True):
            s = authcat.Scn("ES256-P256")
            if ruv:
                s.require_uv = True
                s.flags |= 0x04
            f(s, rng)
            pol, a = s.build()
            form = "record" if name in authcat.RECORD_ONLY else "dict"
            out.append((f"auth {name} uv_required={ruv}", impl.verify_auth(pol, a.as_record() if form == "record" else a.as_dict())))
    for kind in ("ES256-P256", "EdDSA"):
        s = authcat.Scn(kind)
        pol, a = s.build()
        for tail in ([b"https://staging.example"], [None, 5], [b"", "https://other.example", 1.5]):
            P_ = impl.AuthPolicy(pol.challenge, pol.rp_id, [s.origin] + tail, pol.pubkey, pol.count, pol.require_uv)
            out.append((f"auth origin list with {tail!r} after the match {kind}", impl.verify_auth(P_, a.as_dict())))
    # the same assertion again after it was accepted, with one bit of the signed material changed (nothing re-signed): whatever was remembered about the first
    # verification, this is another message
    for kind in ("ES256-P256", "RS256", "EdDSA"):
        s = authcat.Scn(kind)
        pol, a = s.build()
        out.append((f"auth accepted, then tampered: first {kind}", impl.verify_auth(pol, a.as_record())))
        ad0, cdj0 = a.ad, a.cdj
        a.ad = ad0[:36] + bytes([ad0[36] ^ 1])
        out.append((f"auth accepted, then tampered: counter bit {kind}", impl.verify_auth(pol, a.as_record())))
        a.ad = ad0[:32] + bytes([ad0[32] ^ 0x08]) + ad0[33:]
        out.append((f"auth accepted, then tampered: BE flag {kind}", impl.verify_auth(pol, a.as_record())))
        a.ad, a.cdj = ad0, cdj0.replace(b"}", b" }")
        out.append((f"auth accepted, then tampered: client data white space {kind}", impl.verify_auth(pol, a.as_record())))
        a.cdj = cdj0
        out.append((f"auth accepted, then tampered: original again {kind}", impl.verify_auth(pol, a.as_record())))
    # the stored key in the other form the library documents (a raw uncompressed P-256 point, as U2F registrations left it)
    s = authcat.Scn("ES256-P256")
    pol, a = s.build()
    n = a.cred.pk.public_numbers()
    raw = b"\x04" + n.x.to_bytes(32, "big") + n.y.to_bytes(32, "big")
    praw = impl.AuthPolicy(pol.challenge, pol.rp_id, pol.origin, raw, pol.count, False)
    out.append(("auth stored key as raw point: genuine", impl.verify_auth(praw, a.as_record())))
    a.sig = a.sig[:-1] + bytes([a.sig[-1] ^ 1])
    out.append(("auth stored key as raw point: bad signature", impl.verify_auth(praw, a.as_record())))
    for (st, c) in ((0, 0), (5, 5), (5, 4), (4, 5), (2 ** 31, 1), (2 ** 32 - 1, 0)):
        s = authcat.Scn("ES256-P256")
        s.count, s.stored = c, st
        pol, a = s.build()
        out.append((f"auth counter s={st} c={c}", impl.verify_auth(pol, a.as_record())))
    return out


def reg_lines(rng):
    from harness import regsim, regcat, regrun, impl
    out = []
    for fmt in regsim.FORMATS:
        s = regsim.RScn(fmt, "ES256-P256")
        pd, reg = regsim.build(s)
        out.append((f"reg baseline {fmt}", impl.verify_reg(regrun.policy_of(pd), reg.as_dict())[:60]))
    for i in range(24):
        fmt = regsim.FORMATS[i % len(regsim.FORMATS)]
        s = regsim.RScn(fmt, ("ES256-P256", "RS256", "EdDSA")[i % 3] if fmt not in ("fido-u2f", "apple", "tpm") else ("RS256" if fmt == "tpm" and i % 2 else "ES256-P256"))
        try:
            regcat.base_variation(s, rng)
            pd, reg = regsim.build(s)
        except Exception:
            continue
        out.append((f"reg variation {i} {fmt} flags={s.flags:#04x}", impl.verify_reg(regrun.policy_of(pd), reg.as_dict())[:60]))
    # every format fault of the other formats too (one variant each): the REFUSAL of each is built - message and all - under every environment
    for fmt in ("apple", "android-key", "android-safetynet", "fido-u2f"):
        for name, f in regcat.FORMAT_FAULTS.get(fmt, {}).items():
            s = regsim.RScn(fmt, "ES256-P256", "ES256-P256")
            try:
                f(s, random.Random(11))
                pd, reg = regsim.build(s)
            except Exception:
                continue
            out.append((f"reg {name}/{fmt}", impl.verify_reg(regrun.policy_of(pd), reg.as_dict())[:60]))
    # unsigned members with values this library version does not know (a transport / attachment of a later specification level), in all three input forms
    for fmt in ("none", "packed"):
        for tr in (["usb", "quantum-tunnel"], ["smart-card"], ["hybrid", "cable", ""], []):
            s = regsim.RScn(fmt, "ES256-P256")
            pd, reg = regsim.build(s)
            reg.transports = tr
            for form in ("dict", "text", "record"):
                try:
                    val = reg.as_dict() if form == "dict" else reg.as_text() if form == "text" else reg.as_record()
                except Exception:
                    continue
                out.append((f"reg unknown-transports {tr}/{fmt} {form}", impl.verify_reg(regrun.policy_of(pd), val)[:60]))
    # a list of expected origins whose entries AFTER the matching one are not even strings (bytes, None, numbers): the match decides, nothing behind it is looked at
    for fmt in ("none", "packed-self"):
        s = regsim.RScn(fmt, "ES256-P256")
        pd, reg = regsim.build(s)
        for tail in ([b"https://staging.example"], [None, 5], [b"", "https://other.example", 1.5]):
            P_ = regrun.policy_of(dict(pd, origin=[pd["origin"] if isinstance(pd["origin"], str) else pd["origin"][0]] + tail))
            out.append((f"reg origin list with {tail!r} after the match/{fmt}", impl.verify_reg(P_, reg.as_dict())[:60]))
    for fmt in ("none", "packed-self", "packed", "tpm"):
        for name, f in regcat.CEREMONY.items():
            s = regsim.RScn(fmt, "ES256-P256")
            f(s, rng)
            pd, reg = regsim.build(s)
            val = reg.as_record() if name in regcat.RECORD_ONLY else reg.as_dict()
            out.append((f"reg {name}/{fmt}", impl.verify_reg(regrun.policy_of(pd), val)[:60]))
        for name, f in regcat.FORMAT_FAULTS.get(fmt, {}).items():
            s = regsim.RScn(fmt, "ES256-P256", "ES256-P256")
            try:
                f(s, rng)
                pd, reg = regsim.build(s)
            except Exception:
                continue
            out.append((f"reg {name}/{fmt}", impl.verify_reg(regrun.policy_of(pd), reg.as_dict())[:60]))
    # statements made with legacy algorithms (RS1 / SHA-1 name algorithm) and faults in them: where the host cannot compute a digest, the binding it protects is NOT thereby satisfied
    for fmt, ak in (("tpm", "RS1"), ("packed", "RS1"), ("tpm", "RS256")):
        for name in (None, "nonce-other-authdata", "signed-other-authdata", "extradata-truncated", "extradata-empty", "signed-by-other-key"):
            s = regsim.RScn(fmt, "ES256-P256", ak)
            if fmt == "tpm" and ak == "RS1":
                s.k["tpm_name_alg"] = "SHA256"
            if name is not None:
                f = regcat.FORMAT_FAULTS.get(fmt, {}).get(name)
                if f is None:
                    continue
                try:
                    f(s, rng)
                except Exception:
                    continue
            try:
                pd, reg = regsim.build(s)
            except Exception:
                continue
            out.append((f"reg legacy-algorithm statement {fmt}/{ak} {name or 'genuine'}", impl.verify_reg(regrun.policy_of(dict(pd, algs=[-7, -257, -65535])), reg.as_dict())[:60]))
    for fmt in regsim.X5C_FORMATS:
        for mode in ("none", "unrelated", "other-fmt"):
            if fmt in ("packed", "tpm", "fido-u2f") and mode in ("none", "other-fmt"):
                continue
            s = regsim.RScn(fmt, "ES256-P256")
            s.n_inter = 0 if fmt == "fido-u2f" else 1
            s.roots_mode = mode
            pd, reg = regsim.build(s)
            out.append((f"reg untrusted-chain roots={mode}/{fmt}", impl.verify_reg(regrun.policy_of(pd), reg.as_dict())[:60]))
    # the same at the REAL clock with certificates valid today: nothing but the anchors in force may make such a chain acceptable
    import time
    now = int(time.time())
    D = regsim.DAY
    for fmt in regsim.X5C_FORMATS:
        for mode in ("none", "unrelated"):
            if fmt in ("packed", "tpm", "fido-u2f") and mode == "none":
                continue
            s = regsim.RScn(fmt, "ES256-P256")
            s.pki_tag = "RT"
            s.n_inter = 0 if fmt == "fido-u2f" else 1
            s.roots_mode = mode
            s.now = now
            s.k["pki_kw"] = dict(root_nb=now - 1000 * D, root_na=now + 1000 * D, inter_nb=now - 100 * D, inter_na=now + 100 * D)
            s.k["leaf_nb"], s.k["leaf_na"] = now - D, now + D
            pd, reg = regsim.build(s)
            out.append((f"reg real-clock untrusted-chain roots={mode}/{fmt}", impl.verify_reg(regrun.policy_of(pd), reg.as_dict())[:60]))
    # ... and chains that ARE anchored, verified with nothing substituted at all (real clock, the library's own store)
    import webauthn
    from harness import fw as _fw
    for fmt in ("packed", "tpm", "fido-u2f"):
        for what, lnb, lna in (("valid today", now - D, now + D), ("expired last year", now - 400 * D, now - 300 * D), ("becomes valid in 30 minutes", now + 1800, now + D), ("expired 30 minutes ago", now - D, now - 1800),
                               ("valid since 30 minutes ago", now - 1800, now + D), ("expires in 30 minutes", now - D, now + 1800)):
            s = regsim.RScn(fmt, "ES256-P256")
            s.pki_tag = "RT"
            s.n_inter = 0 if fmt == "fido-u2f" else 1
            s.now = now
            s.k["pki_kw"] = dict(root_nb=now - 1000 * D, root_na=now + 1000 * D, inter_nb=now - 500 * D, inter_na=now + 100 * D)
            s.k["leaf_nb"], s.k["leaf_na"] = lnb, lna
            pd, reg = regsim.build(s)
            P = impl.RegPolicy(**pd)
            out.append((f"reg real-clock nothing-substituted anchored chain, leaf {what}/{fmt}", impl.outcome(lambda: webauthn.verify_registration_response(credential=reg.as_dict(), **P.kwargs()), impl.pr_verified_reg)[:60]))
    # chain faults that do not depend on the clock, on chains dated around the REAL present and verified with nothing substituted: a verification path that does not go
    # through the certificate-store seam (a fallback for hosts without pyOpenSSL, another library) is still judged
    for name in ("non-ca-intermediate", "impostor-root-same-name", "corrupted-signature", "missing-intermediate", "path-length-exceeded", "proxy-certificate-issued-by-an-end-entity-certificate", "attacker-ca-first-genuine-chain-as-intermediates"):
        for fmt in ("packed", "tpm"):
            try:
                s = regsim.RScn(fmt, "ES256-P256")
                s.pki_tag = "RT"
                s.n_inter = 1
                s.now = now
                s.k["pki_kw"] = dict(root_nb=now - 1000 * D, root_na=now + 1000 * D, inter_nb=now - 500 * D, inter_na=now + 100 * D)
                s.k["leaf_nb"], s.k["leaf_na"] = now - D, now + D
                regcat.CHAIN_FAULTS[name](s, random.Random(7))
                s.k["pki_kw"] = dict(dict(root_nb=now - 1000 * D, root_na=now + 1000 * D, inter_nb=now - 500 * D, inter_na=now + 100 * D), **{k_: v_ for k_, v_ in s.k.get("pki_kw", {}).items() if not k_.endswith(("_nb", "_na"))})
                pd, reg = regsim.build(s)
                P = impl.RegPolicy(**pd)
                out.append((f"reg real-clock nothing-substituted chain fault {name}/{fmt}", impl.outcome(lambda: webauthn.verify_registration_response(credential=reg.as_dict(), **P.kwargs()), impl.pr_verified_reg)[:60]))
            except Exception as e:
                out.append((f"reg real-clock nothing-substituted chain fault {name}/{fmt}", "HARNESS " + type(e).__name__))
    for fmt in ("packed", "android-safetynet", "apple"):
        for name, f in regcat.CHAIN_FAULTS.items():
            s = regsim.RScn(fmt, "ES256-P256")
            s.n_inter = 1
            f(s, rng)
            pd, reg = regsim.build(s)
            out.append((f"reg chain {name}/{fmt}", impl.verify_reg(regrun.policy_of(pd), reg.as_dict())[:60]))
    return out


def codec_lines(rng):
    from harness import impl, fw
    from webauthn.helpers.bytes_to_base64url import bytes_to_base64url
    from webauthn.helpers.base64url_to_bytes import base64url_to_bytes
    out = []
    for n in (0, 1, 2, 3, 16, 31, 32, 33, 100):
        b = rng.randbytes(n)
        e = bytes_to_base64url(b)
        for k in range(4):
            try:
                d = "OK " + base64url_to_bytes(e + "=" * k).hex()
            except Exception as x:
                d = "ERR " + fw.classify_exc(x)
            out.append((f"codec len={n} pad={k}", e + " " + d))
    cred = {"id": "AQ", "rawId": "AQ==", "type": "public-key", "response": {"clientDataJSON": "e30=", "authenticatorData": "AAAA", "signature": "c2ln", "userHandle": "dWg="}}
    out.append(("parse auth cred padded members", impl.parse_auth_cred(cred)))
    cred = {"id": "AQ", "rawId": "AQ==", "type": "public-key", "response": {"clientDataJSON": "e30=", "attestationObject": "o2NmbXQ="}}
    out.append(("parse reg cred padded members", impl.parse_reg_cred(cred)))
    from harness import cborgen
    import cbor2
    for i in range(40):
        b, exp = cborgen.layout(rng)
        out.append((f"authdata layout {i}", impl.parse_authenticator_data(b)[:80]))
        out.append((f"authdata truncated {i}", impl.parse_authenticator_data(b[: max(0, len(b) - 3)])[:80]))
    # extension data / key items of every CBOR kind (not only maps), complete and with nothing left over; and the hostile corpus in both slots
    hdr = bytes(32)
    key_ = cbor2.dumps({1: 2, 3: -7, -1: 1, -2: bytes(32), -3: bytes(32)})
    for j, item in enumerate([b"\x80", b"\x82\x01\x02", b"\x40", b"\x43abc", b"\x00", b"\x20", b"\x60", b"\x63abc", b"\xf6", b"\xf5", b"\xf4", b"\xf7", b"\xc1\x00", b"\xd8\x18\x41\x00", b"\xfb" + bytes(8), b"\xa0", b"\xa1\x01\x02", b"\x18\x18"]):
        out.append((f"authdata ED with item {item.hex()}", impl.parse_authenticator_data(hdr + b"\x81" + b"\x00\x00\x00\x01" + item)[:80]))
        out.append((f"authdata AT+ED with item {item.hex()}", impl.parse_authenticator_data(hdr + b"\xc1" + b"\x00\x00\x00\x01" + bytes(16) + b"\x00\x02id" + key_ + item)[:80]))
        out.append((f"authdata AT with key item {item.hex()}", impl.parse_authenticator_data(hdr + b"\x41" + b"\x00\x00\x00\x01" + bytes(16) + b"\x00\x02id" + item)[:80]))
    for j, item in enumerate(cborgen.hostile_cbor()):
        if len(item) < 200:
            out.append((f"authdata ED hostile {j}", impl.parse_authenticator_data(hdr + b"\x81" + b"\x00\x00\x00\x01" + item)[:80]))
    import struct
    for tag in (0x8017, 0x8018, 0x801A, 0x8014):
        b = b"\xffTCG" + struct.pack(">H", tag) + struct.pack(">H", 2) + b"qs" + struct.pack(">H", 4) + b"edat" + bytes(17) + bytes(8) + struct.pack(">H", 34) + b"\x00\x0b" + bytes(32) + struct.pack(">H", 2) + b"qn"
        out.append((f"certinfo tag={tag:#06x}", impl.parse_cert_info(b)[:80]))
    return out


def options_lines(rng):
    import webauthn
    from harness import optsim, impl
    out = []
    for i in range(30):
        a = optsim.gen_reg_args(rng)
        a["challenge"], a["user_id"] = b"c" * 16, b"u" * 8
        out.append((f"genreg {i}", impl.outcome(lambda: webauthn.generate_registration_options(**optsim.reg_kwargs(a)), optsim.pr_creation)[:200]))
        b = optsim.gen_auth_args(rng)
        b["challenge"] = b"d" * 16
        out.append((f"genauth {i}", impl.outcome(lambda: webauthn.generate_authentication_options(**optsim.auth_kwargs(b)), optsim.pr_request)[:200]))
    # defaulted values: their length and (over 60 calls) distinctness - the values themselves are random
    ch = [webauthn.generate_authentication_options(rp_id="a").challenge for _ in range(60)]
    out.append(("genauth defaulted challenge: lengths / distinct of 60", f"{sorted(set(map(len, ch)))} {len(set(ch))}"))
    rs = [webauthn.generate_registration_options(rp_id="a", rp_name="b", user_name="c") for _ in range(60)]
    out.append(("genreg defaulted challenge: lengths / distinct of 60", f"{sorted(set(len(o.challenge) for o in rs))} {len(set(o.challenge for o in rs))}"))
    out.append(("genreg defaulted user id: lengths / distinct of 60", f"{sorted(set(len(o.user.id) for o in rs))} {len(set(o.user.id for o in rs))}"))
    for bad in (dict(rp_id="", rp_name="b", user_name="c"), dict(rp_id="a", rp_name="", user_name="c"), dict(rp_id="a", rp_name="b", user_name="")):
        out.append((f"genreg refused {bad}", impl.outcome(lambda: webauthn.generate_registration_options(**bad), optsim.pr_creation)[:60]))
    return out


GROUPS = {"auth": auth_lines, "reg": reg_lines, "codec": codec_lines, "options": options_lines}


def masquerade(kinds):
    """Make the interpreter LOOK like another platform / implementation / capability set to code that asks (after the third-party packages are imported, before
    the library is): the library's outcomes are functions of its arguments and the clock - not of where it runs."""
    import types, platform, enum, hashlib
    import cryptography, OpenSSL, cbor2, asn1crypto, json, base64, datetime, secrets, logging, warnings, urllib.parse, unicodedata, fnmatch, functools, weakref, collections      # noqa: bound before the masks go on
    from cryptography.hazmat.primitives.asymmetric import ec, rsa, ed25519, padding
    from cryptography.hazmat.primitives import hashes, serialization
    from cryptography import x509
    for k in kinds:
        if k == "pypy":
            sys.pypy_version_info = (7, 3, 15, "final", 0)
            platform.python_implementation = lambda: "PyPy"
            impl_ = types.SimpleNamespace(**{a: getattr(sys.implementation, a) for a in dir(sys.implementation) if not a.startswith("__")})
            impl_.name = "pypy"
            sys.implementation = impl_
        elif k in ("win32", "darwin", "freebsd13", "emscripten"):
            sys.platform = k
            platform.system = lambda k=k: {"win32": "Windows", "darwin": "Darwin"}.get(k, k)
        elif k == "old-enum":
            # Python 3.8 - 3.11: `value in EnumClass` raises TypeError for a value that is no member instance (3.12 returns False / looks the value up)
            meta = type(enum.Enum)
            def contains(cls, member):
                if not isinstance(member, enum.Enum):
                    raise TypeError("unsupported operand type(s) for 'in': '%s' and '%s'" % (type(member).__qualname__, cls.__class__.__qualname__))
                return isinstance(member, cls) and member._name_ in cls._member_map_
            meta.__contains__ = contains
        elif k == "py39":
            sys.version_info = type("version_info", (tuple,), {"major": 3, "minor": 9, "micro": 18, "releaselevel": "final", "serial": 0})((3, 9, 18, "final", 0))
            sys.version = "3.9.18 (main) [GCC]"
            sys.hexversion = 0x030912F0
        elif k == "fips":
            # a host whose policy disables legacy digests and algorithms: asking for them fails.  (Outcomes MAY turn into errors here - what must not happen is an
            # acceptance the default environment refuses; the comparison for this environment is one-directional.)
            def blocked(*a, **kw):
                raise ValueError("[digital envelope routines] unsupported: disabled for FIPS")
            proxy = types.ModuleType("hashlib")
            proxy.__dict__.update({k_: v_ for k_, v_ in vars(hashlib).items() if not k_.startswith("__")})
            proxy.sha1 = proxy.md5 = blocked
            proxy.new = lambda name, *a, **kw: blocked() if str(name).lower().replace("-", "") in ("sha1", "md5") else hashlib.new(name, *a, **kw)
            # only the LIBRARY sees the restricted module (the simulator in this process still has to build RS1 statements)
            import pkgutil, importlib, webauthn
            for mi in pkgutil.walk_packages(webauthn.__path__, "webauthn."):
                try:
                    importlib.import_module(mi.name)
                except Exception:
                    pass
            for mn, mod in list(sys.modules.items()):
                if mn.startswith("webauthn") and mod is not None and getattr(mod, "hashlib", None) is hashlib:
                    mod.hashlib = proxy
        elif k == "backend-fips":
            from cryptography.hazmat.backends.openssl.backend import backend
            backend._fips_enabled = True
        elif k.startswith("clock:"):
            # the wall clock as Python code sees it (time.time, datetime.now / utcnow / today, date.today) moved to a remarkable instant; OpenSSL's own clock cannot be
            # moved this way, so the cases that run chains at the REAL clock are left out of the comparison for these environments (fw.env_invariance)
            import calendar, time as _time, datetime as _dt
            target = {"leapday": (2028, 2, 29, 12, 0, 0), "y2038": (2038, 1, 19, 3, 14, 10), "newyear": (2030, 12, 31, 23, 59, 58), "far": (2090, 6, 15, 0, 0, 0), "sunday": (2027, 8, 1, 2, 30, 0), "past": (2019, 7, 1, 0, 0, 0)}[k.split(":", 1)[1]]
            delta = calendar.timegm(target + (0, 0, 0)) - _time.time()
            real_time, real_ns, real_dt, real_date = _time.time, _time.time_ns, _dt.datetime, _dt.date
            _time.time = lambda: real_time() + delta
            _time.time_ns = lambda: real_ns() + int(delta * 1e9)
            class _DateTime(real_dt):
                @classmethod
                def now(cls, tz=None):
                    return real_dt.fromtimestamp(_time.time(), tz)
                @classmethod
                def utcnow(cls):
                    return real_dt.fromtimestamp(_time.time(), _dt.timezone.utc).replace(tzinfo=None)
                @classmethod
                def today(cls):
                    return real_dt.fromtimestamp(_time.time())
            class _Date(real_date):
                @classmethod
                def today(cls):
                    return real_dt.fromtimestamp(_time.time()).date()
            _dt.datetime, _dt.date = _DateTime, _Date
        elif k == "phantom-modules":
            # optional third-party packages the CHANGED source tries to import (harness/srcdict.new_imports) and this machine lacks: stand-ins are put into sys.modules, so that
            # "if the package is installed" branches run.  certifi.where() names a bundle holding the harness's forged roots; idna / others get thin stdlib-backed shims; anything
            # else is a module whose attributes are permissive callables.
            import importlib.util
            from harness import srcdict
            bundle = os.path.join(os.path.dirname(os.path.dirname(os.path.abspath(__file__))), "build", "ca_bundle", "forged_roots.pem")
            for name in srcdict.new_imports():
                try:
                    if importlib.util.find_spec(name) is not None:
                        continue
                except Exception:
                    pass
                m = types.ModuleType(name)
                m.__file__ = "<phantom %s>" % name
                m.__path__ = []
                if name == "certifi":
                    m.where = lambda: bundle
                    m.contents = lambda: open(bundle).read()
                elif name == "idna":
                    m.encode = lambda s, **kw: s.encode("idna") if isinstance(s, str) else s
                    m.decode = lambda s, **kw: (s if isinstance(s, str) else s.decode("ascii")).encode("ascii").decode("idna")
                    m.IDNAError = UnicodeError
                elif name in ("simplejson", "ujson", "orjson", "rapidjson"):
                    m.loads, m.dumps, m.JSONDecodeError = json.loads, json.dumps, json.JSONDecodeError
                else:
                    class _Any:
                        def __call__(self, *a, **kw): return a[0] if a else None
                        def __getattr__(self, n): return _Any()
                    m.__getattr__ = lambda n: _Any()
                sys.modules[name] = m
        elif k.startswith("broken-import:"):
            # `import <mod>` (and `from <mod>... import`) raises ImportError when the importing module belongs to the library; the harness keeps its own access
            import builtins
            blocked = k.split(":", 1)[1]
            real_import = builtins.__import__
            def guarded_import(name, globals=None, locals=None, fromlist=(), level=0, _b=blocked, _r=real_import):
                if level == 0 and (name == _b or name.startswith(_b + ".")) and globals is not None and str(globals.get("__name__", "")).split(".")[0] == "webauthn":
                    raise ImportError(f"No module named {name!r} (masked by the verification harness)")
                return _r(name, globals, locals, fromlist, level)
            builtins.__import__ = guarded_import
            for mn in [m for m in sys.modules if m == "webauthn" or m.startswith("webauthn.")]:
                del sys.modules[mn]
        elif k.startswith("files:"):
            # absolute paths the changed source newly names (harness/srcdict.paths): every one exists and reads as the given content
            import builtins, io
            from harness import srcdict
            content = k.split(":", 1)[1]
            served = set(srcdict.paths())
            real_open, real_exists, real_isfile = builtins.open, os.path.exists, os.path.isfile
            def fake_open(file, mode="r", *a, **kw):
                if isinstance(file, (str, bytes, os.PathLike)) and os.fspath(file) in served:
                    return io.BytesIO(content.encode() + b"\n") if "b" in mode else io.StringIO(content + "\n")
                return real_open(file, mode, *a, **kw)
            builtins.open = fake_open
            io.open = fake_open
            os.path.exists = lambda p_: (os.fspath(p_) in served) or real_exists(p_)
            os.path.isfile = lambda p_: (os.fspath(p_) in served) or real_isfile(p_)
            try:
                import pathlib
                real_rt, real_rb, real_pe = pathlib.Path.read_text, pathlib.Path.read_bytes, pathlib.Path.exists
                pathlib.Path.read_text = lambda self, *a, **kw: (content + "\n") if str(self) in served else real_rt(self, *a, **kw)
                pathlib.Path.read_bytes = lambda self: (content.encode() + b"\n") if str(self) in served else real_rb(self)
                pathlib.Path.exists = lambda self, *a, **kw: True if str(self) in served else real_pe(self, *a, **kw)
            except Exception:
                pass
        elif k == "small-recursion":
            sys.setrecursionlimit(220)
        elif k == "maxsize32":
            sys.maxsize = 2 ** 31 - 1


def main():
    group = sys.argv[1]
    if os.environ.get("VERIF_MASQUERADE"):
        kinds = os.environ["VERIF_MASQUERADE"].split(",")
        # The mask normally goes on BEFORE the library is imported (import-time decisions see it too).  A library that legitimately selects an import by platform / version
        # (`if sys.version_info < (3, 11): from backport import ...`, `if sys.platform == "win32": import msvcrt`) cannot be imported under a false identity on this
        # machine: that is no finding.  A forked child tries the import under the mask first; if it fails there, the library is imported first and masked afterwards.
        early = True
        pid = os.fork()
        if pid == 0:
            code = 0
            try:
                devnull = os.open(os.devnull, os.O_WRONLY)
                os.dup2(devnull, 1); os.dup2(devnull, 2)
                masquerade(kinds)
                import pkgutil, importlib, webauthn
                for mi in pkgutil.walk_packages(webauthn.__path__, "webauthn."):
                    importlib.import_module(mi.name)
            except BaseException:
                code = 3
            os._exit(code)
        _, status = os.waitpid(pid, 0)
        if not (os.WIFEXITED(status) and os.WEXITSTATUS(status) == 0):
            early = False
            import pkgutil, importlib, webauthn
            for mi in pkgutil.walk_packages(webauthn.__path__, "webauthn."):
                importlib.import_module(mi.name)
        masquerade(kinds)
    if os.environ.get("VERIF_LOGGING"):
        import logging
        logging.basicConfig(level=logging.DEBUG if os.environ["VERIF_LOGGING"] == "root" else logging.WARNING, stream=open(os.devnull, "w"))
        if os.environ["VERIF_LOGGING"] != "root":
            logging.getLogger("webauthn").setLevel(logging.DEBUG)
    if os.environ.get("VERIF_WARNINGS_AS_ERRORS"):
        import warnings
        import cryptography, OpenSSL, cbor2, asn1crypto          # third-party import-time warnings are not the subject
        import webauthn
        warnings.simplefilter("error")
    rng = random.Random(20261001)
    for label, outcome in GROUPS[group](rng):
        sys.stdout.write(label.replace("\t", " ") + "\t" + outcome.replace("\n", " ") + "\n")


if __name__ == "__main__":
    main()
