"""Registration ceremony simulator: forged PKIs and attestation objects for all seven formats
(plus packed self-attestation), with per-step fault knobs.  NOT trusted for the theorems."""
import os, json, hashlib, struct, base64, datetime, copy
import cbor2
from cryptography import x509
from cryptography.x509.oid import NameOID, ExtensionOID, ObjectIdentifier
from cryptography.hazmat.primitives.asymmetric import ec, rsa, ed25519, padding
from cryptography.hazmat.primitives import hashes, serialization
from harness import authsim
from harness.authsim import b64u, Cred, raw_sign

T0 = 1_800_000_000          # simulated "now" (seconds)
DAY = 86400


def dt(ts):
    return datetime.datetime.fromtimestamp(ts, datetime.timezone.utc)


def name(cn=None, extra=()):
    attrs = []
    if cn is not None:
        attrs.append(x509.NameAttribute(NameOID.COMMON_NAME, cn))
    attrs += list(extra)
    return x509.Name(attrs)


_SERIAL = [1000]


def make_cert(subject, issuer, pubkey, signer_key, nb=T0 - DAY, na=T0 + 365 * DAY, ca=None, exts=(), sig_hash=None, serial=None, pathlen=None):
    _SERIAL[0] += 1
    b = x509.CertificateBuilder().subject_name(subject).issuer_name(issuer).public_key(pubkey) \
        .serial_number(serial or _SERIAL[0]).not_valid_before(dt(nb)).not_valid_after(dt(na))
    if ca is not None:
        b = b.add_extension(x509.BasicConstraints(ca=ca, path_length=pathlen if ca else None), critical=True)
    for e, crit in exts:
        b = b.add_extension(e, critical=crit)
    alg = None if isinstance(signer_key, ed25519.Ed25519PrivateKey) else (sig_hash or hashes.SHA256())
    return b.sign(signer_key, alg)


def der(c):
    return c.public_bytes(serialization.Encoding.DER)


def pem(c):
    return c.public_bytes(serialization.Encoding.PEM)


_keys = {}


def ec_key(tag, curve=ec.SECP256R1):
    k = (tag, curve.name)
    if k not in _keys:
        _keys[k] = authsim._load_or_make(f"pki_{tag}_{curve.name}", lambda: ec.generate_private_key(curve()))
    return _keys[k]


def rsa_key(tag):
    k = (tag, "rsa")
    if k not in _keys:
        _keys[k] = authsim._load_or_make(f"pki_{tag}_rsa", lambda: rsa.generate_private_key(65537, 2048))
    return _keys[k]


_PKI_CACHE = {}


class PKI:
    """root -> n intermediates -> leaf; every knob the chain-fault catalogue needs."""

    def __init__(self, tag="A", n_inter=0, root_cn="Forged Root", root_nb=T0 - 10 * DAY, root_na=T0 + 3650 * DAY,
                 inter_nb=T0 - 5 * DAY, inter_na=T0 + 1000 * DAY, inter_ca=True, root_bc=True, root_ski=False, inter_pathlen0=False, root_v1=False):
        self.tag = tag
        self.root_key = ec_key(f"{tag}_root")
        self.root_name = name(root_cn)
        # certificates are cached per parameter set so that equal PKIs are byte-identical within a run
        rk = ("root", tag, root_cn, root_nb, root_na, root_bc, root_ski)
        if rk not in _PKI_CACHE:
            if root_ski:
                _PKI_CACHE[rk] = make_cert(self.root_name, self.root_name, self.root_key.public_key(), self.root_key, nb=root_nb, na=root_na, ca=True, serial=4242,
                                           exts=[(x509.SubjectKeyIdentifier.from_public_key(self.root_key.public_key()), False)])
            elif root_bc:
                _PKI_CACHE[rk] = make_cert(self.root_name, self.root_name, self.root_key.public_key(), self.root_key, nb=root_nb, na=root_na, ca=True, serial=4242)
            else:
                # a legacy-style root: no basicConstraints at all, only keyUsage keyCertSign (OpenSSL accepts it as a trust anchor)
                ku = x509.KeyUsage(digital_signature=False, content_commitment=False, key_encipherment=False, data_encipherment=False,
                                   key_agreement=False, key_cert_sign=True, crl_sign=True, encipher_only=False, decipher_only=False)
                _PKI_CACHE[rk] = make_cert(self.root_name, self.root_name, self.root_key.public_key(), self.root_key, nb=root_nb, na=root_na, ca=None,
                                           exts=[(ku, True)], serial=4242)
        self.root = _PKI_CACHE[rk]
        if root_v1:
            # the same root as an X.509 VERSION 1 certificate (no extensions at all; self-issued v1 certificates are CA certificates to OpenSSL): roots of the 1990s / 2000s
            vk = ("root-v1",) + rk
            if vk not in _PKI_CACHE:
                _PKI_CACHE[vk] = as_x509_v1(self.root, self.root_key)
            self.root = _PKI_CACHE[vk]
        self.inters = []
        self.inter_keys = []
        issuer_name, issuer_key = self.root_name, self.root_key
        for i in range(n_inter):
            k = ec_key(f"{tag}_inter{i}")
            nm = name(f"Forged Intermediate {i}")
            ik = ("inter", tag, root_cn, i, inter_nb, inter_na, inter_ca, inter_pathlen0)
            if ik not in _PKI_CACHE:
                _PKI_CACHE[ik] = make_cert(nm, issuer_name, k.public_key(), issuer_key, nb=inter_nb, na=inter_na, ca=(True if inter_ca else False), serial=5000 + i,
                                           pathlen=(0 if inter_pathlen0 and i == 0 and inter_ca else None))
            c = _PKI_CACHE[ik]
            self.inters.append(c)
            self.inter_keys.append(k)
            issuer_name, issuer_key = nm, k
        self.issuer_name, self.issuer_key = issuer_name, issuer_key

    extra_leaf_exts = ()          # (oid text, DER value) pairs put into every leaf as unrecognised, non-critical extensions

    leaf_aki_issuer_serial = False

    leaf_issuer_respelled = False          # the leaf names its issuer in another SPELLING of the same distinguished name (other case, doubled blanks, PrintableString)

    def leaf(self, subject, pubkey, nb=T0 - DAY, na=T0 + 365 * DAY, exts=(), ca=False, signer_key=None):
        if self.leaf_issuer_respelled:
            saved = self.issuer_name
            self.issuer_name = respelled_name(saved)
            try:
                self.leaf_issuer_respelled = False
                return self.leaf(subject, pubkey, nb=nb, na=na, exts=exts, ca=ca, signer_key=signer_key)
            finally:
                self.issuer_name, self.leaf_issuer_respelled = saved, True
        exts = list(exts) + [(x509.UnrecognizedExtension(ObjectIdentifier(o), v), False) for o, v in self.extra_leaf_exts]
        if self.leaf_aki_issuer_serial:
            issuer_cert = self.inters[-1] if self.inters else self.root
            exts.append((x509.AuthorityKeyIdentifier(key_identifier=None, authority_cert_issuer=[x509.DirectoryName(issuer_cert.issuer)], authority_cert_serial_number=issuer_cert.serial_number), False))
        return make_cert(subject, self.issuer_name, pubkey, signer_key or self.issuer_key, nb=nb, na=na, ca=ca, exts=exts)

    def chain_der(self, leaf, order="normal", with_root=False, extra=()):
        inter = list(reversed(self.inters))          # leaf-adjacent first
        if order == "reversed":
            inter = list(reversed(inter))
        out = [der(leaf)] + [der(c) for c in inter] + [der(c) for c in extra]
        if with_root:
            out.append(der(self.root))
        return out

    def root_pem(self):
        return pem(self.root)


def resigned_with_hash(cert, signer_key, hash_name="sha1"):
    """the same certificate signed again by `signer_key` over another digest (sha1 / md5 / sha384 / sha512): issuers choose their signature algorithm, and the verifier's
    default parameters accept all of them (cryptography's CertificateBuilder refuses to SIGN with SHA-1, so the certificate is re-encoded with asn1crypto)"""
    from asn1crypto import x509 as _ax, algos as _algos
    from cryptography.hazmat.primitives.asymmetric import padding as _pad
    H = {"sha1": hashes.SHA1, "md5": hashes.MD5, "sha384": hashes.SHA384, "sha512": hashes.SHA512, "sha224": hashes.SHA224}[hash_name]()
    c = _ax.Certificate.load(der(cert))
    tbs = c["tbs_certificate"]
    if isinstance(signer_key, ec.EllipticCurvePrivateKey):
        if hash_name == "md5":
            return cert
        alg = _algos.SignedDigestAlgorithm({"algorithm": hash_name + "_ecdsa"})
    elif isinstance(signer_key, rsa.RSAPrivateKey):
        alg = _algos.SignedDigestAlgorithm({"algorithm": hash_name + "_rsa", "parameters": None})
    else:
        return cert
    tbs["signature"] = alg
    c["signature_algorithm"] = alg
    tbs_der = tbs.dump(force=True)
    try:
        sig = signer_key.sign(tbs_der, ec.ECDSA(H)) if isinstance(signer_key, ec.EllipticCurvePrivateKey) else signer_key.sign(tbs_der, _pad.PKCS1v15(), H)
    except Exception:
        return cert
    c["signature_value"] = sig
    return x509.load_der_x509_certificate(c.dump(force=True))


def as_x509_v1(cert, signer_key):
    """`cert` re-issued as an X.509 v1 certificate: version field absent, no extensions, same names / validity / key, signed by `signer_key`"""
    from asn1crypto import x509 as _ax
    c = _ax.Certificate.load(der(cert))
    tbs = c["tbs_certificate"]
    fresh = _ax.TbsCertificate({"serial_number": tbs["serial_number"].native, "signature": tbs["signature"], "issuer": tbs["issuer"], "validity": tbs["validity"], "subject": tbs["subject"],
                                "subject_public_key_info": tbs["subject_public_key_info"]})
    tbs_der = fresh.dump()
    sig = signer_key.sign(tbs_der, ec.ECDSA(cert.signature_hash_algorithm)) if isinstance(signer_key, ec.EllipticCurvePrivateKey) else signer_key.sign(tbs_der, padding.PKCS1v15(), cert.signature_hash_algorithm)
    out = _ax.Certificate({"tbs_certificate": fresh, "signature_algorithm": c["signature_algorithm"], "signature_value": sig})
    return x509.load_der_x509_certificate(out.dump())


def respelled_name(nm):
    """the same distinguished name as X.509 name matching sees it (RFC 5280 7.1 / OpenSSL's canonical form: case folded, runs of blanks collapsed, string type ignored),
    in another byte encoding: upper case, doubled inner blanks, PrintableString where the characters allow"""
    from cryptography.x509.name import _ASN1Type
    out = []
    for a in nm:
        v = a.value
        if isinstance(v, str) and a.oid != NameOID.COUNTRY_NAME:
            v2 = v.upper().replace(" ", "  ")
            printable = all(c.isalnum() or c in " '()+,-./:=?" for c in v2) and v2.isascii()
            out.append(x509.NameAttribute(a.oid, v2, _ASN1Type.PrintableString if printable else _ASN1Type.UTF8String))
        else:
            out.append(a)
    return x509.Name(out)


def compressed_spki(cert, signer_key):
    """the same certificate with its EC subject key written as a COMPRESSED point (02/03 || x; RFC 5480 2.2 allows it and OpenSSL reads it), signed again by `signer_key`
    with the certificate's own signature algorithm: the same key in another valid SubjectPublicKeyInfo encoding.  Certificates over other key types come back unchanged."""
    from asn1crypto import x509 as _ax, keys as _keys
    from cryptography.hazmat.primitives.asymmetric import padding as _pad
    if not isinstance(cert.public_key(), ec.EllipticCurvePublicKey):
        return cert
    c = _ax.Certificate.load(der(cert))
    tbs = c["tbs_certificate"]
    pt = bytes(tbs["subject_public_key_info"]["public_key"])
    if pt[:1] != b"\x04":
        return cert
    half = (len(pt) - 1) // 2
    tbs["subject_public_key_info"]["public_key"] = _keys.ECPointBitString(bytes([2 + (pt[-1] & 1)]) + pt[1:1 + half])
    tbs_der = tbs.dump(force=True)
    h = cert.signature_hash_algorithm
    if isinstance(signer_key, ec.EllipticCurvePrivateKey):
        sig = signer_key.sign(tbs_der, ec.ECDSA(h))
    elif isinstance(signer_key, rsa.RSAPrivateKey):
        sig = signer_key.sign(tbs_der, _pad.PKCS1v15(), h)
    else:
        return cert
    c["signature_value"] = sig
    return x509.load_der_x509_certificate(c.dump(force=True))


# ---------------- DER helpers for the android KeyDescription ----------------
def d_len(n):
    if n < 128:
        return bytes([n])
    b = n.to_bytes((n.bit_length() + 7) // 8, "big")
    return bytes([0x80 | len(b)]) + b


def d_tlv(tag, content):
    return bytes([tag]) + d_len(len(content)) + content


def d_int(v, tag=0x02):
    n = max(1, (v.bit_length() + 8) // 8)
    return d_tlv(tag, v.to_bytes(n, "big", signed=True))


def d_ctx(num, content):
    """[num] EXPLICIT, constructed, context class; high tag numbers supported"""
    if num < 31:
        t = bytes([0xA0 | num])
    else:
        parts = []
        n = num
        while True:
            parts.insert(0, n & 0x7F)
            n >>= 7
            if not n:
                break
        t = bytes([0xBF]) + bytes([p | 0x80 for p in parts[:-1]] + [parts[-1]])
    return t + d_len(len(content)) + content


# further authorization tags of the Keymaster / KeyMint AuthorizationList a genuine key may carry (tag -> DER value); none of them is among the four statements the
# WebAuthn android-key procedure reads (challenge, allApplications, origin, purpose)
AK_TAGS = {2: d_int(3), 3: d_int(256), 5: d_tlv(0x31, d_int(4)), 10: d_int(1), 303: d_tlv(0x05, b""), 400: d_int(0), 503: d_tlv(0x05, b""), 504: d_int(2), 505: d_int(300), 506: d_tlv(0x05, b""),
           507: d_tlv(0x05, b""), 508: d_tlv(0x05, b""), 509: d_tlv(0x05, b""), 701: d_int(1600000000000), 703: d_tlv(0x05, b""), 705: d_int(110000), 706: d_int(202109), 709: d_tlv(0x04, b"app"),
           718: d_int(20210905), 719: d_int(20210905)}
AK_TAG_SETS = [(), (503,), (504, 505), (503, 506), (2, 3, 5, 10), (507, 508, 509), (701, 705, 706), (303, 400, 703), (503, 504, 505), (709, 718, 719), (2, 3, 5, 10, 503, 701, 705, 706)]


def key_description(challenge, sw_all=False, tee_all=False, origin=0, purpose=(2,), tee_extra=b"", sw_origin=None, sw_purpose=None, versions=(3, 4), levels=(1, 1), tee_tags=(), sw_tags=()):
    def alist(all_apps, origin, purpose, tags):
        members = {}
        if purpose is not None:
            members[1] = d_tlv(0x31, b"".join(d_int(p) for p in purpose))
        if all_apps:
            members[600] = d_tlv(0x05, b"")
        if origin is not None:
            members[702] = d_int(origin)
        for t in tags:
            members.setdefault(t, AK_TAGS[t])
        return d_tlv(0x30, b"".join(d_ctx(t, members[t]) for t in sorted(members)))
    body = d_int(versions[0]) + d_int(levels[0], 0x0A) + d_int(versions[1]) + d_int(levels[1], 0x0A) + d_tlv(0x04, challenge) + d_tlv(0x04, b"") \
        + alist(sw_all, sw_origin, sw_purpose, sw_tags) + alist(tee_all, origin, purpose, tee_tags)
    return d_tlv(0x30, body)


# ---------------- TPM structures ----------------
TPM_ALG = {"RSA": 0x0001, "SHA1": 0x0004, "SHA256": 0x000B, "SHA384": 0x000C, "SHA512": 0x000D, "NULL": 0x0010, "SM3_256": 0x0012,
           "RSASSA": 0x0014, "ECDSA": 0x0018, "ECC": 0x0023, "AES": 0x0006}
TPM_CURVE = {"secp256r1": 0x0003, "secp384r1": 0x0004, "secp521r1": 0x0005, "NIST_P192": 0x0001}
HNAME = {"SHA1": hashlib.sha1, "SHA256": hashlib.sha256, "SHA384": hashlib.sha384, "SHA512": hashlib.sha512}


def tpm_pub_area(cred, name_alg="SHA256", attrs=0x00050472, auth_policy=b"", exponent=0, unique_override=None, curve_override=None, type_override=None):
    out = struct.pack(">H", type_override if type_override is not None else (TPM_ALG["RSA"] if cred.fam == "rsa" else TPM_ALG["ECC"]))
    out += struct.pack(">H", TPM_ALG[name_alg]) + struct.pack(">I", attrs) + struct.pack(">H", len(auth_policy)) + auth_policy
    if cred.fam == "rsa":
        n = cred.pk.public_numbers().n
        nb = n.to_bytes(256, "big")
        out += struct.pack(">HHHI", TPM_ALG["NULL"], TPM_ALG["RSASSA"], 2048, exponent)
        u = nb if unique_override is None else unique_override
        out += struct.pack(">H", len(u)) + u
    else:
        nums = cred.pk.public_numbers()
        L = authsim.CRV_LEN[cred.pk.curve.name]
        x, y = nums.x.to_bytes(L, "big"), nums.y.to_bytes(L, "big")
        if unique_override is not None:
            x, y = unique_override
        out += struct.pack(">HHHH", TPM_ALG["NULL"], TPM_ALG["ECDSA"], curve_override if curve_override is not None else TPM_CURVE[cred.pk.curve.name], TPM_ALG["NULL"])
        out += struct.pack(">H", len(x)) + x + struct.pack(">H", len(y)) + y
    return out


def tpm_cert_info(extra_data, name, magic=0xFF544347, typ=0x8017, qualified_signer=b"\x00\x0bsigner", clock=None, firmware=b"\x11" * 8, qualified_name=b"\x00\x0bqn"):
    clock = clock if clock is not None else (b"\x00" * 8 + struct.pack(">II", 3, 4) + b"\x01")
    return struct.pack(">IH", magic, typ) + struct.pack(">H", len(qualified_signer)) + qualified_signer + struct.pack(">H", len(extra_data)) + extra_data \
        + clock + firmware + struct.pack(">H", len(name)) + name + struct.pack(">H", len(qualified_name)) + qualified_name


ATT_HASH = {-7: "SHA256", -257: "SHA256", -37: "SHA256", -258: "SHA384", -38: "SHA384", -259: "SHA512", -39: "SHA512", -36: "SHA512", -65535: "SHA1", -8: "SHA256"}


class Registration:
    def __init__(self, cred, cred_id, cdj, att_obj, id_text=None, typ="public-key", transports=None, attachment=None):
        self.cred, self.cred_id, self.cdj, self.att_obj = cred, cred_id, cdj, att_obj
        self.typ, self.transports, self.attachment = typ, transports, attachment
        self.id_text = b64u(cred_id) if id_text is None else id_text

    def as_dict(self):
        resp = {"clientDataJSON": b64u(self.cdj), "attestationObject": b64u(self.att_obj)}
        resp.update(getattr(self, "extra_response_members", None) or {})      # e.g. the Level-3 toJSON() copies authenticatorData / publicKey
        if self.transports is not None:
            resp["transports"] = self.transports
        d = {"id": self.id_text, "rawId": b64u(self.cred_id), "response": resp, "type": self.typ, "clientExtensionResults": copy.deepcopy(getattr(self, "client_ext", None) or {})}
        if self.attachment is not None:
            d["authenticatorAttachment"] = self.attachment
        return d

    def as_text(self):
        return json.dumps(self.as_dict())

    def as_record(self):
        from webauthn.helpers.structs import RegistrationCredential, AuthenticatorAttestationResponse, AuthenticatorAttachment
        kw = {}
        if self.attachment in ("platform", "cross-platform"):
            kw["authenticator_attachment"] = AuthenticatorAttachment(self.attachment)
        return RegistrationCredential(id=self.id_text, raw_id=self.cred_id,
                                      response=AuthenticatorAttestationResponse(client_data_json=self.cdj, attestation_object=self.att_obj),
                                      type=self.typ, **kw)


FORMATS = ["none", "packed-self", "packed", "fido-u2f", "tpm", "apple", "android-key", "android-safetynet"]
X5C_FORMATS = ["packed", "fido-u2f", "tpm", "apple", "android-key", "android-safetynet"]


class RScn:
    """One registration ceremony.  k: dict of fault knobs read by the builders."""

    def __init__(self, fmt="none", kind="ES256-P256", att_kind="ES256-P256"):
        self.fmt, self.kind, self.att_kind = fmt, kind, att_kind
        self.rp_id = "example.com"
        self.sign_rp_id = None
        self.challenge = b"\x07registration-challenge-0123456789"
        self.sign_challenge = None
        self.origin = "https://example.com"
        self.exp_origin = None
        self.cd_type = "webauthn.create"
        self.flags = 0x45
        self.count = 5
        self.cred_id = b"reg-credential-id"
        self.aaguid = bytes(range(16))
        self.id_text = None
        self.typ = "public-key"
        self.token_binding = None
        self.cd_extra = None
        self.ext = None
        self.require_up, self.require_uv = True, False
        self.algs = None                       # None -> library default list
        self.now = T0
        self.roots_mode = "rp"                 # 'rp' (RP supplies the forged root for this fmt) | 'none' | 'other-fmt' | 'several'
        self.n_inter = 0
        self.pki_tag = "A"
        self.k = {}
        self.faults = []
        self.cred_slot = 0
        self.post = None

    def fmt_name(self):
        return self.k.get("fmt_override", "packed" if self.fmt == "packed-self" else self.fmt)

    def describe(self):
        d = {k: (v.hex() if isinstance(v, bytes) else v) for k, v in self.__dict__.items() if k not in ("post",) and not callable(v)}
        d["k"] = {a: (b.hex() if isinstance(b, bytes) else repr(b)) for a, b in self.k.items()}
        return d


def build(s):
    """-> (policy_dict, Registration).  policy_dict has everything impl.RegPolicy needs."""
    k = s.k
    cred = Cred(s.kind, slot=s.cred_slot)
    cose_bytes = k.get("cose_bytes", cred.cose_bytes)
    if s.fmt == "fido-u2f" and "aaguid" not in k:
        aaguid = bytes(16)
    else:
        aaguid = k.get("aaguid", s.aaguid)
    cdj = authsim.client_data(s.cd_type, s.sign_challenge if s.sign_challenge is not None else s.challenge, s.origin,
                              extra=s.cd_extra, token_binding=s.token_binding)
    if k.get("cd_wrap"):          # client data that is a JSON string holding the JSON text (stringified twice), hashed and attested as such
        for _ in range(k["cd_wrap"][0]):
            cdj = json.dumps(cdj.decode("utf-8")).encode()
        cdj += k["cd_wrap"][1]
    cdj = k.get("cd_prefix", b"") + cdj + k.get("cd_suffix", b"")
    ad = authsim.authdata(s.sign_rp_id or s.rp_id, s.flags, s.count, aaguid=aaguid, cred_id=s.cred_id, cose_bytes=cose_bytes, ext=s.ext)
    cdh = hashlib.sha256(cdj).digest()
    pki = PKI(tag=s.pki_tag, n_inter=s.n_inter, **k.get("pki_kw", {}))
    pki.extra_leaf_exts = tuple(k.get("leaf_extra_exts", ()))
    pki.leaf_aki_issuer_serial = bool(k.get("leaf_aki_issuer_serial"))
    pki.leaf_issuer_respelled = bool(k.get("leaf_issuer_respelled"))
    pki.ceremony = {"cdh": cdh, "ad": ad}          # (for x5c_override hooks that need to build statements about THIS ceremony)
    builtin = {"apple": [], "android-key": [], "android-safetynet": []}
    stmt = {}
    fmt = s.fmt
    signed_ad = k.get("signed_ad", ad)       # statement produced over other authenticator data
    signed_cdh = k.get("signed_cdh", cdh)
    att_cred = k.get("att_cred_override") or Cred(s.att_kind, slot=7)      # attestation key (x5c formats)
    att_alg = k.get("att_alg", att_cred.alg)
    att_scheme = k.get("att_scheme", att_cred.scheme)
    leaf_nb, leaf_na = k.get("leaf_nb", T0 - DAY), k.get("leaf_na", T0 + 365 * DAY)
    chain_extra = k.get("chain_extra", ())

    def chain(leaf, with_root=False):
        if k.get("leaf_spki_compressed"):
            leaf = compressed_spki(leaf, k.get("leaf_signer") or pki.issuer_key)
        if "x5c_override" in k:
            return k["x5c_override"](pki, leaf)
        if k.get("chain_sig_hash"):
            # leaf and intermediates signed over another digest than SHA-256 (the anchors stay as they are)
            leaf = resigned_with_hash(leaf, k.get("leaf_signer") or pki.issuer_key, k["chain_sig_hash"])
            saved = list(pki.inters)
            try:
                pki.inters = [resigned_with_hash(c_, pki.root_key if i_ == 0 else pki.inter_keys[i_ - 1], k["chain_sig_hash"]) for i_, c_ in enumerate(saved)]
                return pki.chain_der(leaf, order=k.get("chain_order", "normal"), with_root=with_root, extra=chain_extra)
            finally:
                pki.inters = saved
        return pki.chain_der(leaf, order=k.get("chain_order", "normal"), with_root=with_root, extra=chain_extra)

    if fmt == "none":
        stmt = k.get("none_stmt", {})
    elif fmt == "packed-self":
        alg = k.get("stmt_alg", cred.alg)
        signer = k.get("signer", cred)
        sig = signer.sign(signed_ad + signed_cdh, k.get("sign_scheme"))
        stmt = {"alg": alg, "sig": sig}
    elif fmt == "packed":
        pexts = []
        if k.get("packed_aaguid_ext"):
            # id-fido-gen-ce-aaguid (1.3.6.1.4.1.45724.1.1.4): OCTET STRING holding the AAGUID, as attestation certificates of many models carry it
            pexts.append((x509.UnrecognizedExtension(ObjectIdentifier("1.3.6.1.4.1.45724.1.1.4"), b"\x04\x10" + aaguid), False))
        leaf = pki.leaf(name("Forged Packed Attestation", [x509.NameAttribute(NameOID.ORGANIZATIONAL_UNIT_NAME, "Authenticator Attestation")]),
                        att_cred.pk, nb=leaf_nb, na=leaf_na, signer_key=k.get("leaf_signer"), ca=(None if k.get("leaf_no_bc") else False), exts=pexts)
        sig = raw_sign(k.get("att_signer", att_cred).sk, att_scheme, signed_ad + signed_cdh)
        stmt = {"alg": att_alg, "sig": sig, "x5c": chain(leaf)}
    elif fmt == "fido-u2f":
        u2f_key = k.get("u2f_att_key") or ec_key("u2f_att", k.get("u2f_curve", ec.SECP256R1))
        leaf = pki.leaf(name("Forged U2F Attestation"), u2f_key.public_key(), nb=leaf_nb, na=leaf_na, signer_key=k.get("leaf_signer"))
        if cred.fam == "ec":
            n = cred.pk.public_numbers()
            L = authsim.CRV_LEN[cred.pk.curve.name]
            pk_u2f = b"\x04" + n.x.to_bytes(L, "big") + n.y.to_bytes(L, "big")
        else:
            pk_u2f = b"\x04" + bytes(64)
        rp_hash = hashlib.sha256((k.get("u2f_signed_rp", s.sign_rp_id or s.rp_id)).encode()).digest()
        vdata = k.get("u2f_prefix", b"\x00") + rp_hash + signed_cdh + k.get("u2f_signed_cred_id", s.cred_id) + k.get("u2f_signed_pk", pk_u2f)
        if isinstance(u2f_key, ec.EllipticCurvePrivateKey):
            sig = u2f_key.sign(vdata, ec.ECDSA(k.get("u2f_hash", hashes.SHA256)()))
        elif isinstance(u2f_key, rsa.RSAPrivateKey):
            sig = u2f_key.sign(vdata, padding.PKCS1v15(), hashes.SHA256())
        else:
            sig = u2f_key.sign(vdata)
        x5c = chain(leaf)
        if k.get("u2f_two_certs"):
            x5c = x5c + [x5c[0]]
        stmt = {"sig": sig, "x5c": x5c}
    elif fmt == "tpm":
        name_alg = k.get("tpm_name_alg", "SHA256")
        if "tpm_name_alg_raw" in k:
            # a known TPM algorithm id for which no digest is mapped (e.g. SM3-256): Name built with SHA-256 as a stand-in
            HNAME.setdefault(k["tpm_name_alg_raw"], hashlib.sha256)
            name_alg = k["tpm_name_alg_raw"]
        pub_area = tpm_pub_area(k.get("tpm_pub_cred", cred), name_alg=name_alg, exponent=k.get("tpm_exponent", 0), attrs=k.get("tpm_attrs", 0x00050472), auth_policy=k.get("tpm_auth_policy", b""),
                                unique_override=k.get("tpm_unique"), curve_override=k.get("tpm_curve"), type_override=k.get("tpm_type"))
        hname = ATT_HASH[att_alg] if att_alg in ATT_HASH else "SHA256"
        extra = HNAME[k.get("tpm_extra_hash", hname)](signed_ad + signed_cdh).digest()
        if "tpm_extra_cut" in k:
            extra = extra[:k["tpm_extra_cut"]]          # a truncated (possibly empty) qualifyingData, genuinely signed by the AIK
        if "tpm_extra_tail" in k:
            extra = extra[-k["tpm_extra_tail"]:]
        name_prefix = k.get("tpm_name_prefix", struct.pack(">H", TPM_ALG[name_alg]))
        nm = name_prefix + HNAME[k.get("tpm_name_hash", name_alg)](k.get("tpm_named_pub_area", pub_area)).digest()
        if "tpm_name_cut" in k:
            nm = nm[:k["tpm_name_cut"]]
        cert_info = tpm_cert_info(extra, nm, magic=k.get("tpm_magic", 0xFF544347), typ=k.get("tpm_cert_type", 0x8017))
        san_attrs = k.get("tpm_san", [("2.23.133.2.1", k.get("tpm_manufacturer", "id:414D4400")), ("2.23.133.2.2", "model-x"), ("2.23.133.2.3", "id:00010002")])
        exts = []
        if san_attrs is not None:
            exts.append((x509.SubjectAlternativeName([x509.DirectoryName(x509.Name([x509.NameAttribute(ObjectIdentifier(o), v) for o, v in san_attrs]))]), True))
        eku = k.get("tpm_eku", ["2.23.133.8.3"])
        if eku is not None:
            exts.append((x509.ExtendedKeyUsage([ObjectIdentifier(o) for o in eku]), False))
        bc = k.get("tpm_bc", False)
        leaf = make_cert(k.get("tpm_subject", x509.Name([])), pki.issuer_name, att_cred.pk, k.get("leaf_signer") or pki.issuer_key,
                         nb=leaf_nb, na=leaf_na, ca=bc, exts=exts)
        sig = raw_sign(k.get("att_signer", att_cred).sk, k.get("tpm_sig_scheme", att_scheme), k.get("tpm_signed_cert_info", cert_info))
        if "sig_wrap" in k:
            sig = k["sig_wrap"](sig)          # e.g. the TPMT_SIGNATURE structure around a signature made with ANOTHER scheme than attStmt.alg names
        stmt = {"ver": k.get("tpm_ver", "2.0"), "alg": att_alg, "x5c": chain(leaf), "sig": sig, "certInfo": cert_info, "pubArea": pub_area}
    elif fmt == "apple":
        nonce = hashlib.sha256(signed_ad + signed_cdh).digest()
        ext_val = k.get("apple_ext_prefix", b"\x30\x24\xa1\x22\x04\x20") + nonce[:k.get("apple_nonce_cut", 32)]
        exts = [] if k.get("apple_no_ext") else [(x509.UnrecognizedExtension(ObjectIdentifier("1.2.840.113635.100.8.2"), ext_val), False)]
        leaf_pub = k.get("apple_leaf_cred", cred).pk
        leaf = pki.leaf(name("Forged Apple credCert"), leaf_pub, nb=leaf_nb, na=leaf_na, exts=exts, signer_key=k.get("leaf_signer"))
        stmt = {"x5c": chain(leaf)}
        builtin["apple"] = [pki.root_pem()] if s.roots_mode != "builtin-other" else []
    elif fmt == "android-key":
        kd = key_description(k.get("ak_challenge", signed_cdh), sw_all=k.get("ak_sw_all", False), tee_all=k.get("ak_tee_all", False),
                             origin=k.get("ak_origin", 0), purpose=k.get("ak_purpose", (2,)), sw_origin=k.get("ak_sw_origin"), sw_purpose=k.get("ak_sw_purpose"),
                             versions=k.get("ak_versions", (3, 4)), levels=k.get("ak_levels", (1, 1)), tee_tags=k.get("ak_tee_tags", ()), sw_tags=k.get("ak_sw_tags", ()))
        exts = [] if k.get("ak_no_ext") else [(x509.UnrecognizedExtension(ObjectIdentifier("1.3.6.1.4.1.11129.2.1.17"), kd), False)]
        leaf_pub = k.get("ak_leaf_cred", cred).pk
        leaf = pki.leaf(name("Forged Android Keystore Key"), leaf_pub, nb=leaf_nb, na=leaf_na, exts=exts, signer_key=k.get("leaf_signer"))
        signer = k.get("att_signer", k.get("ak_leaf_cred", cred))
        sig = signer.sign(signed_ad + signed_cdh, k.get("sign_scheme"))
        stmt = {"alg": k.get("stmt_alg", signer.alg), "sig": sig, "x5c": chain(leaf, with_root=True)}
        builtin["android-key"] = [pki.root_pem()]
    elif fmt == "android-safetynet":
        sn_key = ec_key("safetynet_ec_leaf") if k.get("sn_ec_leaf") else rsa_key("safetynet_leaf")
        sn_exts = [(x509.SubjectAlternativeName([x509.DNSName(d) for d in k["sn_san"]]), False)] if k.get("sn_san") else []
        leaf = pki.leaf(name(k.get("sn_cn", "attest.android.com")), sn_key.public_key(), nb=leaf_nb, na=leaf_na, signer_key=k.get("leaf_signer"), exts=sn_exts)
        x5c = chain(leaf)
        header = {"alg": k.get("sn_alg", "RS256"), "x5c": [base64.b64encode(c).decode() for c in x5c]}
        nonce = base64.b64encode(hashlib.sha256(signed_ad + signed_cdh).digest()).decode()
        if "sn_nonce_fn" in k:
            k = dict(k, sn_nonce=k["sn_nonce_fn"](nonce))
        payload = {"nonce": k.get("sn_nonce", nonce), "timestampMs": k.get("sn_timestamp", s.now * 1000 - 2000), "apkPackageName": "com.google.android.gms",
                   "apkDigestSha256": "x", "ctsProfileMatch": k.get("sn_cts", True), "apkCertificateDigestSha256": ["y"], "basicIntegrity": k.get("sn_basic", True)}
        h64, p64 = b64u(json.dumps(header).encode()), b64u(json.dumps(payload).encode())
        signed_input = k.get("sn_signed_input", (h64 + "." + p64).encode())
        sn_signer = k.get("sn_signer", sn_key)
        if k.get("sn_ec_leaf"):
            from cryptography.hazmat.primitives.asymmetric.utils import decode_dss_signature
            r_, s_ = decode_dss_signature(sn_signer.sign(signed_input, ec.ECDSA(hashes.SHA256())))
            sig = r_.to_bytes(32, "big") + s_.to_bytes(32, "big")          # JWS ES256: fixed-width R || S
        else:
          sig = sn_signer.sign(signed_input, *((padding.PKCS1v15(), k.get("sn_hash", hashes.SHA256)()) if not k.get("sn_pss") else
                                             (padding.PSS(mgf=padding.MGF1(hashes.SHA256()), salt_length=32), hashes.SHA256())))
        jws = (h64 + "." + p64 + "." + b64u(sig)).encode()
        if "sn_jws" in k:
            jws = k["sn_jws"](h64, p64, b64u(sig))
        stmt = {"ver": k.get("sn_ver", "14799021"), "response": jws}
        builtin["android-safetynet"] = [pki.root_pem()]
    else:
        raise ValueError(fmt)
    leaf_pem = None
    try:
        if fmt in X5C_FORMATS:
            leaf_pem = leaf.public_bytes(serialization.Encoding.PEM)
    except Exception:
        leaf_pem = None
    if "stmt_edit" in k:
        stmt = k["stmt_edit"](dict(stmt))
    ao = {"fmt": s.fmt_name(), "attStmt": stmt, "authData": k.get("ao_auth_data", ad)}
    if k.get("no_att_stmt"):
        del ao["attStmt"]
    if k.get("ao_shadow"):
        # members next to the three the attestation object defines: the SAME statement and format under other keys (CTAP2's integer keys 1, 2, 3, other spellings),
        # with authenticator data that lacks the fault the real one carries - only "fmt", "attStmt" and "authData" are the attestation object
        good = authsim.authdata(s.rp_id, s.flags | 0x45, s.count, aaguid=aaguid, cred_id=s.cred_id, cose_bytes=cred.cose_bytes, ext=s.ext)
        shadow = {1: ao["fmt"], 2: good, 3: ao.get("attStmt", {}), "authdata": good, "auth_data": good, "AuthData": good, "authenticatorData": good, "authData ": good}
        keys = k["ao_shadow"] if isinstance(k["ao_shadow"], (list, tuple)) else list(shadow)
        front = {kk: shadow[kk] for kk in keys if kk in shadow and isinstance(kk, int)}
        ao = {**front, **ao, **{kk: shadow[kk] for kk in keys if kk in shadow and not isinstance(kk, int)}}
    att_obj = cbor2.dumps(ao)
    if k.get("ao_style") and k["ao_style"] != "canonical":
        from harness import cborgen
        att_obj = cborgen.encode_styled(ao, k["ao_style"])      # the same attestation object in another of the encodings RFC 8949 allows
    # the OUTER rawId / id of the credential (client-controlled) may differ from the credential id attested inside authData
    reg = Registration(cred, k.get("outer_raw_id", s.cred_id), cdj, att_obj, id_text=s.id_text, typ=s.typ)
    if s.post:
        s.post(reg)
    # RP-side roots
    fmtname = s.fmt_name()
    roots = {}
    if s.fmt in X5C_FORMATS:
        if s.roots_mode == "rp":
            roots = {fmtname: [pki.root_pem()]}
        elif s.roots_mode == "several":
            roots = {fmtname: [PKI("Z", root_cn="Unrelated Root").root_pem(), pki.root_pem()]}
        elif s.roots_mode == "other-fmt":
            other = [f for f in ("packed", "tpm", "fido-u2f", "apple") if f != fmtname][0]
            roots = {other: [pki.root_pem()]}
        elif s.roots_mode == "impostor":
            roots = {fmtname: [PKI("Y", root_cn="Forged Root").root_pem()]}      # same name, other key
        elif s.roots_mode == "extra-unrelated":
            roots = {fmtname: [PKI("Z", root_cn="Unrelated Root").root_pem()]}        # for built-in formats: an extra RP root next to the (right) built-in one
        elif s.roots_mode == "unrelated":
            roots = {fmtname: [PKI("Z", root_cn="Unrelated Root").root_pem()]}
        elif s.roots_mode == "isolation":
            other = [f for f in ("packed", "tpm", "fido-u2f", "apple") if f != fmtname][0]
            roots = {fmtname: [PKI("Z", root_cn="Unrelated Root").root_pem()], other: [pki.root_pem()]}
        elif s.roots_mode == "none":
            roots = {}
        elif s.roots_mode == "pin-leaf":
            roots = {fmtname: [leaf_pem]}                      # the attestation certificate itself configured as the only anchor
        elif s.roots_mode == "pin-leaf-and-root":
            roots = {fmtname: [pki.root_pem(), leaf_pem]}
    if "roots_override" in k:
        roots = k["roots_override"]
    if s.fmt in ("apple", "android-key", "android-safetynet"):
        if s.roots_mode == "rp":
            # built-in anchors carry the trust; RP supplies nothing unless asked
            roots = k.get("roots_override", {})
        elif s.roots_mode == "rp-only":
            # the (substituted) built-in anchor is unrelated; the RP-supplied root for this format carries the trust
            roots = {fmtname: [pki.root_pem()]}
            builtin[s.fmt] = [PKI("Z", root_cn="Unrelated Root").root_pem()]
        elif s.roots_mode == "extra-unrelated":
            pass                                                               # built-in = right root, RP adds an unrelated one
        elif s.roots_mode in ("impostor", "unrelated"):
            builtin[s.fmt] = roots[fmtname]
            roots = {}
        elif s.roots_mode == "isolation":
            # the right root is configured, but only for ANOTHER format; this format's anchors are unrelated
            builtin[s.fmt] = roots.pop(fmtname)
        elif s.roots_mode in ("none", "other-fmt"):
            builtin[s.fmt] = [PKI("Z", root_cn="Unrelated Root").root_pem()]
    algs = s.algs
    if algs is None and s.kind == "RS1":
        algs = [-7, -8, -36, -37, -38, -39, -257, -258, -259, -65535]       # "RS1 when allowed"
    pol = dict(challenge=s.challenge, rp_id=s.rp_id, origin=s.exp_origin if s.exp_origin is not None else s.origin,
               require_up=s.require_up, require_uv=s.require_uv, algs=algs, roots=roots, builtin=builtin, now=s.now)
    return pol, reg
