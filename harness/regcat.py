"""Registration fault catalogues: ceremony level (C02), per-format rules (C03), certificate chains (C04).
Each entry leaves every other verification step valid (statements are regenerated over the deviating data)."""
import hashlib, struct, cbor2
from cryptography.hazmat.primitives.asymmetric import ec
from cryptography.hazmat.primitives import hashes
from cryptography import x509
from cryptography.x509.oid import NameOID
from harness import authsim, authcat, regsim
from harness.authsim import Cred, b64u
from harness.regsim import T0, DAY

ALL = regsim.FORMATS


def _keep_expected(s):
    if s.exp_origin is None:
        s.exp_origin = s.origin


# ---------------- ceremony level (every format) ----------------
def c_type(s, r):
    from harness import srcdict
    s.cd_type = r.choice(["webauthn.get", "webauthn.create ", "", "payment.create", "Webauthn.create"] + srcdict.words())
    authcat._word_decoys(s, r)
def c_alg_alias(s, r):
    # the credential key declares an algorithm id that is NOT in the allowed list but that some registry calls "the same algorithm"
    # (Ed25519 -19 for EdDSA -8, ESP256 -9 for ES256 -7, ...) or that the changed source newly mentions
    from harness import srcdict
    pairs = [("EdDSA", -19), ("ES256-P256", -9), ("EdDSA", -53), ("ES256-P384", -51), ("RS256", -260), ("ES512-P521", -52), ("ES256-P256", -47), ("ES256-P384", -35), ("RS384", -261)]
    pairs += [(k, a) for a in srcdict.alg_ids() for k in ("EdDSA", "ES256-P256", "RS256")]
    kind, alg = r.choice(pairs)
    if s.fmt in ("tpm", "fido-u2f") and authsim.KINDS[kind][0] == "ed":
        kind = "ES256-P256"
    if s.fmt == "fido-u2f":
        kind = "ES256-P256"
    s.kind = kind
    m = dict(Cred(kind).cose)
    m[3] = alg
    s.k["cose_bytes"] = cbor2.dumps(m)
def c_challenge_other(s, r): s.sign_challenge = bytes(x ^ 0x55 for x in s.challenge)
def c_challenge_trunc(s, r): s.sign_challenge = s.challenge[:-1] if r.random() < 0.5 else s.challenge + b"\x00"
def c_challenge_b64_alias(s, r):
    # the expected challenge is printable base64url text; the client data carries its base64url DECODING (or the other way round)
    import base64
    if r.random() < 0.5:
        txt = "".join(r.choice("ABCDEFGHIJKLMNOPQRSTUVWXYZabcdefghijklmnopqrstuvwxyz0123456789-_") for _ in range(43))
        s.challenge = txt.encode()
        s.sign_challenge = base64.urlsafe_b64decode(txt + "=")
    else:
        s.sign_challenge = authsim.b64u(s.challenge).encode()
def c_algs_empty(s, r): s.algs = r.choice([[], ()])      # an explicitly empty allowed list allows nothing
def c_origin_other(s, r):
    _keep_expected(s); s.origin = r.choice(["https://evil.example", "https://example.com.evil.test"]); authcat._l3_decoys(s, r)
def c_origin_alias(s, r): authcat.f_origin_alias(s, r)
def c_origin_pattern(s, r): authcat.f_origin_pattern(s, r)
def c_rp_hash_of_other_string(s, r):
    _keep_expected(s)
    o = s.origin
    cands = [o, o + "/", o.split("://")[-1], "https://" + s.rp_id, s.rp_id + ":443", authsim.b64u(s.challenge), s.cd_type, authsim.b64u(s.cred_id), " "]
    s.sign_rp_id = r.choice([c for c in cands if c != s.rp_id])
B64STD = "ABCDEFGHIJKLMNOPQRSTUVWXYZabcdefghijklmnopqrstuvwxyz0123456789+/"


def _sn_nonce_alias(s, r):
    # the nonce is compared as TEXT with the Base64 encoding of the digest: other texts that a decoder would map to the same 32 bytes are other texts
    def spare(n_):
        def f(good):
            body = good.rstrip("=")
            return body[:-1] + B64STD[B64STD.index(body[-1]) | n_] + "=" * (len(good) - len(body))
        return f
    fns = [spare(1), spare(2), spare(3), lambda g: g.replace("+", "-").replace("/", "_") if ("+" in g or "/" in g) else g.rstrip("="), lambda g: g.rstrip("="), lambda g: g + "=", lambda g: g + "\n",
           lambda g: " " + g, lambda g: g[:20] + "\n" + g[20:], lambda g: g + "====", lambda g: g[:-1] + "=" + g[-1:] if False else g + " "]
    fn = r.choice(fns)
    s.k["sn_nonce_fn"] = lambda good: (fn(good) if fn(good) != good else good + "=")


def _shadowed(fault):
    def f(s, r):
        fault(s, r)
        s.k["ao_shadow"] = r.choice([True, [1, 2, 3], [2], ["authdata", "auth_data"], ["authData ", "AuthData"], [2, "authenticatorData"]])
    return f
def c_cd_wrapped_as_string(s, r): s.k["cd_wrap"] = (r.choice([1, 2]), r.choice([b"", b" ", b"\n"]))
def c_origin_substring(s, r):
    s.exp_origin = "https://example.com:8443"
    s.origin = r.choice(["https://example.com", "example.com:8443", "https://example.com:844", ""])
def c_origin_list_absent(s, r): s.exp_origin = ["https://a.example", "https://b.example"]; s.origin = r.choice(["https://c.example", "https://a.exampl"])
def c_token_binding(s, r): s.token_binding = {"status": r.choice(["not-supported", "unknown", ""])}
def c_rp_other(s, r): s.rp_id, s.sign_rp_id = r.choice(authcat.RP_ALIASES)
def c_up_clear(s, r): s.flags &= ~0x01; s.require_up = True
def c_uv_clear(s, r):
    s.flags &= ~0x04; s.require_uv = True
    if r.random() < 0.7:
        s.flags |= 0x80
        s.ext = cbor2.dumps(r.choice([{"uvm": [[2, 4, 2]]}, {"uvm": [[2, 4, 2], [4, 4, 2]]}, {"credProtect": 3, "uvm": [[2, 10, 4]]}, {"userVerified": True}]))
def c_no_attested(s, r): s.flags &= ~0x40
def c_empty_cred_id(s, r): s.cred_id = b""
def c_alg_not_allowed(s, r):
    alg = authsim.KINDS[s.kind][2]
    s.algs = [a for a in (-7, -8, -36, -257, -258, -259, -37, -38, -39) if a != alg][: r.choice([1, 3, 8])]
def c_id_mismatch(s, r): authcat.f_id_mismatch(s, r)
def c_id_fault(which): return authcat.id_fault(which)
def c_cred_type(s, r): s.typ = r.choice(["public-key ", "Public-Key", ""])
def c_unknown_fmt(s, r): s.k["fmt_override"] = r.choice(["bogus", "Packed", "none ", "android_key", ""])
def c_bs_without_be(s, r): s.flags = (s.flags | 0x10) & ~0x08

CEREMONY = {
    "credential-alg-alias-not-in-allowed-list": c_alg_alias, "id-not-b64-rawid:padded-1": c_id_fault("padded-1"), "id-not-b64-rawid:last-char-spare-bits": c_id_fault("last-char-spare-bits"), "id-not-b64-rawid:newline-appended": c_id_fault("newline-appended"),
    "id-not-b64-rawid:standard-alphabet": c_id_fault("standard-alphabet"), "id-not-b64-rawid:char-appended": c_id_fault("char-appended"), "id-not-b64-rawid:empty": c_id_fault("empty"),
    "origin-alias-spelling": c_origin_alias, "rp-id-hash-of-another-ceremony-string": c_rp_hash_of_other_string, "client-data-is-a-json-string-wrapping-the-object": c_cd_wrapped_as_string, "origin-expected-read-as-pattern": c_origin_pattern, "challenge-base64url-alias": c_challenge_b64_alias, "challenge-is-a-text-encoding-of-the-expected-one-or-vice-versa": authcat.challenge_text_relation,
    "characters-moved-across-the-boundary-between-two-client-data-members": authcat.member_boundary_shifted, "allowed-algorithms-empty": c_algs_empty,
    "cd-type": c_type, "challenge-other": c_challenge_other, "challenge-trunc": c_challenge_trunc, "origin-other": c_origin_other,
    "origin-substring": c_origin_substring, "origin-list-absent": c_origin_list_absent, "token-binding-status": c_token_binding,
    "rp-id-other": c_rp_other, "up-clear-required": c_up_clear, "uv-clear-required": c_uv_clear, "no-attested-data": c_no_attested,
    "empty-credential-id": c_empty_cred_id, "alg-not-allowed": c_alg_not_allowed, "id-not-b64-rawid": c_id_mismatch,
    "credential-type": c_cred_type, "unknown-format": c_unknown_fmt, "bs-without-be": c_bs_without_be,
}
RECORD_ONLY = {"credential-type"}


def none_with_statement(s, r):
    s.k["none_stmt"] = r.choice([{"sig": b"x"}, {"alg": -7}, {"x5c": [b"a"]}, {"ver": "2.0"}, {"response": b"r"}, {"certInfo": b"c"}, {"pubArea": b"p"},
                                 {"sig": b""}, {"alg": 0}, {"x5c": []}, {"ver": ""}, {"response": b""}, {"certInfo": b""}, {"pubArea": b"", "sig": b""}, {"alg": False}])


# ---------------- per-format rules ----------------
def other_ad(s):
    # authenticator data differing from the presented one in the counter only
    return lambda ad: ad[:33] + struct.pack(">I", (struct.unpack(">I", ad[33:37])[0] + 1) % 2 ** 32) + ad[37:]


def set_k(**kw):
    def f(s, r):
        s.k.update(kw)
    return f


def signed_other_ad(s, r):
    # the statement is produced over authenticator data that differs (counter + 1)
    base = authsim.authdata(s.rp_id, s.flags, (s.count + 1) % 2 ** 32, aaguid=(bytes(16) if s.fmt == "fido-u2f" else s.aaguid),
                            cred_id=s.cred_id, cose_bytes=Cred(s.kind, slot=s.cred_slot).cose_bytes, ext=s.ext)
    s.k["signed_ad"] = base


def signed_other_cdh(s, r): s.k["signed_cdh"] = hashlib.sha256(b"other client data").digest()
def self_alg_mismatch(s, r):
    # declares another algorithm of the same family than the credential key's (signature made accordingly)
    fam = authsim.KINDS[s.kind][0]
    alt = {"ec": {-7: (-36, "ECDSA-SHA512"), -36: (-7, "ECDSA-SHA256")}, "rsa": {}, "ed": {}}[fam]
    cur = authsim.KINDS[s.kind][2]
    if cur in alt:
        s.k["stmt_alg"], s.k["sign_scheme"] = alt[cur]
    elif fam == "rsa":
        s.k["stmt_alg"], s.k["sign_scheme"] = (-257, "PKCS1-SHA256") if cur != -257 else (-37, "PSS-SHA256")
    else:
        s.k["stmt_alg"] = -7
def self_other_key(s, r): s.k["signer"] = Cred(s.kind, slot=3)
def self_wrong_scheme(s, r):
    fam = authsim.KINDS[s.kind][0]
    cur = authsim.KINDS[s.kind][3]
    alts = [a for a in {"ec": ["ECDSA-SHA256", "ECDSA-SHA384", "ECDSA-SHA512"], "rsa": ["PKCS1-SHA256", "PKCS1-SHA384", "PSS-SHA256", "PSS-SHA512"], "ed": []}[fam] if a != cur]
    if alts:
        s.k["sign_scheme"] = r.choice(alts)
    else:
        s.k["signer"] = Cred(s.kind, slot=3)
def stmt_drop(field):
    def f(s, r):
        def edit(st):
            st.pop(field, None)
            return st
        s.k["stmt_edit"] = edit
    return f
def stmt_set(field, value):
    def f(s, r):
        def edit(st):
            st[field] = value
            return st
        s.k["stmt_edit"] = edit
    return f
def att_other_key(s, r): s.k["att_signer"] = Cred(s.att_kind, slot=8)
def att_wrong_scheme(s, r):
    fam = authsim.KINDS[s.att_kind][0]
    cur = authsim.KINDS[s.att_kind][3]
    alts = [a for a in {"ec": ["ECDSA-SHA256", "ECDSA-SHA384", "ECDSA-SHA512"], "rsa": ["PKCS1-SHA256", "PKCS1-SHA384", "PSS-SHA256"], "ed": []}[fam] if a != cur]
    if alts:
        s.k["att_scheme"] = r.choice(alts)
    else:
        s.k["att_signer"] = Cred(s.att_kind, slot=8)

def u2f_curve(c):
    def f(s, r): s.k["u2f_curve"] = c
    return f
def u2f_rsa_leaf(s, r): s.k["u2f_att_key"] = regsim.rsa_key("u2f_rsa_att")
def u2f_cred_not_ec(s, r): s.kind = "RS256"
def u2f_long_coordinate(s, r):
    # the COSE key inside the signed authenticator data carries a coordinate with bytes in front of the 32 the field has (x or y, one or several bytes, zero or not), while the
    # U2F signature was made over the classic 65-byte key: what is signed is not what the authenticator data says
    cr = Cred("ES256-P256")
    m = dict(cr.cose_map())
    which = r.choice([-2, -3])
    m[which] = r.choice([b"\x00", b"\x01", b"\xff", b"\x00\x00", b"\x7f" * 3]) + m[which]
    s.k["cose_bytes"] = cbor2.dumps(m)
def tpm_e3(s, r):
    # credential key (n, 3) while the TPM certifies (n, default 65537)
    s.kind = "RS256"
    c = Cred("RS256", slot=s.cred_slot)
    m = dict(c.cose); m[-2] = b"\x03"
    s.k["cose_bytes"] = cbor2.dumps(m)
def tpm_e_nonzero_mismatch(s, r): s.kind = "RS256"; s.k["tpm_exponent"] = 3
def tpm_rsa_unique(s, r):
    s.kind = "RS256"
    n = Cred("RS256", slot=s.cred_slot).pk.public_numbers().n.to_bytes(256, "big")
    s.k["tpm_unique"] = n[:-1] + bytes([n[-1] ^ 2])
def tpm_ecc_unique(s, r):
    nums = Cred(s.kind, slot=s.cred_slot).pk.public_numbers()
    L = authsim.CRV_LEN[Cred(s.kind).pk.curve.name]
    s.k["tpm_unique"] = (nums.x.to_bytes(L, "big"), (nums.y ^ 1).to_bytes(L, "big"))
def tpm_ecc_curve(s, r):
    # pubArea declares ANOTHER NIST curve than the credential key's (0x0003 P-256, 0x0004 P-384, 0x0005 P-521)
    own = {"ES256-P256": 0x0003, "ES512-P256": 0x0003, "ES256-P384": 0x0004, "ES256-P521": 0x0005, "ES512-P521": 0x0005}.get(s.kind)
    s.k["tpm_curve"] = r.choice([c for c in (0x0003, 0x0004, 0x0005) if c != own])
def tpm_kind_mismatch(s, r):
    s.k["tpm_pub_cred"] = Cred("RS256" if authsim.KINDS[s.kind][0] == "ec" else "ES256-P256", slot=s.cred_slot)
def tpm_name_other_pub_area(s, r): s.k["tpm_named_pub_area"] = b"\x00\x23\x00\x0b" + bytes(40)
def tpm_name_prefix(s, r):
    # Name = wrong algorithm id || H_nameAlg(pubArea)
    na = s.k.get("tpm_name_alg", "SHA256")
    s.k["tpm_name_prefix"] = struct.pack(">H", r.choice([v for k, v in regsim.TPM_ALG.items() if k in ("SHA1", "SHA256", "SHA384", "SHA512") and k != na]))
def tpm_name_hash_alg(s, r):
    na = s.k.get("tpm_name_alg", "SHA256")
    s.k["tpm_name_hash"] = r.choice([h for h in ("SHA1", "SHA256", "SHA384", "SHA512") if h != na])
def tpm_extra_hash(s, r):
    cur = regsim.ATT_HASH[authsim.KINDS[s.att_kind][2]]
    s.k["tpm_extra_hash"] = r.choice([h for h in ("SHA1", "SHA256", "SHA384", "SHA512") if h != cur])
def tpm_signed_other_cert_info(s, r): s.k["tpm_signed_cert_info"] = b"\xff\x54\x43\x47\x80\x17" + bytes(60)
def tpm_subject(s, r): s.k["tpm_subject"] = regsim.name("AIK")
def tpm_san_absent(s, r): s.k["tpm_san"] = None
def tpm_attrs_in_subject(s, r):
    # the TCG device attributes belong in the subject ALTERNATIVE name and the subject is empty: a certificate that carries them in its subject (with or without a SAN, all or
    # some of them, next to other attributes) meets neither rule
    from cryptography import x509 as _x
    from cryptography.x509.oid import ObjectIdentifier as _O, NameOID as _N
    tcg = [_x.NameAttribute(_O("2.23.133.2.1"), "id:414D4400"), _x.NameAttribute(_O("2.23.133.2.2"), "model-x"), _x.NameAttribute(_O("2.23.133.2.3"), "id:00010002")]
    v = r.choice(["all-three-no-san", "all-three-no-san", "all-three-with-san", "two-no-san", "three-and-cn-no-san", "reordered-no-san", "one-rdn-no-san"])
    attrs = list(tcg)
    if v == "two-no-san":
        attrs = tcg[:2]
    if v == "three-and-cn-no-san":
        attrs = tcg + [_x.NameAttribute(_N.COMMON_NAME, "AIK")]
    if v == "reordered-no-san":
        attrs = tcg[::-1]
    s.k["tpm_subject"] = _x.Name([_x.RelativeDistinguishedName(attrs)]) if v == "one-rdn-no-san" else _x.Name(attrs)
    if v != "all-three-with-san":
        s.k["tpm_san"] = None
def tpm_san_unknown_vendor(s, r):
    # not in the TCG vendor-id registry (incl. the id the FIDO conformance tools use, test ids, near misses of registered ids)
    s.k["tpm_manufacturer"] = r.choice(["id:FFFFFFF0", "id:414d4400", "414D4400", "id:414D440", "id:FFFFF1D0", "id:00000000", "id:FFFFFFFF", "id:414D4401", "id:494E5444", "ID:414D4400"])
def tpm_san_no_model(s, r): s.k["tpm_san"] = [("2.23.133.2.1", "id:414D4400"), ("2.23.133.2.3", "id:00010002")]
def tpm_eku_wrong(s, r):
    from harness import srcdict
    s.k["tpm_eku"] = r.choice([["2.23.133.8.1"], ["1.3.6.1.5.5.7.3.2", "2.23.133.8.3"], ["2.5.29.37.0"], ["2.23.133.8.2"], ["2.23.133.8.30"], ["2.5.29.37.0", "1.3.6.1.5.5.7.3.2"],
                               ["1.3.6.1.5.5.7.3.1"], ["2.23.133.8"]] + [[o] for o in srcdict.oids() if o != "2.23.133.8.3"])
def tpm_eku_absent(s, r): s.k["tpm_eku"] = None
def tpm_bc_ca(s, r): s.k["tpm_bc"] = True
def tpm_bc_absent(s, r): s.k["tpm_bc"] = None

def apple_leaf_other_key(s, r): s.k["apple_leaf_cred"] = Cred(s.kind, slot=4)
def ak_leaf_other_key(s, r):
    other = Cred(s.kind, slot=4)
    s.k["ak_leaf_cred"] = other            # leaf certifies (and signs with) another key than the credential's
def ak_sig_other_key(s, r): s.k["att_signer"] = Cred(s.kind, slot=5)
def sn_sig_other_key(s, r): s.k["sn_signer"] = regsim.rsa_key("safetynet_other")
def sn_two_parts(s, r): s.k["sn_jws"] = lambda h, p, sg: (h + "." + p).encode()
def sn_four_parts(s, r): s.k["sn_jws"] = lambda h, p, sg: (h + "." + p + "." + sg + ".x").encode()

def alg_es384_really_signed(s, r):
    # alg -35 (ES384) is not an algorithm the library registers; the statement is nevertheless signed exactly as ES384 prescribes (P-384 key, SHA-384),
    # with extraData still hashed with SHA-256
    s.att_kind = "ES256-P384"
    s.k["att_scheme"] = "ECDSA-SHA384"
    stmt_set("alg", -35)(s, r)

def tpm_alg_foreign(alg):
    # the statement names an algorithm the (RSA / EC) attestation key cannot have made the signature with; Ed25519 attestation keys are
    # left out: verify_signature does not consult the algorithm for them (scope note in DESIGN, C09)
    def f(s, r):
        if authsim.KINDS[s.att_kind][0] == "ed":
            s.att_kind = "RS256"
        stmt_set("alg", alg)(s, r)
    return f

def cred_other_curve_same_xy(s, r):
    # the credential key in the authenticator data declares another curve than the certified P-256 key, with the same x / y
    s.kind = "ES256-P256"
    m = dict(Cred("ES256-P256").cose)
    m[-1] = r.choice([2, 3])
    s.k["cose_bytes"] = cbor2.dumps(m)

def cred_xy_split_elsewhere(s, r):
    # the credential key's x and y members are two byte strings, each a coordinate: moving bytes across the boundary between them (x shorter, y longer, the
    # CONCATENATION unchanged) names other numbers - not the key the certificate / the signature is about
    if authsim.KINDS[s.kind][0] != "ec":
        s.kind = "ES256-P256"          # (the fault is about EC2 keys: x and y)
    m = dict(Cred(s.kind, slot=s.cred_slot).cose)
    X, Y = m[-2], m[-3]
    k_ = r.choice([len(X) - 1, len(X) - 2, 1, len(X) + 1, len(X) + 7])
    xy = X + Y
    m[-2], m[-3] = xy[:k_], xy[k_:]
    s.k["cose_bytes"] = cbor2.dumps(m)


def _ca_carries_a_clean_key_description(fault):
    """the android-key fault `fault` on the credential certificate, while a CA certificate ABOVE it in x5c carries a fault-free KeyDescription for this very ceremony:
    the statements that count are those of x5c[0]"""
    def f(s, r):
        fault(s, r)
        s.n_inter = max(1, s.n_inter)
        where = r.choice(["intermediate", "intermediate", "intermediate"])
        def x5c(pki, leaf):
            kd = regsim.key_description(pki.ceremony["cdh"])
            ext = (x509.UnrecognizedExtension(x509.ObjectIdentifier("1.3.6.1.4.1.11129.2.1.17"), kd), False)
            inters = list(reversed(pki.inters))
            out = [regsim.der(leaf)]
            if where == "intermediate":
                top = pki.inters[0]
                issuer_key = pki.root_key
                re_issued = regsim.make_cert(top.subject, top.issuer, top.public_key(), issuer_key, ca=True, exts=[ext])
                out += [regsim.der(c) for c in inters[:-1]] + [regsim.der(re_issued), regsim.der(pki.root)]          # (android-key statements end with the root certificate)
            else:
                re_root = regsim.make_cert(pki.root.subject, pki.root.subject, pki.root_key.public_key(), pki.root_key, ca=True, exts=[ext], serial=4243)
                out += [regsim.der(c) for c in inters] + [regsim.der(re_root)]
            return out
        s.k["x5c_override"] = x5c
    return f


_FOREIGN_KEYS = {}


def att_key_of_foreign_type(s, r):
    # the attestation certificate holds a key of a type that NONE of the algorithms the property lists denotes (Ed448; a DSA or X25519 key could not even sign / be
    # certified this way), the statement is genuinely signed with it, and declares any algorithm: there is no scheme under which that signature counts
    import types
    from cryptography.hazmat.primitives.asymmetric import ed448
    if "ed448" not in _FOREIGN_KEYS:
        _FOREIGN_KEYS["ed448"] = authsim._load_or_make_uncached("ed448_att", ed448.Ed448PrivateKey.generate) if hasattr(authsim, "_load_or_make_uncached") else ed448.Ed448PrivateKey.generate()
    sk = _FOREIGN_KEYS["ed448"]
    alg = r.choice([-8, -7, -257, -36, -37, -65535, -53])
    s.k["att_cred_override"] = types.SimpleNamespace(sk=sk, pk=sk.public_key(), alg=alg, scheme="ED25519", fam="ed", kind="Ed448")


FORMAT_FAULTS = {
    "packed-self": {
        "credential-key-coordinates-split-elsewhere": cred_xy_split_elsewhere, "alg-disagrees-with-key": self_alg_mismatch, "signed-by-other-key": self_other_key, "signed-other-authdata": signed_other_ad,
        "signed-other-clientdata": signed_other_cdh, "wrong-scheme": self_wrong_scheme, "sig-missing": stmt_drop("sig"), "alg-missing": stmt_drop("alg"),
    },
    "packed": {
        "signed-by-other-key": att_other_key, "signed-other-authdata": signed_other_ad, "signed-other-clientdata": signed_other_cdh, "attestation-key-of-a-type-no-algorithm-denotes": att_key_of_foreign_type,
        "wrong-scheme": att_wrong_scheme, "sig-missing": stmt_drop("sig"), "alg-missing": stmt_drop("alg"), "alg-zero": stmt_set("alg", 0),
        "alg-es384-genuinely-signed-with-sha384": alg_es384_really_signed,
    },
    "fido-u2f": {
        "two-certificates": set_k(u2f_two_certs=True), "nonzero-aaguid": set_k(aaguid=bytes([0] * 15 + [1])), "leaf-p384": u2f_curve(ec.SECP384R1),
        "leaf-secp256k1": u2f_curve(ec.SECP256K1), "leaf-brainpool256": u2f_curve(ec.BrainpoolP256R1), "leaf-rsa": u2f_rsa_leaf,
        "credential-key-not-ec2": u2f_cred_not_ec, "signed-other-rp": set_k(u2f_signed_rp="other.example"),
        "signed-other-credential-id": set_k(u2f_signed_cred_id=b"another-credential"),
        "signed-over-outer-rawid-not-attested-id": set_k(u2f_signed_cred_id=b"outer-credential-id", outer_raw_id=b"outer-credential-id"), "signed-other-public-key": set_k(u2f_signed_pk=b"\x04" + bytes(64)),
        "signed-other-clientdata": signed_other_cdh, "reserved-byte-nonzero": set_k(u2f_prefix=b"\x01"), "sha384-signature": set_k(u2f_hash=hashes.SHA384),
        "credential-key-coordinate-longer-than-the-field": u2f_long_coordinate,
        "sig-missing": stmt_drop("sig"), "x5c-missing": stmt_drop("x5c"),
    },
    "tpm": {
        "ver-not-2.0": set_k(tpm_ver="1.2"), "ver-missing": stmt_drop("ver"), "ver-float-2.0": set_k(tpm_ver=2.0), "ver-bytes-2.0": set_k(tpm_ver=b"2.0"), "ver-int-2": set_k(tpm_ver=2),
        "extradata-empty": set_k(tpm_extra_cut=0), "extradata-truncated": set_k(tpm_extra_cut=16), "attested-name-empty": set_k(tpm_name_cut=0), "attested-name-only-alg": set_k(tpm_name_cut=2), "rsa-exponent-default-vs-3": tpm_e3, "rsa-exponent-mismatch": tpm_e_nonzero_mismatch,
        "rsa-modulus-mismatch": tpm_rsa_unique, "ecc-point-mismatch": tpm_ecc_unique, "ecc-curve-mismatch": tpm_ecc_curve, "key-kind-mismatch": tpm_kind_mismatch,
        "magic": set_k(tpm_magic=0xFF544348), "type-not-certify": set_k(tpm_cert_type=0x801A), "type-quote": set_k(tpm_cert_type=0x8018),
        "extradata-other-hash": tpm_extra_hash, "extradata-other-authdata": signed_other_ad, "extradata-other-clientdata": signed_other_cdh,
        "name-of-other-pubarea": tpm_name_other_pub_area, "name-alg-prefix-mismatch": tpm_name_prefix, "name-hash-other-alg": tpm_name_hash_alg,
        "signed-by-other-key": att_other_key, "signed-other-certinfo": tpm_signed_other_cert_info, "wrong-scheme": att_wrong_scheme,
        "aik-subject-not-empty": tpm_subject, "aik-san-absent": tpm_san_absent, "aik-device-attributes-in-the-subject": tpm_attrs_in_subject, "aik-unknown-vendor": tpm_san_unknown_vendor, "aik-san-no-model": tpm_san_no_model,
        "aik-eku-wrong": tpm_eku_wrong, "aik-eku-absent": tpm_eku_absent, "aik-ca-true": tpm_bc_ca, "aik-basic-constraints-absent": tpm_bc_absent,
        "ecc-curve-unmappable": set_k(tpm_curve=0x0001), "name-alg-unmappable": set_k(tpm_name_alg_raw="SM3_256"),
        "alg-es384-genuinely-signed-with-sha384": alg_es384_really_signed, "alg-unregistered-es384": tpm_alg_foreign(-35), "alg-unregistered-es256k": tpm_alg_foreign(-47), "alg-of-other-family-eddsa": tpm_alg_foreign(-8),
        "sig-missing": stmt_drop("sig"), "certinfo-missing": stmt_drop("certInfo"), "pubarea-missing": stmt_drop("pubArea"), "alg-missing": stmt_drop("alg"), "x5c-missing": stmt_drop("x5c"),
    },
    "apple": {
        "nonce-other-authdata": signed_other_ad, "nonce-other-clientdata": signed_other_cdh, "nonce-extension-absent": set_k(apple_no_ext=True),
        "credential-key-coordinates-split-elsewhere": cred_xy_split_elsewhere, "nonce-empty": set_k(apple_nonce_cut=0), "nonce-truncated": set_k(apple_nonce_cut=16), "credential-key-other-curve-same-xy": cred_other_curve_same_xy,
        "certificate-key-differs": apple_leaf_other_key, "nonce-prefix-shorter": set_k(apple_ext_prefix=b"\x30\x23\xa1\x21\x04"), "x5c-missing": stmt_drop("x5c"),
    },
    "android-key": {
        "signed-by-other-key": ak_sig_other_key, "signed-other-authdata": signed_other_ad, "certificate-key-differs": ak_leaf_other_key, "credential-key-coordinates-split-elsewhere": cred_xy_split_elsewhere,
        "challenge-other": set_k(ak_challenge=hashlib.sha256(b"other").digest()), "challenge-empty": set_k(ak_challenge=b""), "credential-key-other-curve-same-xy": cred_other_curve_same_xy, "allApplications-software": set_k(ak_sw_all=True),
        "allApplications-tee": set_k(ak_tee_all=True), "origin-imported": set_k(ak_origin=2), "origin-absent": set_k(ak_origin=None),
        "purpose-verify": set_k(ak_purpose=(3,)), "purpose-sign-and-verify": set_k(ak_purpose=(2, 3)), "purpose-absent": set_k(ak_purpose=None),
        "origin-only-software-enforced": set_k(ak_origin=None, ak_sw_origin=0), "purpose-only-software-enforced": set_k(ak_purpose=None, ak_sw_purpose=(2,)),
        "origin-and-purpose-only-software-enforced": set_k(ak_origin=None, ak_sw_origin=0, ak_purpose=None, ak_sw_purpose=(2,)),
        "extension-absent": set_k(ak_no_ext=True), "sig-missing": stmt_drop("sig"), "alg-missing": stmt_drop("alg"), "x5c-missing": stmt_drop("x5c"),
    },
    "android-safetynet": {
        "alg-es256-ec-leaf-valid-signature": set_k(sn_ec_leaf=True, sn_alg="ES256"),
        "nonce-other-authdata": signed_other_ad, "nonce-other-clientdata": signed_other_cdh, "nonce-garbage": set_k(sn_nonce="AAAA"),
        "basic-integrity-false": set_k(sn_basic=False), "alg-es256": set_k(sn_alg="ES256"), "alg-ps256-really": set_k(sn_pss=True),
        "sha512-signature": set_k(sn_hash=hashes.SHA512), "leaf-cn-other": set_k(sn_cn="attest.android.com.evil.example"),
        "signed-by-other-key": sn_sig_other_key, "signed-other-input": set_k(sn_signed_input=b"e30.e30"), "jws-two-parts": sn_two_parts,
        "jws-four-parts": sn_four_parts, "timestamp-old": set_k(sn_timestamp=(T0 - 3600) * 1000), "timestamp-future": set_k(sn_timestamp=(T0 + 3600) * 1000),
        "ver-missing": stmt_drop("ver"), "response-missing": stmt_drop("response"),
        "timestamp-infinity": set_k(sn_timestamp=float("inf")), "timestamp-minus-infinity": set_k(sn_timestamp=float("-inf")), "timestamp-1e300": set_k(sn_timestamp=1e300),
        "leaf-cn-other-san-pattern": lambda s, r: s.k.update(sn_cn=r.choice(["integrity.attacker.example", "attest.android.com.evil.example", "Attest.Android.Com "]),
                                                              sn_san=[r.choice(["*.com", "*", "*.*.com", "attest.android.*", "a*.[a-z]ndroid.co?", "attest.android.com.evil.example", "*.attest.android.com"])]),
        "nonce-non-ascii": lambda s, r: s.k.update(sn_nonce=r.choice(["\u0410AAA", "\u00e9", "n\u043ence", "AAAA\u200b", "\U0001f600", "\u0391\u0392\u0393\u0394" * 11, "AAAA\u00a0"])),
        "nonce-another-text-that-decodes-to-the-digest": _sn_nonce_alias,
        "nonce-not-a-string": lambda s, r: s.k.update(sn_nonce=r.choice([5, None, True, ["AAAA"], {"nonce": "AAAA"}, 1.5])),
        "timestamp-in-another-unit": lambda s, r: s.k.update(sn_timestamp=r.choice([s.now - 2, float(s.now) - 1.5, (s.now - 2) * 10 ** 6, (s.now - 2) * 10 ** 9, (s.now - 2) // 60, (s.now - 2) * 1000 - 2 ** 32, (s.now - 2) * 1000 + 2 ** 32,
                                                                                   -((s.now - 2) * 1000), (s.now - 2) * 1000 + 2 ** 64])),
        "timestamp-nan": set_k(sn_timestamp=float("nan")), "timestamp-old-cts-false": set_k(sn_timestamp=(T0 - 3600) * 1000, sn_cts=False),
    },
}
# KeyDescription faults under every attestation / Keymaster version and security level a device may report: the rules on purpose, origin and
# allApplications do not depend on them
AK_VERSIONS = [(1, 0), (1, 1), (1, 2), (2, 3), (3, 4), (4, 41), (100, 100), (200, 200), (300, 300), (400, 400), (0, 0), (3, 2)]
def _ak_versioned(fault):
    def f(s, r):
        fault(s, r)
        s.k["ak_versions"] = r.choice(AK_VERSIONS)
        s.k["ak_levels"] = r.choice([(1, 1), (0, 0), (2, 2), (1, 0), (0, 1)])
    return f
for _n in ("purpose-verify", "purpose-sign-and-verify", "purpose-absent", "origin-imported", "origin-absent", "allApplications-software", "allApplications-tee",
           "origin-only-software-enforced", "purpose-only-software-enforced", "challenge-other"):
    FORMAT_FAULTS["android-key"][_n + ":other-keymaster-versions"] = _ak_versioned(FORMAT_FAULTS["android-key"][_n])
# TPM extraData that is a PART of the right digest (a prefix or suffix of digest-size length of a shorter hash), under the longer hashes
def tpm_extra_part_of_digest(s, r):
    s.att_kind = r.choice(["RS384", "RS512", "PS384", "PS512", "ES512-P521", "RS256", "RS1"])
    size = {"RS384": 48, "PS384": 48, "RS512": 64, "PS512": 64, "ES512-P521": 64, "RS256": 32, "RS1": 20}[s.att_kind]
    n = r.choice([x for x in (32, 20, 48, 28, 16, 33) if x < size])
    s.k["tpm_extra_cut" if r.random() < 0.6 else "tpm_extra_tail"] = n
FORMAT_FAULTS["tpm"]["extradata-part-of-the-digest"] = tpm_extra_part_of_digest
def tpm_sig_other_scheme_wrapped(s, r):
    # attStmt.alg (and extraData) say one scheme and hash; the signature over certInfo was made with ANOTHER one and is delivered inside a TPMT_SIGNATURE structure that
    # names it (sigAlg, hashAlg, TPM2B): what the statement declares is what is verified - a header inside `sig` does not re-negotiate it
    s.att_kind = "RS256"
    scheme, sigalg, hsh = r.choice([("PKCS1-SHA1", 0x0014, 0x0004), ("PSS-SHA256", 0x0016, 0x000B), ("PKCS1-SHA512", 0x0014, 0x000D), ("PKCS1-SHA384", 0x0014, 0x000C), ("PSS-SHA384", 0x0016, 0x000C)])
    s.k["tpm_sig_scheme"] = scheme
    wrap = r.choice(["tpmt", "tpmt", "bare"])
    if wrap == "tpmt":
        s.k["sig_wrap"] = lambda sig, sigalg=sigalg, hsh=hsh: struct.pack(">HH", sigalg, hsh) + struct.pack(">H", len(sig)) + sig
FORMAT_FAULTS["tpm"]["signature-of-another-scheme-than-alg-declares"] = tpm_sig_other_scheme_wrapped
for _n in ("rp-id-other", "up-clear-required", "uv-clear-required", "alg-not-allowed", "bs-without-be"):
    CEREMONY[_n + ":shadow-members-in-the-attestation-object"] = _shadowed(CEREMONY[_n])
# entries that make an inner structure MALFORMED (not a well-formed response rejected for a semantic reason): C19 does not demand a
# library exception for them (observations O3/O4 in DESIGN section 4): an attested Name too short to carry its algorithm id makes the
# TPM structure parser raise KeyError; a credential key that is no point of its declared curve makes `cryptography` raise ValueError
MALFORMED_STRUCTURE = {"attested-name-empty", "credential-key-other-curve-same-xy", "credential-key-coordinates-split-elsewhere", "client-data-malformed-affix-not-signed", "client-data-is-a-json-string-wrapping-the-object"}      # (the last: client data that is no UTF-8 / no JSON text - observation O2)
# faults that only make sense for some credential key families
NEEDS_FAMILY = {"ecc-point-mismatch": "ec", "ecc-curve-mismatch": "ec", "ecc-curve-unmappable": "ec"}
# entries known to be accepted by the unchanged implementation (genuine defects, see DESIGN section 4)
KNOWN_ACCEPTED = {}


# ---------------- certificate chains (C04) ----------------
def ch_impostor_root(s, r): s.roots_mode = "impostor"
def ch_expired_leaf(s, r): s.k["leaf_nb"], s.k["leaf_na"] = T0 - 400 * DAY, T0 - 1
def ch_future_leaf(s, r): s.k["leaf_nb"], s.k["leaf_na"] = T0 + 1, T0 + 400 * DAY
def ch_expired_inter(s, r): s.n_inter = max(1, s.n_inter); s.k["pki_kw"] = dict(inter_nb=T0 - 400 * DAY, inter_na=T0 - 10)
def ch_future_inter(s, r): s.n_inter = max(1, s.n_inter); s.k["pki_kw"] = dict(inter_nb=T0 + 10, inter_na=T0 + 400 * DAY)
def ch_expired_root(s, r): s.k["pki_kw"] = dict(root_nb=T0 - 4000 * DAY, root_na=T0 - 10)
def ch_future_root(s, r): s.k["pki_kw"] = dict(root_nb=T0 + 10, root_na=T0 + 4000 * DAY)
def _oid_der(o):
    from asn1crypto.core import ObjectIdentifier as _O
    return _O(o).dump()
def _decor_values():
    from harness import srcdict
    new = srcdict.oids()
    vals = []
    for o in (new + ["1.3.6.1.4.1.8301.3.5.1", "1.3.6.1.4.1.8301.3.5.2"]):
        d = _oid_der(o)
        vals += [b"\x30" + bytes([len(d)]) + d, d]
    for b in srcdict.blobs():
        vals += [b, b"\x30" + bytes([len(b) % 128]) + b]
    vals += [b"\x05\x00", b"\x01\x01\xff", b"\x30\x00"]
    return vals
def decor_variants():
    return len(_decor_values())
def _extension_decor(s, r):
    """extensions a verifier has no business honouring, on the leaf: every OID the CHANGED source newly mentions (harness/srcdict.py) and a few PKI
    profile extensions, with values built from the other new OIDs / new binary literals - nothing in a certificate re-dates it or vouches for its
    own chain.  s.k["_decor_n"] selects the value (all extensions carry value number n)."""
    from harness import srcdict
    oids = srcdict.oids() + ["1.3.6.1.4.1.8301.3.5", "1.3.6.1.5.5.7.1.3", "2.5.29.16", "1.3.6.1.4.1.11129.2.1.17.99"]
    vals = _decor_values()
    v = vals[s.k.get("_decor_n", 0) % len(vals)]
    ext = []
    for o in dict.fromkeys(oids):
        if o in ("2.5.29.19", "2.5.29.15", "2.5.29.37", "2.5.29.17", "2.5.29.14", "2.5.29.35"):
            continue
        ext.append((o, v))
    s.k["leaf_extra_exts"] = ext[:8]
def _decorated(fault):
    def f(s, r):
        fault(s, r)
        s.k["_decor_n"] = r.choice(range(decor_variants()))
        _extension_decor(s, r)
    return f
def ch_expired_leaf_since_epoch(s, r): s.k["leaf_nb"], s.k["leaf_na"] = r.choice([0, 1, 86400]), T0 - r.choice([1, 2 * DAY, 1800 * DAY])
def ch_future_leaf_forever(s, r): s.k["leaf_nb"], s.k["leaf_na"] = T0 + r.choice([1, DAY]), r.choice([253402300799, 2524608000, 4102444800])
def ch_expired_inter_leaf_forever(s, r):
    s.n_inter = max(1, s.n_inter); s.k["pki_kw"] = dict(inter_nb=T0 - 400 * DAY, inter_na=T0 - 10)
    s.k["leaf_nb"], s.k["leaf_na"] = r.choice([0, T0 - DAY]), r.choice([253402300799, 2524608000])
def ch_expired_root_leaf_forever(s, r):
    s.k["pki_kw"] = dict(root_nb=T0 - 4000 * DAY, root_na=T0 - 10)
    s.k["leaf_nb"], s.k["leaf_na"] = r.choice([0, T0 - DAY]), 253402300799
def ch_bad_signature(s, r): s.k["leaf_signer"] = regsim.ec_key("unrelated_signer")
def ch_missing_inter(s, r):
    s.n_inter = 2
    s.k["x5c_override"] = lambda pki, leaf: [regsim.der(leaf), regsim.der(pki.inters[0])] + ([regsim.der(pki.root)] if s.fmt == "android-key" else [])
def ch_non_ca_inter(s, r): s.n_inter = max(1, s.n_inter); s.k["pki_kw"] = dict(inter_ca=False)
def ch_self_signed_leaf(s, r):
    # leaf claims the root's name as issuer but is signed by its own (attestation) key
    s.k["leaf_signer"] = regsim.ec_key("self_signer")

def ch_nobc_root_impostor(s, r): s.k["pki_kw"] = dict(root_bc=False); s.roots_mode = "impostor-nobc"
def ch_nobc_root_bad_sig(s, r): s.k["pki_kw"] = dict(root_bc=False); s.k["leaf_signer"] = regsim.ec_key("unrelated_signer")
def ch_nobc_root_expired_leaf(s, r): s.k["pki_kw"] = dict(root_bc=False); s.k["leaf_nb"], s.k["leaf_na"] = T0 - 400 * DAY, T0 - 1

def ch_attacker_ca_first(s, r):
    # x5c = [attacker's own self-signed CA certificate, a genuine chain to the anchor]; statement signed with the attacker's key
    ak = regsim.ec_key("attacker_ca")
    cert = regsim.make_cert(regsim.name("Attacker CA"), regsim.name("Attacker CA"), ak.public_key(), ak, ca=True)
    s.k["x5c_override"] = lambda pki, leaf: [regsim.der(cert)] + pki.chain_der(leaf)
    s.k["att_signer"] = type("K", (), {"sk": ak, "alg": -7, "sign": staticmethod(lambda msg, scheme=None: ak.sign(msg, ec.ECDSA(hashes.SHA256())))})()
def ch_impostor_clone_closing_x5c(s, r):
    # x5c = [leaf issued by the attacker's CA, the attacker's self-issued CA certificate]; that certificate copies the configured root's subject AND its subject key identifier
    # (both are just bytes anybody can copy), is valid longer, but carries the attacker's key: it is no "newer issue" of the anchor
    s.n_inter = 0
    s.k["pki_kw"] = dict(s.k.get("pki_kw", {}), root_ski=True)
    ak = regsim.ec_key("attacker_ca")
    later = r.choice([9000, 400, 3651])
    def x5c(pki, leaf):
        ski = pki.root.extensions.get_extension_for_class(x509.SubjectKeyIdentifier).value
        imp = regsim.make_cert(pki.root_name, pki.root_name, ak.public_key(), ak, ca=True, nb=T0 - 10 * DAY, na=T0 + later * DAY, exts=[(ski, False)], serial=4242)
        return [regsim.der(leaf), regsim.der(imp)]
    s.k["x5c_override"] = x5c
    s.k["leaf_signer"] = ak
def ch_proxy_certificate(s, r):
    # x5c = [a PROXY certificate (RFC 3820: critical proxyCertInfo, subject = issuer's subject + one CN) carrying the attestation key, the ordinary end-entity certificate
    # (CA = FALSE) that issued it, ...]: an end-entity certificate cannot issue attestation certificates
    ee_key = regsim.ec_key("proxy_issuer_ee")
    pci = x509.UnrecognizedExtension(x509.ObjectIdentifier("1.3.6.1.5.5.7.1.14"), bytes.fromhex("300c300a06082b06010505071501"))
    def x5c(pki, leaf):
        ee_name = x509.Name([x509.NameAttribute(NameOID.COMMON_NAME, "Device 0001 attestation")])
        ee = regsim.make_cert(ee_name, pki.issuer_name, ee_key.public_key(), pki.issuer_key, ca=False)
        proxy_name = x509.Name(list(ee_name) + [x509.NameAttribute(NameOID.COMMON_NAME, r.choice(["1234567", "proxy", "credential"]))])
        proxy = regsim.make_cert(proxy_name, ee_name, leaf.public_key(), ee_key, ca=None, exts=[(pci, True)] + [(e.value, e.critical) for e in leaf.extensions if not isinstance(e.value, x509.BasicConstraints)])
        return [regsim.der(proxy), regsim.der(ee)] + [regsim.der(c) for c in reversed(pki.inters)]
    s.k["x5c_override"] = x5c
def ch_out_of_date_leaf_beside_valid_sibling(s, r):
    # x5c = [A, B, intermediates...]: A carries the attestation key and is outside its validity period; B is a fault-free certificate of the same issuer (over another key).
    # A's subject may coincide with a name that occurs elsewhere in the list (its issuer's, B's, the root's): x5c[0] is the attestation certificate whatever the names say,
    # and the chain - validity included - is judged from IT
    s.n_inter = max(1, s.n_inter)
    sib_key = regsim.ec_key("valid_sibling")
    when = r.choice([(T0 - 400 * DAY, T0 - 1), (T0 + 60, T0 + 400 * DAY), (T0 - 400 * DAY, T0 - 30 * DAY)])
    subj = r.choice(["issuer", "issuer", "own", "sibling", "root"])
    pos = r.choice([1, 1, "last"])
    def x5c(pki, leaf):
        sib_name = x509.Name([x509.NameAttribute(NameOID.COUNTRY_NAME, "US"), x509.NameAttribute(NameOID.ORGANIZATION_NAME, "Example"), x509.NameAttribute(NameOID.ORGANIZATIONAL_UNIT_NAME, "Authenticator Attestation"),
                              x509.NameAttribute(NameOID.COMMON_NAME, "Sibling attestation certificate")])
        keep = [(e.value, e.critical) for e in leaf.extensions]
        name_ = {"issuer": pki.issuer_name, "own": leaf.subject, "sibling": sib_name, "root": pki.root.subject}[subj]
        a_ = regsim.make_cert(name_, pki.issuer_name, leaf.public_key(), pki.issuer_key, nb=when[0], na=when[1], ca=None, exts=keep)
        b_ = regsim.make_cert(sib_name, pki.issuer_name, sib_key.public_key(), pki.issuer_key, ca=None, exts=keep)
        inter = [regsim.der(c) for c in reversed(pki.inters)]
        return [regsim.der(a_), regsim.der(b_)] + inter if pos == 1 else [regsim.der(a_)] + inter + [regsim.der(b_)]
    s.k["x5c_override"] = x5c
def ch_path_length_exceeded(s, r):
    # root -> CA-A (pathLenConstraint 0) -> CA-B -> leaf: CA-A may not have a CA below it
    s.n_inter = 2
    s.k["pki_kw"] = dict(s.k.get("pki_kw", {}), inter_pathlen0=True)
def ch_path_length_exceeded_and(other):
    def f(s, r):
        other(s, r)
        s.n_inter = 2
        s.k["pki_kw"] = dict(s.k.get("pki_kw", {}), inter_pathlen0=True)
    return f
def ch_expired_root_redated_copy(s, r):
    # the RP's root is outside its validity period; x5c ends with a certificate that has the root's subject AND public key but other dates (anybody can write such a certificate -
    # a trust anchor's self-signature is never checked): the response does not get to re-date the RP's anchor
    s.k["pki_kw"] = dict(root_nb=T0 - 4000 * DAY, root_na=T0 - 10) if r.random() < 0.5 else dict(root_nb=T0 + 10, root_na=T0 + 4000 * DAY)
    ak = regsim.ec_key("attacker_ca")
    def x5c(pki, leaf):
        copy_ = regsim.make_cert(pki.root_name, pki.root_name, pki.root_key.public_key(), ak, ca=True, nb=T0 - 10 * DAY, na=T0 + 3000 * DAY, serial=r.choice([4242, 4243]))
        return pki.chain_der(leaf) + [regsim.der(copy_)]
    s.k["x5c_override"] = x5c
def ch_aki_issuer_serial_only(fault):
    def f(s, r):
        fault(s, r)
        # the certificate at the top of x5c names its issuer by issuer-and-serial only (an AuthorityKeyIdentifier without a key identifier - RFC 5280 allows it)
        s.n_inter = 0
        s.k["leaf_aki_issuer_serial"] = True
    return f
def ch_surrogate_self_signed(s, r):
    # "surrogate basic attestation": x5c = one self-signed certificate over the CREDENTIAL key, statement signed with the credential key.
    # With anchors in force it chains to none of them.
    c = Cred(s.kind)
    cert = regsim.make_cert(regsim.name("Surrogate"), regsim.name("Surrogate"), c.pk, c.sk, ca=False)
    s.k["x5c_override"] = lambda pki, leaf: [regsim.der(cert)]
    s.k["att_signer"] = c
    s.k["att_alg"] = c.alg
    s.k["att_scheme"] = c.scheme
def ch_pinned_leaf_expired(s, r):
    s.roots_mode = r.choice(["pin-leaf", "pin-leaf-and-root"]); s.k["leaf_nb"], s.k["leaf_na"] = T0 - 400 * DAY, T0 - 1
def ch_pinned_selfsigned_leaf_expired(s, r):
    ch_self_signed_leaf(s, r); s.roots_mode = "pin-leaf"; s.k["leaf_nb"], s.k["leaf_na"] = T0 - 400 * DAY, T0 - 1
def ch_pinned_leaf_future(s, r):
    s.roots_mode = "pin-leaf-and-root"; s.k["leaf_nb"], s.k["leaf_na"] = T0 + 60, T0 + 400 * DAY

for _n in ("challenge-other", "challenge-empty", "allApplications-tee", "allApplications-software", "origin-imported", "origin-absent", "purpose-verify", "purpose-absent", "extension-absent"):
    FORMAT_FAULTS["android-key"][_n + ":a-ca-certificate-above-carries-a-clean-key-description"] = _ca_carries_a_clean_key_description(FORMAT_FAULTS["android-key"][_n])
CHAIN_FAULTS = {
    "legacy-root-without-basic-constraints:corrupted-signature": ch_nobc_root_bad_sig,
    "legacy-root-without-basic-constraints:expired-leaf": ch_nobc_root_expired_leaf,
    "impostor-root-same-name": ch_impostor_root, "expired-leaf": ch_expired_leaf, "not-yet-valid-leaf": ch_future_leaf,
    "expired-intermediate": ch_expired_inter, "not-yet-valid-intermediate": ch_future_inter, "expired-root": ch_expired_root,
    "not-yet-valid-root": ch_future_root, "corrupted-signature": ch_bad_signature, "missing-intermediate": ch_missing_inter,
    "non-ca-intermediate": ch_non_ca_inter,
    "attacker-ca-first-genuine-chain-as-intermediates": ch_attacker_ca_first,
    "impostor-root-clone-closing-x5c": ch_impostor_clone_closing_x5c, "proxy-certificate-issued-by-an-end-entity-certificate": ch_proxy_certificate, "path-length-exceeded": ch_path_length_exceeded,
    "path-length-exceeded:expired-leaf": ch_path_length_exceeded_and(ch_expired_leaf), "path-length-exceeded:not-yet-valid-leaf": ch_path_length_exceeded_and(ch_future_leaf),
    "expired-root:redated-copy-of-the-root-closing-x5c": ch_expired_root_redated_copy, "out-of-date-leaf-beside-a-valid-sibling-certificate": ch_out_of_date_leaf_beside_valid_sibling,
    "impostor-root-same-name:aki-with-issuer-and-serial-only": ch_aki_issuer_serial_only(ch_impostor_root), "expired-leaf:aki-with-issuer-and-serial-only": ch_aki_issuer_serial_only(ch_expired_leaf), "expired-leaf:valid-since-the-epoch": ch_expired_leaf_since_epoch, "not-yet-valid-leaf:valid-until-9999": ch_future_leaf_forever,
    "expired-intermediate:leaf-valid-until-9999": ch_expired_inter_leaf_forever, "expired-root:leaf-valid-until-9999": ch_expired_root_leaf_forever, "self-signed-certificate-over-the-credential-key": ch_surrogate_self_signed, "pinned-leaf-expired": ch_pinned_leaf_expired, "pinned-leaf-not-yet-valid": ch_pinned_leaf_future,
}
# the same faults on chains whose root is an X.509 VERSION 1 certificate, and on chains whose leaf spells its issuer's name differently (same name to X.509 matching)
def _with_k(fault, **kv):
    def f(s, r):
        fault(s, r)
        for k_, v_ in kv.items():
            if k_ == "pki_kw":
                s.k["pki_kw"] = dict(s.k.get("pki_kw", {}), **v_)
            else:
                s.k[k_] = v_
    return f
for _n in ("expired-root", "not-yet-valid-root", "expired-leaf", "expired-intermediate"):
    CHAIN_FAULTS[_n + ":x509-v1-root"] = _with_k(CHAIN_FAULTS[_n], pki_kw=dict(root_v1=True))
for _n in ("expired-leaf", "not-yet-valid-leaf", "expired-root", "corrupted-signature"):
    CHAIN_FAULTS[_n + ":issuer-name-in-another-spelling"] = _with_k(CHAIN_FAULTS[_n], leaf_issuer_respelled=True)
# the same faults with unrecognised (non-critical) extensions on the leaf - see _extension_decor
for _n in ("expired-leaf", "not-yet-valid-leaf", "expired-intermediate", "expired-root", "impostor-root-same-name", "missing-intermediate"):
    CHAIN_FAULTS[_n + ":leaf-with-unrecognised-extensions"] = _decorated(CHAIN_FAULTS[_n])
# chain faults whose no-anchor (pass-through) variant is not simply "accepted"
# chain faults whose x5c necessarily holds more than one certificate (fido-u2f statements hold exactly one)
MULTI_CERT_FAULTS = {"proxy-certificate-issued-by-an-end-entity-certificate", "out-of-date-leaf-beside-a-valid-sibling-certificate", "path-length-exceeded", "path-length-exceeded:expired-leaf", "path-length-exceeded:not-yet-valid-leaf",
                     "expired-root:redated-copy-of-the-root-closing-x5c", "impostor-root-clone-closing-x5c"}
NO_PASSTHROUGH_VARIANT = {"out-of-date-leaf-beside-a-valid-sibling-certificate", "impostor-root-same-name", "proxy-certificate-issued-by-an-end-entity-certificate", "impostor-root-clone-closing-x5c", "impostor-root-same-name:aki-with-issuer-and-serial-only", "impostor-root-same-name:leaf-with-unrecognised-extensions", "attacker-ca-first-genuine-chain-as-intermediates", "self-signed-certificate-over-the-credential-key"}


def applicable_kinds(fmt):
    if fmt == "fido-u2f":
        return ["ES256-P256"]
    if fmt == "tpm":
        return [k for k in authsim.KINDS if k != "EdDSA"]
    return list(authsim.KINDS)


def att_kinds(fmt):
    if fmt in ("packed", "tpm"):
        return ["ES256-P256", "RS256", "ES256-P384", "PS256", "RS384", "ES512-P521", "RS1", "EdDSA"]
    return ["ES256-P256"]
