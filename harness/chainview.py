"""Abstract view of real X.509 certificates for Spec/ChainSpec.v (xcert) and the cross-check of OpenSSL's verdict
against the executable path search `chain_acceptable_b` (proved equivalent to the declarative ChainAcceptable).

The view is the abstraction function of C04's stated hypothesis about OpenSSL: subject / issuer as DER names,
validity as epoch seconds, CA capability as OpenSSL's X509_check_ca reads it, the subject key as an id, and
`signed_by` = id of the candidate key under which the certificate's signature verifies (0 = none)."""
import hashlib
from cryptography import x509
from cryptography.hazmat.primitives import serialization
from cryptography.hazmat.primitives.asymmetric import ec, rsa, ed25519, padding
from harness import fw


def key_id(pk):
    spki = pk.public_bytes(serialization.Encoding.DER, serialization.PublicFormat.SubjectPublicKeyInfo)
    return int.from_bytes(hashlib.sha256(spki).digest()[:7], "big") + 1


def sig_ok(cert, pk):
    try:
        if isinstance(pk, rsa.RSAPublicKey):
            pk.verify(cert.signature, cert.tbs_certificate_bytes, padding.PKCS1v15(), cert.signature_hash_algorithm)
        elif isinstance(pk, ec.EllipticCurvePublicKey):
            pk.verify(cert.signature, cert.tbs_certificate_bytes, ec.ECDSA(cert.signature_hash_algorithm))
        elif isinstance(pk, ed25519.Ed25519PublicKey):
            pk.verify(cert.signature, cert.tbs_certificate_bytes)
        else:
            return False
        return True
    except Exception:
        return False


def is_ca(cert):
    """X509_check_ca != 0: basicConstraints CA, else a v1 self-issued certificate, else keyUsage keyCertSign"""
    try:
        return bool(cert.extensions.get_extension_for_class(x509.BasicConstraints).value.ca)
    except x509.ExtensionNotFound:
        pass
    if cert.version == x509.Version.v1:
        return cert.subject == cert.issuer
    try:
        return bool(cert.extensions.get_extension_for_class(x509.KeyUsage).value.key_cert_sign)
    except x509.ExtensionNotFound:
        return False


def canon_name(nm):
    """the distinguished name as X.509 name matching compares it (OpenSSL's x509_name_canon / RFC 5280 7.1): per attribute the OID and the value with its string type
    ignored, ASCII letters folded to lower case, leading / trailing blanks dropped and runs of blanks collapsed; RDN structure kept"""
    import re as _re
    out = []
    for rdn in nm.rdns:
        parts = []
        for a in rdn:
            v = a.value
            if isinstance(v, bytes):
                parts.append((a.oid.dotted_string, "b:" + v.hex()))
            else:
                v2 = _re.sub(r"[ \t\n\r\f\v]+", " ", v.strip(" \t\n\r\f\v"))
                parts.append((a.oid.dotted_string, "".join(ch.lower() if ch.isascii() else ch for ch in v2)))
        out.append(tuple(sorted(parts)))
    return repr(tuple(out)).encode("utf-8")


def epoch(dt):
    import calendar
    return calendar.timegm(dt.utctimetuple())


def views(x5c_der, roots_pem):
    """-> (list of xcert wire strings for x5c, same for anchors), or None when a certificate does not load"""
    try:
        xs = [x509.load_der_x509_certificate(d) for d in x5c_der]
        rs = [x509.load_pem_x509_certificate(p) for p in roots_pem]
    except Exception:
        return None
    cands = []
    for c in xs + rs:
        pk = c.public_key()
        kid = key_id(pk)
        if all(k != kid for k, _ in cands):
            cands.append((kid, pk))

    def view(c):
        sb = 0
        for kid, pk in cands:
            if sig_ok(c, pk):
                sb = kid
                break
        return " ".join([fw.wb(canon_name(c.subject)), fw.wb(canon_name(c.issuer)), fw.wi(epoch(c.not_valid_before_utc)), fw.wi(epoch(c.not_valid_after_utc)),
                         fw.wbool(is_ca(c)), fw.wi(key_id(c.public_key())), fw.wi(sb)])
    return [view(c) for c in xs], [view(c) for c in rs]


def spec_verdict(R, now, x5c_der, roots_pem):
    """chain_acceptable_b on the abstract views, evaluated by the extracted model; None when not applicable"""
    v = views(x5c_der, roots_pem)
    if v is None or R is None:
        return None
    xs, rs = v
    out = R.call(" ".join(["chainspec", fw.wi(now), str(len(xs))] + xs + [str(len(rs))] + rs))
    return out == "T"


def cross_check(chk, R, chain_log):
    """OpenSSL's verdict on every chain the model asked about against the executable path search on the abstract
    views.  The direction C04's hypothesis needs (OpenSSL accepts => the spec accepts) is an obligation; the converse
    is recorded (a spec-acceptable chain OpenSSL refuses only costs completeness)."""
    seen = set()
    agree = sound_bad = complete_bad = skipped = 0
    for now, x5c, roots, verdict in chain_log:
        key = (now, tuple(x5c), tuple(roots))
        if key in seen or verdict not in ("OK", "INVALID"):
            continue
        seen.add(key)
        try:
            sv = spec_verdict(R, now, x5c, roots)
        except Exception:
            sv = None
        if sv is None:
            skipped += 1
            continue
        chk.evals += 1
        if (verdict == "OK") == sv:
            agree += 1
        elif verdict == "OK":
            sound_bad += 1
            chk.diverge("hypothesis openssl_spec (Proofs/ChainProofs.v): OpenSSL accepted a chain that is not ChainAcceptable on the abstract view",
                        f"clock {now} x5c {len(x5c)} certificates, {len(roots)} anchors", {"now": now, "x5c": [c.hex() for c in x5c], "roots": [r.decode("latin1") for r in roots]})
        else:
            complete_bad += 1
    chk.notes.append({"openssl_vs_path_spec": {"distinct_chains": len(seen), "agree": agree, "openssl_accepts_spec_rejects": sound_bad,
                                               "spec_accepts_openssl_rejects": complete_bad, "not_viewable": skipped}})
    chk.count(f"path-spec cross-check: agree={agree} spec-only={complete_bad}")
