"""Iterators over the C01-C04 catalogues, reused by C18/C19/C20."""
import itertools
from harness import authsim, authcat, regsim, regcat, regrun, impl


def extra_sig_faults():
    def raw_rs(s, r):
        def post(a): a.sig = bytes(64)
        s.post = post
    def trailing(s, r):
        def post(a): a.sig = a.sig + b"\x00"
        s.post = post
    def one_byte(s, r):
        def post(a): a.sig = b"\x30"
        s.post = post
    def empty(s, r):
        def post(a): a.sig = b""
        s.post = post
    def bad_tag(s, r):
        def post(a): a.sig = bytes([a.sig[0] ^ 0x10]) + a.sig[1:]
        s.post = post
    return {"signature-raw-zeros": raw_rs, "signature-trailing-byte": trailing, "signature-one-byte": one_byte, "signature-empty": empty, "signature-first-byte": bad_tag}


def auth_cases(rng, quick, kinds=None, pairs=True):
    """yields (label, policy, assertion, form, expect)"""
    kinds = kinds or list(authsim.KINDS)
    faults = dict(authcat.FAULTS)
    faults.update(extra_sig_faults())
    names = list(faults)
    for i, name in enumerate(names):
        ks = kinds if not quick else [kinds[i % len(kinds)], "ES256-P256", "RS256", "EdDSA"]
        for kind in ks:
            s = authcat.Scn(kind)
            if i % 2:
                s.require_uv = True
                s.flags |= 0x04
            authcat.apply(faults, name, s, scope="all:")
            pol, a = s.build()
            form = "record" if name in authcat.RECORD_ONLY else rng.choice(("text", "dict", "record"))
            yield name, pol, a, form, "reject"
        while authcat.variants_left(name, scope="all:"):
            s = authcat.Scn("ES256-P256")
            authcat.apply(faults, name, s, scope="all:")
            pol, a = s.build()
            yield name, pol, a, ("record" if name in authcat.RECORD_ONLY else "dict"), "reject"
    for kind in kinds:
        s = authcat.base_variation(authcat.Scn(kind), rng)
        pol, a = s.build()
        yield "baseline", pol, a, rng.choice(("text", "dict", "record")), "accept"
    # the whole policy lattice against every UP/UV flag combination (verdict by the flag table)
    for fl in (0x00, 0x01, 0x04, 0x05):
        for ruv in (False, True):
            s = authcat.Scn(kinds[(fl + ruv) % len(kinds)])
            s.flags, s.require_uv = fl, ruv
            pol, a = s.build()
            ok = bool(fl & 1) and (not ruv or bool(fl & 4))
            yield f"policy-lattice flags={fl:#04x} uv_required={ruv}", pol, a, rng.choice(("text", "dict", "record")), ("accept" if ok else "reject")
    if pairs:
        ps = list(itertools.combinations(names, 2))
        rng.shuffle(ps)
        for n1, n2 in ps[: (40 if quick else 400)]:
            s = authcat.Scn(rng.choice(kinds))
            faults[n1](s, rng)
            faults[n2](s, rng)
            pol, a = s.build()
            form = "record" if (n1 in authcat.RECORD_ONLY or n2 in authcat.RECORD_ONLY) else rng.choice(("text", "dict", "record"))
            yield n1 + "+" + n2, pol, a, form, "reject"


def reg_cases(rng, quick, pairs=True):
    """yields (label, policy, registration, form, expect, scn)"""
    for fmt in regsim.FORMATS:
        kinds = regcat.applicable_kinds(fmt)
        akinds = regcat.att_kinds(fmt)
        s = regsim.RScn(fmt, kinds[0])
        pd, reg = regsim.build(s)
        yield f"baseline/{fmt}", regrun.policy_of(pd), reg, "dict", "accept", s
        if fmt == "packed":
            s = regsim.RScn(fmt, kinds[0])
            s.k["leaf_no_bc"] = True
            pd, reg = regsim.build(s)
            yield f"baseline/{fmt}/leaf-without-basic-constraints", regrun.policy_of(pd), reg, "dict", "accept", s
            s = regsim.RScn(fmt, kinds[0])
            s.k["leaf_no_bc"] = True
            regcat.att_other_key(s, rng)
            pd, reg = regsim.build(s)
            yield f"signed-by-other-key/{fmt}/leaf-without-basic-constraints", regrun.policy_of(pd), reg, "dict", "reject", s
        if fmt == "packed-self":
            # every variant of every ceremony-level entry at least once (the entry's own generator walks through them)
            for name in regcat.CEREMONY:
                while authcat.variants_left(name, scope="allreg:"):
                    s = regsim.RScn(fmt, "ES256-P256")
                    authcat.apply(regcat.CEREMONY, name, s, scope="allreg:")
                    pd, reg = regsim.build(s)
                    yield f"{name}/{fmt}", regrun.policy_of(pd), reg, ("record" if name in regcat.RECORD_ONLY else "dict"), "reject", s
        for i, (name, f) in enumerate(regcat.CEREMONY.items()):
            if quick and (i + regsim.FORMATS.index(fmt)) % 2:
                continue
            s = regsim.RScn(fmt, kinds[i % len(kinds)])
            authcat.apply(regcat.CEREMONY, name, s, scope="allreg:")
            pd, reg = regsim.build(s)
            yield f"{name}/{fmt}", regrun.policy_of(pd), reg, ("record" if name in regcat.RECORD_ONLY else rng.choice(("text", "dict", "record"))), "reject", s

        for i, (name, f) in enumerate(regcat.FORMAT_FAULTS.get(fmt, {}).items()):
            kind = kinds[i % len(kinds)]
            if regcat.NEEDS_FAMILY.get(name) and authsim.KINDS[kind][0] != regcat.NEEDS_FAMILY[name]:
                kind = "ES256-P256"
            s = regsim.RScn(fmt, kind, akinds[i % len(akinds)])
            f(s, rng)
            pd, reg = regsim.build(s)
            yield f"{name}/{fmt}", regrun.policy_of(pd), reg, rng.choice(("dict", "record")), "reject", s
        # the whole policy lattice against every UP/UV flag combination (verdict by the flag table)
        if not quick or fmt in ("none", "packed", "apple"):
            for fl in (0x40, 0x41, 0x44, 0x45):
                for rup in (False, True):
                    for ruv in (False, True):
                        s = regsim.RScn(fmt, kinds[0])
                        s.flags, s.require_up, s.require_uv = fl, rup, ruv
                        pd, reg = regsim.build(s)
                        ok = (bool(fl & 1) or not rup) and (bool(fl & 4) or not ruv)
                        yield f"policy-lattice flags={fl:#04x} up_required={rup} uv_required={ruv}/{fmt}", regrun.policy_of(pd), reg, "dict", ("accept" if ok else "reject"), s
        if fmt in regsim.X5C_FORMATS:
            for name, f in regcat.CHAIN_FAULTS.items():
                if fmt == "fido-u2f" and ("intermediate" in name or name in regcat.MULTI_CERT_FAULTS):
                    continue
                s = regsim.RScn(fmt, "ES256-P256")
                s.n_inter = 0 if fmt == "fido-u2f" else 1
                f(s, rng)
                pd, reg = regsim.build(s)
                yield f"{name}/{fmt}", regrun.policy_of(pd), reg, "dict", "reject", s
        if pairs and not quick:
            names = list(regcat.CEREMONY) + list(regcat.FORMAT_FAULTS.get(fmt, {}))
            allf = dict(regcat.CEREMONY)
            allf.update(regcat.FORMAT_FAULTS.get(fmt, {}))
            ps = list(itertools.combinations(names, 2))
            rng.shuffle(ps)
            for n1, n2 in ps[:60]:
                s = regsim.RScn(fmt, rng.choice(kinds), rng.choice(akinds))
                try:
                    allf[n1](s, rng)
                    allf[n2](s, rng)
                    pd, reg = regsim.build(s)
                except Exception:
                    continue
                yield f"{n1}+{n2}/{fmt}", regrun.policy_of(pd), reg, ("record" if (n1 in regcat.RECORD_ONLY or n2 in regcat.RECORD_ONLY) else "dict"), "reject", s
