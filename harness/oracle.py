"""Reference answers to the model's ASK queries.  Independent of webauthn.helpers: direct hashlib,
direct `cryptography` calls with an explicitly named hash and padding, own X.509 field extraction,
json.loads, OpenSSL store verification."""
import hashlib, json
from harness import fw
from cryptography.hazmat.primitives.asymmetric import ec, rsa, ed25519, padding, dsa, ed448, x25519
from cryptography.hazmat.primitives import hashes, serialization
from cryptography.exceptions import InvalidSignature
from cryptography import x509

CURVES = {1: ec.SECP256R1, 2: ec.SECP384R1, 3: ec.SECP521R1}
CURVE_IDS = {"secp256r1": 1, "secp384r1": 2, "secp521r1": 3}
HASHES = {"SHA1": hashes.SHA1, "SHA256": hashes.SHA256, "SHA384": hashes.SHA384, "SHA512": hashes.SHA512}
HL = {"SHA1": hashlib.sha1, "SHA256": hashlib.sha256, "SHA384": hashlib.sha384, "SHA512": hashlib.sha512}


# ---- JSON <-> wire ----
_float_ids = {}


def json_to_wire(j, depth=0):
    if depth > 200:
        raise RecursionError("too deep for the wire")
    if j is None:
        return "jn"
    if j is True:
        return "jt"
    if j is False:
        return "jf"
    if isinstance(j, int):
        return "ji " + fw.wi(j)
    if isinstance(j, float):
        k = repr(j)
        fid = _float_ids.setdefault(k, len(_float_ids) + 1)
        return "jd " + fw.wi(fid)
    if isinstance(j, str):
        return "js " + fw.ws(j)
    if isinstance(j, (list, tuple)):
        return f"ja {len(j)}" + "".join(" " + json_to_wire(x, depth + 1) for x in j)
    if isinstance(j, dict):
        out = f"jo {len(j)}"
        for k, v in j.items():
            if not isinstance(k, str):
                raise TypeError("non-str key")
            out += " " + fw.ws(k) + " " + json_to_wire(v, depth + 1)
        return out
    raise TypeError(f"not a JSON value: {type(j)}")


class Toks:
    def __init__(self, line):
        self.t = line.split()
        self.i = 0

    def next(self):
        x = self.t[self.i]
        self.i += 1
        return x

    def rest(self):
        return self.t[self.i:]


def rd_json(T):
    t = T.next()
    if t == "jn":
        return None
    if t == "jt":
        return True
    if t == "jf":
        return False
    if t == "ji":
        return fw.rd_i(T.next())
    if t == "jd":
        return ("float", fw.rd_i(T.next()))
    if t == "js":
        return fw.rd_s(T.next())
    if t == "ja":
        n = int(T.next())
        return [rd_json(T) for _ in range(n)]
    if t == "jo":
        n = int(T.next())
        d = {}
        for _ in range(n):
            k = fw.rd_s(T.next())
            d[k] = rd_json(T)
        return d
    raise ValueError("json token " + t)


# ---- keys ----
def rd_key(T):
    k = T.next()
    if k == "EC":
        return ("EC", fw.rd_i(T.next()), fw.rd_i(T.next()), fw.rd_i(T.next()))
    if k == "RSA":
        return ("RSA", fw.rd_i(T.next()), fw.rd_i(T.next()))
    if k == "ED":
        return ("ED", fw.rd_b(T.next()))
    if k == "OTHER":
        return ("OTHER", fw.rd_i(T.next()))
    raise ValueError("key " + k)


_other_keys = {}   # tag -> cryptography key object (for certificate keys of unsupported kinds)


def key_to_wire(pk):
    if isinstance(pk, ec.EllipticCurvePublicKey):
        n = pk.public_numbers()
        cid = CURVE_IDS.get(pk.curve.name)
        if cid is None:
            cid = -(1 + (int.from_bytes(hashlib.sha256(pk.curve.name.encode()).digest()[:4], "big")))
            _other_curves[cid] = type(pk.curve)
        return f"EC {fw.wi(cid)} {fw.wi(n.x)} {fw.wi(n.y)}"
    if isinstance(pk, rsa.RSAPublicKey):
        n = pk.public_numbers()
        return f"RSA {fw.wi(n.n)} {fw.wi(n.e)}"
    if isinstance(pk, ed25519.Ed25519PublicKey):
        return "ED " + fw.wb(pk.public_bytes(serialization.Encoding.Raw, serialization.PublicFormat.Raw))
    der = pk.public_bytes(serialization.Encoding.DER, serialization.PublicFormat.SubjectPublicKeyInfo)
    tag = int.from_bytes(hashlib.sha256(der).digest()[:6], "big")
    _other_keys[tag] = pk
    return "OTHER " + fw.wi(tag)


_other_curves = {}


def build_key(k):
    """abstract key -> cryptography object (raises if the numbers are not acceptable)"""
    if k[0] == "EC":
        cv = CURVES.get(k[1]) or _other_curves.get(k[1])
        if cv is None:
            raise ValueError("unknown curve id")
        return ec.EllipticCurvePublicNumbers(k[2], k[3], cv()).public_key()
    if k[0] == "RSA":
        return rsa.RSAPublicNumbers(k[2], k[1]).public_key()
    if k[0] == "ED":
        return ed25519.Ed25519PublicKey.from_public_bytes(k[1])
    return _other_keys[k[1]]


def ref_verify(k, scheme, sig, msg):
    try:
        pk = build_key(k)
    except Exception:
        return False
    try:
        if scheme.startswith("ECDSA-"):
            pk.verify(sig, msg, ec.ECDSA(HASHES[scheme[6:]]()))
        elif scheme.startswith("PKCS1-"):
            pk.verify(sig, msg, padding.PKCS1v15(), HASHES[scheme[6:]]())
        elif scheme.startswith("PSS-"):
            h = HASHES[scheme[4:]]()
            pk.verify(sig, msg, padding.PSS(mgf=padding.MGF1(h), salt_length=padding.PSS.MAX_LENGTH), h)
        elif scheme == "ED25519":
            pk.verify(sig, msg)
        else:
            return False
        return True
    except InvalidSignature:
        return False
    except Exception:
        return False


# ---- certificates ----
def cert_to_wire(der):
    try:
        return _cert_to_wire(der)
    except Exception:
        return "N"          # lazily failing fields (corrupted DER): treated as unparseable (ValueError)


def _cert_to_wire(der):
    try:
        c = x509.load_der_x509_certificate(der)
    except Exception:
        return "N"
    pk = c.public_key()
    out = ["Y", key_to_wire(pk)]
    out.append(fw.wb(pk.public_bytes(serialization.Encoding.DER, serialization.PublicFormat.SubjectPublicKeyInfo)))
    out.append(fw.wb(c.public_bytes(serialization.Encoding.PEM)))
    out.append(fw.wi({x509.Version.v1: 1, x509.Version.v3: 3}[c.version]))
    out.append(fw.wi(len(c.subject)))
    cns = [a.value if isinstance(a.value, str) else a.value.decode("latin1") for a in c.subject.get_attributes_for_oid(x509.oid.NameOID.COMMON_NAME)]
    out.append(str(len(cns)) + "".join(" " + fw.ws(x) for x in cns))
    exts = c.extensions
    try:
        san = exts.get_extension_for_oid(x509.oid.ExtensionOID.SUBJECT_ALTERNATIVE_NAME).value
        names = list(san)
        if not names:
            out.append("EMPTY")
        elif isinstance(names[0], x509.DirectoryName):
            attrs = [(a.oid.dotted_string, str(a.value)) for a in names[0].value]
            out.append(f"DIR {len(attrs)}" + "".join(" " + fw.ws(o) + " " + fw.ws(v) for o, v in attrs))
        else:
            out.append("NOTDIR")
    except x509.ExtensionNotFound:
        out.append("ABSENT")
    try:
        eku = exts.get_extension_for_oid(x509.oid.ExtensionOID.EXTENDED_KEY_USAGE).value
        oids = [o.dotted_string for o in eku]
        out.append(f"Y {len(oids)}" + "".join(" " + fw.ws(o) for o in oids))
    except x509.ExtensionNotFound:
        out.append("N")
    try:
        bc = exts.get_extension_for_oid(x509.oid.ExtensionOID.BASIC_CONSTRAINTS).value
        out.append("Y " + fw.wbool(bool(bc.ca)))
    except x509.ExtensionNotFound:
        out.append("N")
    try:
        ap = exts.get_extension_for_oid(x509.ObjectIdentifier("1.2.840.113635.100.8.2")).value
        out.append("Y " + fw.wb(ap.value))
    except x509.ExtensionNotFound:
        out.append("N")
    try:
        ak = exts.get_extension_for_oid(x509.ObjectIdentifier("1.3.6.1.4.1.11129.2.1.17")).value
        out.append("Y " + android_kd_to_wire(ak.value))
    except x509.ExtensionNotFound:
        out.append("N")
    return " ".join(out)


def android_kd_to_wire(raw):
    """Own reading of the KeyDescription SEQUENCE: minimal DER walk (independent of the library's
    asn1crypto schema) for attestationChallenge, and per authorization list: presence of tag 600
    (allApplications), value of tag 702 (origin), members of tag 1 (purpose)."""
    try:
        items = der_seq_items(der_unwrap(raw, 0x30))
        # attestationVersion, attestationSecurityLevel, keymasterVersion, keymasterSecurityLevel,
        # attestationChallenge, uniqueId, softwareEnforced, teeEnforced
        ch = items[4]
        assert ch[0] == 0x04
        sw = auth_list(items[6][2])
        tee = auth_list(items[7][2])
        out = [fw.wb(ch[2]), fw.wbool(sw["all"]), fw.wbool(tee["all"])]
        out.append("N" if tee["origin"] is None else "Y " + fw.wi(tee["origin"]))
        out.append("N" if tee["purpose"] is None else f"Y {len(tee['purpose'])}" + "".join(" " + fw.wi(p) for p in tee["purpose"]))
        return "Y " + " ".join(out)
    except Exception:
        return "N"


def der_read(buf, i):
    """-> (tagclass_constructed_byte, tagnumber, content, next_index)"""
    b0 = buf[i]
    i += 1
    tagnum = b0 & 0x1F
    if tagnum == 0x1F:
        tagnum = 0
        while True:
            b = buf[i]
            i += 1
            tagnum = (tagnum << 7) | (b & 0x7F)
            if not b & 0x80:
                break
    l = buf[i]
    i += 1
    if l & 0x80:
        n = l & 0x7F
        l = int.from_bytes(buf[i:i + n], "big")
        i += n
    if i + l > len(buf):
        raise ValueError("truncated")
    return b0, tagnum, buf[i:i + l], i + l


def der_unwrap(buf, tag):
    b0, tn, content, j = der_read(buf, 0)
    if b0 != tag:
        raise ValueError("tag")
    return content


def der_seq_items(content):
    out = []
    i = 0
    while i < len(content):
        b0, tn, c, i = der_read(content, i)
        out.append((b0, tn, c))
    return out


def auth_list(content):
    r = {"all": False, "origin": None, "purpose": None}
    for b0, tn, c in der_seq_items(content):
        if b0 & 0xC0 != 0x80:
            continue
        if tn == 600:
            r["all"] = True
        elif tn == 702:
            _, _, v, _ = der_read(c, 0)
            r["origin"] = int.from_bytes(v, "big", signed=True)
        elif tn == 1:
            _, _, setc, _ = der_read(c, 0)
            r["purpose"] = [int.from_bytes(v, "big", signed=True) for (_, _, v) in der_seq_items(setc)]
    return r


def ref_chain(now, x5c, roots):
    """OpenSSL store verification of the same certificates at the simulated time."""
    from OpenSSL.crypto import X509, X509Store, X509StoreContext, X509StoreContextError, load_certificate, FILETYPE_PEM
    import datetime
    try:
        leaf = X509.from_cryptography(x509.load_der_x509_certificate(x5c[0]))
        inter = [X509.from_cryptography(x509.load_der_x509_certificate(c)) for c in x5c[1:]]
        store = X509Store()
        if now is not None:
            store.set_time(datetime.datetime.fromtimestamp(now, datetime.timezone.utc).replace(tzinfo=None))
        for r in roots:
            store.add_cert(load_certificate(FILETYPE_PEM, r))
    except Exception:
        return "INVALID"
    try:
        X509StoreContext(store, leaf, inter).verify_certificate()
        return "OK"
    except X509StoreContextError:
        return "INVALID"
    except Exception:
        return "OTHER"


class Oracle:
    """Callable answering ASK lines; memoises per instance; counts kinds."""

    def __init__(self):
        self.memo = {}
        self.counts = {}
        self.log = None
        self.chain_log = None          # set to [] to record every (clock, x5c, anchors, OpenSSL verdict) the model asked about

    def __call__(self, q):
        if q in self.memo:
            return self.memo[q]
        a = self.answer(q)
        self.memo[q] = a
        if len(self.memo) > 20000:
            self.memo.clear()
        return a

    def answer(self, q):
        T = Toks(q)
        kind = T.next()
        self.counts[kind] = self.counts.get(kind, 0) + 1
        if kind == "hash":
            h = T.next()
            return fw.wb(HL[h](fw.rd_b(T.next())).digest())
        if kind == "json":
            is_text = T.next() == "T"
            tok = T.next()
            data = fw.rd_s(tok) if is_text else fw.rd_b(tok)
            try:
                j = json.loads(data)
            except json.JSONDecodeError:
                return "DECODE"
            except ValueError:          # UnicodeDecodeError; "Exceeds the limit (4300 digits) for integer string conversion"
                return "UNICODE"
            except Exception:
                return "OTHER"
            try:
                return "OK " + json_to_wire(j)
            except Exception:
                return "OTHER"
        if kind == "keyok":
            k = rd_key(T)
            try:
                build_key(k)
                return "T"
            except Exception:
                return "F"
        if kind == "verify":
            k = rd_key(T)
            sch = T.next()
            sig = fw.rd_b(T.next())
            msg = fw.rd_b(T.next())
            return fw.wbool(ref_verify(k, sch, sig, msg))
        if kind == "spki":
            k = rd_key(T)
            try:
                pk = build_key(k)
                return fw.wb(pk.public_bytes(serialization.Encoding.DER, serialization.PublicFormat.SubjectPublicKeyInfo))
            except Exception:
                return "b:"
        if kind == "cert":
            return cert_to_wire(fw.rd_b(T.next()))
        if kind == "chain":
            now = fw.rd_i(T.next())
            n = int(T.next())
            x5c = [fw.rd_b(T.next()) for _ in range(n)]
            m = int(T.next())
            roots = [fw.rd_b(T.next()) for _ in range(m)]
            v = ref_chain(now, x5c, roots)
            if self.chain_log is not None and len(self.chain_log) < 20000:
                self.chain_log.append((now, x5c, roots, v))
            return v
        raise ValueError("unknown ASK " + q[:80])
