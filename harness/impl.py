"""Calls into the implementation under test (/repo working tree) and canonicalises outcomes in the
model's wire vocabulary.  Also encodes inputs for the model runner."""
from harness import fw
from harness.oracle import json_to_wire  # noqa (re-exported)


KEPT = []               # (result object, printer, the line it printed to when it was returned): re-printed at the end of the check (fw.finish)
KEEP_ENABLED = True     # checks that deliberately edit the objects they are handed (C15, C18) switch this off and do their own value-semantics checks
KEEP_MAX = 600
_KEPT_N = [0]


def outcome(f, pr):
    try:
        r = f()
    except RecursionError:
        return "ERR Py:Other"
    except Exception as e:
        return "ERR " + fw.classify_exc(e)
    try:
        line = "OK " + pr(r)
    except Exception as e:
        return "OK <unprintable result: %s %s>" % (type(e).__name__, e)
    if KEEP_ENABLED and len(line) < 4000 and r is not None and not isinstance(r, (bytes, str, int, bool, tuple)):
        if len(KEPT) < KEEP_MAX:
            KEPT.append((r, pr, line))
        else:
            _KEPT_N[0] += 1
            if _KEPT_N[0] % 5 == 0:          # keep sampling later results too
                KEPT[100 + (_KEPT_N[0] // 5) % (KEEP_MAX - 100)] = (r, pr, line)
    return line


def dump(o, depth=0):
    """deterministic structural print of a result object (dataclass attributes, enums by name, bytes as hex)"""
    import enum
    if depth > 6:
        return "..."
    if isinstance(o, enum.Enum):
        return f"{type(o).__name__}.{o.name}"
    if isinstance(o, (bytes, bytearray, memoryview)):
        return "b:" + bytes(o).hex()
    if isinstance(o, (str, int, float, bool)) or o is None:
        return repr(o)
    if isinstance(o, (list, tuple)):
        return "[" + ", ".join(dump(x, depth + 1) for x in o) + "]"
    if isinstance(o, dict):
        return "{" + ", ".join(f"{dump(k, depth + 1)}: {dump(v, depth + 1)}" for k, v in o.items()) + "}"
    if hasattr(o, "__dict__"):
        return type(o).__name__ + "(" + ", ".join(f"{k}={dump(v, depth + 1)}" for k, v in sorted(vars(o).items())) + ")"
    return type(o).__name__


def vandalise_any(o, depth=0):
    """what a caller may do to an object it was handed: every attribute overwritten in place, every list emptied and refilled, recursively"""
    import enum
    if depth > 4 or o is None or isinstance(o, (bytes, str, int, float, bool, enum.Enum, tuple)):
        return
    if isinstance(o, list):
        for x in list(o):
            vandalise_any(x, depth + 1)
        try:
            del o[:]
            o.append("vandalised")
        except Exception:
            pass
        return
    if isinstance(o, dict):
        for x in list(o.values()):
            vandalise_any(x, depth + 1)
        try:
            o.clear()
            o["vandalised"] = True
        except Exception:
            pass
        return
    if isinstance(o, bytearray):
        for i in range(len(o)):
            o[i] ^= 0xFF
        return
    if hasattr(o, "__dict__"):
        for k, v in list(vars(o).items()):
            vandalise_any(v, depth + 1)
            try:
                if isinstance(v, bool):
                    setattr(o, k, not v)
                elif isinstance(v, enum.Enum):
                    others = [m for m in type(v) if m is not v]
                    setattr(o, k, others[0] if others else None)
                elif isinstance(v, int):
                    setattr(o, k, v + 1)
                elif isinstance(v, bytes):
                    setattr(o, k, b"vandalised" + v[:3])
                elif isinstance(v, str):
                    setattr(o, k, "vandalised")
                elif v is None:
                    setattr(o, k, "vandalised")
            except Exception:
                pass


def opt(f, v):
    return "N" if v is None else "Y " + f(v)


def wlist(f, l):
    return str(len(l)) + "".join(" " + f(x) for x in l)


# ---------- helpers ----------
def pr_auth_data(a):
    att = a.attested_credential_data
    return " ".join([
        fw.wb(a.rp_id_hash), fw.wi(flags_int(a.flags)), fw.wi(a.sign_count),
        opt(lambda c: fw.wb(c.aaguid) + " " + fw.wb(c.credential_id) + " " + fw.wb(c.credential_public_key), att),
        opt(fw.wb, a.extensions)])


def flags_int(f):
    # the record only has the six named bits; compare those
    return (1 if f.up else 0) | (4 if f.uv else 0) | (8 if f.be else 0) | (16 if f.bs else 0) | (64 if f.at else 0) | (128 if f.ed else 0)


def model_flags_mask(line):
    """model prints the raw flags byte; mask reserved bits 1 and 5 for comparison with the record"""
    t = line.split()
    if t[0] == "OK":
        t[2] = fw.wi(fw.rd_i(t[2]) & 0xDD)
    return " ".join(t)


def parse_authenticator_data(b):
    from webauthn.helpers.parse_authenticator_data import parse_authenticator_data as f
    return outcome(lambda: f(b), pr_auth_data)


def pr_json_any(v):
    return json_to_wire(v)


def parse_client_data(b):
    from webauthn.helpers.parse_client_data_json import parse_client_data_json as f

    def pr(c):
        tb = c.token_binding
        return " ".join([pr_json_any(c.type), fw.wb(c.challenge), pr_json_any(c.origin), opt(lambda t: pr_json_any(t.status), tb)])
    return outcome(lambda: f(b), pr)


def pr_enum_or_str(v):
    return fw.ws(v.value if hasattr(v, "value") else v)


TYPE_SLIPS = []          # parsed records holding a plain value where the record declares an enum member (reported by fw.finish with the input)


def _declared_enum(v, cls_name, source):
    """a field the record type declares as (Optional) enum member holds a member of THAT class - equality with the member's value is not enough (`is`, `.value`, `str()`,
    `match` statements and JSON encoders tell them apart)"""
    import enum
    if v is not None and not (isinstance(v, enum.Enum) and type(v).__name__ == cls_name) and len(TYPE_SLIPS) < 5:
        TYPE_SLIPS.append({"declared": cls_name, "held": type(v).__name__ + " " + repr(v)[:60], "input": source if isinstance(source, str) else dump(source) if "dump" in globals() else repr(source)[:400]})


def parse_auth_cred(x):
    from webauthn.helpers.parse_authentication_credential_json import parse_authentication_credential_json as f

    def pr(c):
        r = c.response
        _declared_enum(c.authenticator_attachment, "AuthenticatorAttachment", x)
        return " ".join([fw.ws(c.id), fw.wb(c.raw_id), pr_enum_or_str(c.type), fw.wb(r.client_data_json), fw.wb(r.authenticator_data),
                         fw.wb(r.signature), opt(fw.wb, r.user_handle), opt(pr_enum_or_str, c.authenticator_attachment)])
    return outcome(lambda: f(x), pr)


def parse_reg_cred(x):
    from webauthn.helpers.parse_registration_credential_json import parse_registration_credential_json as f

    def pr(c):
        r = c.response
        _declared_enum(c.authenticator_attachment, "AuthenticatorAttachment", x)
        for t_ in (r.transports or []):
            _declared_enum(t_, "AuthenticatorTransport", x)
        return " ".join([fw.ws(c.id), fw.wb(c.raw_id), pr_enum_or_str(c.type), fw.wb(r.client_data_json), fw.wb(r.attestation_object),
                         opt(lambda l: wlist(pr_enum_or_str, l), r.transports), opt(pr_enum_or_str, c.authenticator_attachment)])
    return outcome(lambda: f(x), pr)


def text_or_dict_wire(x):
    return ("T " + fw.ws(x)) if isinstance(x, str) else ("D " + json_to_wire(x))


# ---------- authentication ----------
class AuthPolicy:
    def __init__(self, challenge, rp_id, origin, pubkey, count, require_uv=False):
        self.challenge, self.rp_id, self.origin, self.pubkey, self.count, self.require_uv = challenge, rp_id, origin, pubkey, count, require_uv

    def wire(self):
        o = ("S " + fw.ws(self.origin)) if isinstance(self.origin, str) else ("M " + wlist(fw.ws, list(self.origin)))
        return " ".join([fw.wb(self.challenge), fw.ws(self.rp_id), o, fw.wb(self.pubkey), fw.wi(self.count), fw.wbool(self.require_uv)])

    def kwargs(self):
        return dict(expected_challenge=self.challenge, expected_rp_id=self.rp_id, expected_origin=self.origin,
                    credential_public_key=self.pubkey, credential_current_sign_count=self.count,
                    require_user_verification=self.require_uv)

    def describe(self):
        return {"challenge": self.challenge.hex(), "rp_id": self.rp_id, "origin": self.origin, "pubkey": self.pubkey.hex(),
                "count": self.count, "require_uv": self.require_uv}


def auth_cred_wire(form, a):
    """form: 'text' | 'dict' | 'record'; a: authsim.Assertion"""
    if form == "text":
        return "T " + fw.ws(a.as_text())
    if form == "dict":
        return "D " + json_to_wire(a.as_dict())
    return " ".join(["R", fw.ws(a.id_text), fw.wb(a.cred_id), fw.ws(a.typ), fw.wb(a.cdj), fw.wb(a.ad), fw.wb(a.sig),
                     opt(fw.wb, a.user_handle), opt(fw.ws, a.attachment)])


def auth_cred_value(form, a):
    return a.as_text() if form == "text" else a.as_dict() if form == "dict" else a.as_record()


def pr_verified_auth(v):
    return " ".join([fw.wb(v.credential_id), fw.wi(v.new_sign_count),
                     fw.wbool(v.credential_device_type.value == "multi_device"), fw.wbool(v.credential_backed_up), fw.wbool(v.user_verified)])


def verify_auth(policy, cred_value):
    from webauthn import verify_authentication_response as f
    return outcome(lambda: f(credential=cred_value, **policy.kwargs()), pr_verified_auth)


# ---------- registration ----------
import sys, contextlib, datetime, threading


class _FakeTime:
    def __init__(self, now, frac=0.25):
        self._now, self._frac = now, frac

    def time(self):
        return float(self._now) + self._frac

    def __getattr__(self, n):
        import time as _t
        return getattr(_t, n)


STORE_LOG = []          # one list of SHA-256 certificate fingerprints per certificate store built during the current verification
FOREIGN_ANCHORS = []    # anchors found in force that are neither RP-supplied nor the built-in roots the harness named (see verify_reg)
_FP = {}


def pem_fingerprint(pem):
    import hashlib
    from cryptography import x509
    if pem not in _FP:
        try:
            from cryptography.hazmat.primitives import serialization
            _FP[pem] = hashlib.sha256(x509.load_pem_x509_certificate(pem).public_bytes(serialization.Encoding.DER)).hexdigest()
        except Exception:
            _FP[pem] = None
    return _FP[pem]


@contextlib.contextmanager
def substituted(builtin, now):
    """Rebind, in-process and without touching the source, the built-in trust anchors as seen by the format
    modules, the certificate-store factory (store time = simulated clock) and the clock of the SafetyNet check."""
    import webauthn.registration.formats.apple as fa
    import webauthn.registration.formats.android_key as fk
    import webauthn.registration.formats.android_safetynet as fs
    vcc = sys.modules["webauthn.helpers.validate_certificate_chain"]
    vst = sys.modules["webauthn.helpers.verify_safetynet_timestamp"]
    from OpenSSL.crypto import X509Store
    saved = []

    def seta(mod, name, val):
        saved.append((mod, name, getattr(mod, name)))
        setattr(mod, name, val)

    class ClockedStore(X509Store):
        """A store whose verification time is the simulated clock - unless the code under test sets a time of its own afterwards, which then
        wins exactly as it would on a fresh store (OpenSSL would otherwise keep the FIRST time that was set on a store)."""

        def __init__(self):
            super().__init__()
            self._added = []
            STORE_LOG.append([])
            self._log = STORE_LOG[-1]
            X509Store.set_time(self, datetime.datetime.fromtimestamp(now, datetime.timezone.utc).replace(tzinfo=None))

        def add_cert(self, cert):
            self._added.append(cert)
            try:
                import hashlib
                from OpenSSL.crypto import dump_certificate, FILETYPE_ASN1
                self._log.append((hashlib.sha256(dump_certificate(FILETYPE_ASN1, cert)).hexdigest(), str(cert.get_subject())))
            except Exception:
                pass
            super().add_cert(cert)

        def set_time(self, vfy_time):
            fresh = X509Store()
            for c in self._added:
                fresh.add_cert(c)
            fresh.set_time(vfy_time)
            self._fresh = fresh              # keeps the underlying object alive
            self._store = fresh._store

    def store():
        return ClockedStore()
    try:
        if builtin is not None:
            # the built-in anchors are module-level byte strings: wherever in the package one of the ORIGINAL values is bound (the constants module, the
            # format modules that import them by name, any module a refactoring moved them to), the name is rebound to the substitute for its format
            orig = _original_builtins()
            repl = {}
            a = builtin.get("apple") or []
            if a:
                repl[orig["apple"][0]] = a[0]
            g = builtin.get("android-key") or []
            if g:
                for i, pem in enumerate(orig["android-key"]):
                    repl[pem] = g[min(i, len(g) - 1)]
            sn = builtin.get("android-safetynet") or []
            if sn:
                for i, pem in enumerate(orig["android-safetynet"]):
                    repl[pem] = sn[min(i, len(sn) - 1)]
            if repl:
                for mname, mod in list(sys.modules.items()):
                    if mod is None or not (mname == "webauthn" or mname.startswith("webauthn.")):
                        continue
                    for name, val in list(vars(mod).items()):
                        if type(val) is bytes and val in repl:
                            seta(mod, name, repl[val])
        seta(vcc, "_generate_new_cert_store", store)
        seta(vst, "time", _FakeTime(now))
        yield
    finally:
        for mod, name, val in reversed(saved):
            setattr(mod, name, val)


_ORIG_BUILTINS = {}


def _original_builtins():
    """the built-in anchors as they were when the package was first imported (before any substitution)"""
    if not _ORIG_BUILTINS:
        _ORIG_BUILTINS.update(real_builtins())
    return _ORIG_BUILTINS


def real_builtins():
    from webauthn.helpers import known_root_certs as K
    return {"apple": [K.apple_webauthn_root_ca],
            "android-key": [K.google_hardware_attestation_root_1, K.google_hardware_attestation_root_2, K.google_hardware_attestation_root_3, K.google_hardware_attestation_root_4],
            "android-safetynet": [K.globalsign_r2, K.globalsign_root_ca]}


class RegPolicy:
    def __init__(self, challenge, rp_id, origin, require_up=True, require_uv=False, algs=None, roots=None, builtin=None, now=0):
        self.challenge, self.rp_id, self.origin = challenge, rp_id, origin
        self.require_up, self.require_uv, self.algs, self.roots, self.now = require_up, require_uv, algs, roots or {}, now
        rb = real_builtins()
        b = builtin or {}
        # what the format modules will see: substituted anchors where given, the real ones otherwise
        self.builtin = {f: (list(b.get(f) or []) or rb[f]) for f in rb}
        self.substitute = {f: (b.get(f) or None) for f in rb}

    def effective_builtin(self, f):
        v = self.builtin[f]
        if f == "android-key":
            return [v[min(i, len(v) - 1)] for i in range(4)]
        if f == "android-safetynet":
            return [v[0], v[min(1, len(v) - 1)]]
        return [v[0]]

    def default_algs(self):
        import inspect, webauthn
        d = inspect.signature(webauthn.verify_registration_response).parameters["supported_pub_key_algs"].default
        if not isinstance(d, (list, tuple)):
            # no inspectable default: the model is then given what option generation offers by default (C15 ties the two together)
            d = [p.alg for p in webauthn.generate_registration_options(rp_id="a", rp_name="b", user_name="c").pub_key_cred_params]
        return [int(a) for a in d]

    def wire(self):
        o = ("S " + fw.ws(self.origin)) if isinstance(self.origin, str) else ("M " + wlist(fw.ws, list(self.origin)))
        algs = self.default_algs() if self.algs is None else [int(a) for a in self.algs]
        roots = wlist(lambda kv: fw.ws(kv[0]) + " " + wlist(fw.wb, kv[1]), list(self.roots.items()))
        return " ".join([fw.wb(self.challenge), fw.ws(self.rp_id), o, fw.wbool(self.require_up), fw.wbool(self.require_uv),
                         wlist(fw.wi, algs), roots, wlist(fw.wb, self.effective_builtin("apple")), wlist(fw.wb, self.effective_builtin("android-key")),
                         wlist(fw.wb, self.effective_builtin("android-safetynet")), fw.wi(self.now)])

    def kwargs(self):
        kw = dict(expected_challenge=self.challenge, expected_rp_id=self.rp_id, expected_origin=self.origin,
                  require_user_presence=self.require_up, require_user_verification=self.require_uv)
        if self.algs is not None:
            from webauthn.helpers.cose import COSEAlgorithmIdentifier
            l = []
            for a in self.algs:
                try:
                    l.append(COSEAlgorithmIdentifier(a))
                except ValueError:
                    l.append(a)
            kw["supported_pub_key_algs"] = l
        if self.roots:
            kw["pem_root_certs_bytes_by_fmt"] = {k: list(v) for k, v in self.roots.items()}
        return kw

    def describe(self):
        return {"challenge": self.challenge.hex(), "rp_id": self.rp_id, "origin": self.origin, "require_up": self.require_up,
                "require_uv": self.require_uv, "algs": self.algs, "roots": {k: [hashlib_id(x) for x in v] for k, v in self.roots.items()},
                "builtin_substituted": {k: (None if v is None else [hashlib_id(x) for x in v]) for k, v in self.substitute.items()}, "now": self.now}


def hashlib_id(b):
    import hashlib
    return "pem-sha256:" + hashlib.sha256(b).hexdigest()[:16]


def reg_cred_wire(form, r):
    if form == "text":
        return "T " + fw.ws(r.as_text())
    if form == "dict":
        return "D " + json_to_wire(r.as_dict())
    return " ".join(["R", fw.ws(r.id_text), fw.wb(r.cred_id), fw.ws(r.typ), fw.wb(r.cdj), fw.wb(r.att_obj), "N", "N"])


def reg_cred_value(form, r):
    return r.as_text() if form == "text" else r.as_dict() if form == "dict" else r.as_record()


def pr_verified_reg(v):
    fmt = v.fmt.value if hasattr(v.fmt, "value") else v.fmt
    return " ".join([fw.wb(v.credential_id), fw.wb(v.credential_public_key), fw.wi(v.sign_count), fw.ws(v.aaguid), fw.wb(fmt.encode()),
                     pr_enum_or_str(v.credential_type), fw.wbool(v.user_verified), fw.wb(v.attestation_object),
                     fw.wbool(v.credential_device_type.value == "multi_device"), fw.wbool(v.credential_backed_up)])


def _x5c_fingerprints(cred_value, only_fmt=None):
    import hashlib, json as _json, base64, cbor2
    try:
        if hasattr(cred_value, "response"):
            ao = bytes(cred_value.response.attestation_object)
        else:
            d = _json.loads(cred_value) if isinstance(cred_value, str) else cred_value
            t = d["response"]["attestationObject"]
            ao = base64.urlsafe_b64decode(t + "=" * (-len(t) % 4))
        top = cbor2.loads(ao)
        if only_fmt is not None and top.get("fmt") != only_fmt:
            return set()
        st = top.get("attStmt", {})
        out = {hashlib.sha256(bytes(c)).hexdigest() for c in st.get("x5c", []) if isinstance(c, (bytes, bytearray))}
        return out
    except Exception:
        return set()


def verify_reg(policy, cred_value):
    from webauthn import verify_registration_response as f
    del STORE_LOG[:]
    with substituted(policy.substitute, policy.now):
        out = outcome(lambda: f(credential=cred_value, **policy.kwargs()), pr_verified_reg)
    # every anchor that was in force is one the RP supplied or one of the built-in roots (as named by the harness: the pinned constants of
    # known_root_certs, or what the harness put in their place) - "to one of THOSE anchors" leaves no room for a further one
    if STORE_LOG and threading.current_thread() is threading.main_thread():
        try:
            allowed = set()
            for lst in list(policy.builtin.values()) + [v for v in (policy.roots or {}).values() if isinstance(v, (list, tuple))]:
                for pem in lst:
                    if isinstance(pem, (bytes, bytearray, memoryview)):
                        allowed.add(pem_fingerprint(bytes(pem)))
            allowed |= _x5c_fingerprints(cred_value, only_fmt="android-key")      # (android-key verifies against the chain's own last certificate and then looks that one up among the anchors)
            for store in ([] if None in allowed else STORE_LOG):      # (an RP entry the harness itself cannot read as one certificate: no verdict)
                for fp, subj in store:
                    if fp not in allowed and not any(x["fingerprint"] == fp for x in FOREIGN_ANCHORS):
                        FOREIGN_ANCHORS.append({"fingerprint": fp, "subject": subj, "rp_roots_for": sorted(map(str, (policy.roots or {}).keys())), "outcome": out[:60]})
        except Exception:
            pass
    return out


# ---------- TPM ----------
def parse_cert_info(b):
    from webauthn.helpers.tpm.parse_cert_info import parse_cert_info as f

    def pr(c):
        ck = c.clock_info
        return " ".join([fw.wb(c.magic), fw.ws(c.type.name), fw.wb(c.qualified_signer), fw.wb(c.extra_data), fw.wb(ck.clock), fw.wi(ck.reset_count),
                         fw.wi(ck.restart_count), fw.wbool(ck.safe), fw.wb(c.firmware_version), fw.ws(c.attested.name_alg.name),
                         fw.wb(c.attested.name_alg_bytes), fw.wb(c.attested.name), fw.wb(c.attested.qualified_name)])
    return outcome(lambda: f(b), pr)


ATTR_NAMES = ["fixed_tpm", "st_clear", "fixed_parent", "sensitive_data_origin", "user_with_auth", "admin_with_policy", "no_da",
              "encrypted_duplication", "restricted", "decrypt", "sign_or_encrypt"]


def parse_pub_area(b):
    from webauthn.helpers.tpm.parse_pub_area import parse_pub_area as f
    from webauthn.helpers.tpm.structs import TPMPubAreaParametersRSA

    def pr(p):
        a = p.object_attributes
        attrs = "".join("1" if getattr(a, n) else "0" for n in ATTR_NAMES)
        q = p.parameters
        if isinstance(q, TPMPubAreaParametersRSA):
            ps = " ".join(["RSA", fw.ws(q.symmetric.name), fw.ws(q.scheme.name), fw.wb(q.key_bits), fw.wb(q.exponent)])
        else:
            ps = " ".join(["ECC", fw.ws(q.symmetric.name), fw.ws(q.scheme.name), fw.ws(q.curve_id.name), fw.ws(q.kdf.name)])
        return " ".join([fw.ws(p.type.name), fw.ws(p.name_alg.name), attrs, fw.wb(p.auth_policy), ps, fw.wb(p.unique.value)])
    return outcome(lambda: f(b), pr)



# ---------- the same call in other admissible Python shapes (used round-robin by authrun / regrun.run_case) ----------
class _S(str):
    pass


class _UserMap:
    """a hand-written collections.abc.Mapping"""
    def __init__(self, d): self._d = dict(d)
    def __getitem__(self, k): return self._d[k]
    def __iter__(self): return iter(self._d)
    def __len__(self): return len(self._d)
    def get(self, k, default=None): return self._d.get(k, default)
    def keys(self): return self._d.keys()
    def items(self): return self._d.items()
    def values(self): return self._d.values()
    def __contains__(self, k): return k in self._d
    def __bool__(self): return bool(self._d)


try:
    import collections.abc as _abc
    _abc.Mapping.register(_UserMap)
except Exception:
    pass


class _FoldingDict(dict):
    """a dict subclass with lookup rules of its own: keys are stored lower-cased, every access folds the key (a case-insensitive mapping as web frameworks hand out)"""
    def __init__(self, d=()):
        super().__init__()
        for k, v in dict(d).items():
            super().__setitem__(k.lower() if isinstance(k, str) else k, _FoldingDict(v) if type(v) is dict else v)
    def _f(self, k): return k.lower() if isinstance(k, str) else k
    def __getitem__(self, k): return super().__getitem__(self._f(k))
    def __contains__(self, k): return super().__contains__(self._f(k))
    def get(self, k, default=None): return super().get(self._f(k), default)


def _wide_items(b):
    """the same bytes as a buffer whose items are wider than a byte (memoryview.cast / array.array): len() counts items, nbytes counts bytes"""
    b = bytes(b)
    for code in ("Q", "I", "H"):
        import struct as _st
        if len(b) and len(b) % _st.calcsize(code) == 0:
            return memoryview(b).cast(code)
    return memoryview(b)


def _strided(b):
    return memoryview(bytes(y for x in bytes(b) for y in (x, 0x5A)))[::2]


def _reversed_view(b):
    return memoryview(bytes(b)[::-1])[::-1]


def _retype_strs(v, f):
    if isinstance(v, str):
        return f(v)
    if isinstance(v, list):
        return [_retype_strs(x, f) for x in v]
    if isinstance(v, tuple):
        return tuple(_retype_strs(x, f) for x in v)
    return v


_APP_SUBCLASSES = {}


def _app_subclass(base):
    """an application's own record type: a subclass of the library's record with a constructor (and extra state) of its own - still that record for every reader"""
    if base not in _APP_SUBCLASSES:
        class AppRecord(base):
            def __init__(self, payload, session="s-1"):
                base.__init__(self, **payload)
                self.session = session
        AppRecord.__name__ = AppRecord.__qualname__ = "App" + base.__name__
        _APP_SUBCLASSES[base] = AppRecord
    return _APP_SUBCLASSES[base]


def _while_handling(thunk):
    """the call made from inside an `except` block (a cache-miss fallback, a retry handler): exceptions raised inside then carry an implicit __context__"""
    try:
        raise KeyError("cache miss")
    except KeyError:
        return thunk()


def equivalent_auth_calls(pol, a):
    """-> [(name, thunk)]: the same authentication call with its arguments in other shapes that denote the same values"""
    import webauthn, decimal, fractions
    from webauthn.helpers.structs import AuthenticationCredential, AuthenticatorAssertionResponse
    out = []

    def rec(w, typ=None):
        kw = {} if typ is None else {"type": typ}
        return AuthenticationCredential(id=a.id_text, raw_id=a.cred_id, response=AuthenticatorAssertionResponse(
            client_data_json=w(a.cdj), authenticator_data=w(a.ad), signature=w(a.sig), user_handle=a.user_handle), **kw)

    def call(cred, **over):
        kw = pol.kwargs()
        kw.update(over)
        return outcome(lambda: webauthn.verify_authentication_response(credential=cred, **kw), pr_verified_auth)
    if a.typ == "public-key":
        out.append(("record with strided (non-contiguous) memoryviews", lambda: call(rec(_strided), expected_challenge=_strided(pol.challenge), credential_public_key=_strided(pol.pubkey))))
        out.append(("record with reversed-stride memoryviews", lambda: call(rec(_reversed_view), expected_challenge=_reversed_view(pol.challenge))))
        out.append(("record with bytearrays", lambda: call(rec(bytearray), expected_challenge=bytearray(pol.challenge), credential_public_key=bytearray(pol.pubkey))))
        out.append(("record whose type is the plain string", lambda: call(rec(bytes, typ="public-key"))))
        out.append(("record with buffers of multi-byte items", lambda: call(rec(_wide_items))))
        out.append(("record of an application subclass with a constructor of its own", lambda: call(_app_subclass(AuthenticationCredential)(dict(id=a.id_text, raw_id=a.cred_id, response=_app_subclass(AuthenticatorAssertionResponse)(
            dict(client_data_json=a.cdj, authenticator_data=a.ad, signature=a.sig, user_handle=a.user_handle)))))))
    d = lambda: a.as_dict()
    out.append(("credential in a dict subclass with lookup rules of its own", lambda: call(_FoldingDict(a.as_dict()))))
    if pol.require_uv is False:
        out.append(("require_user_verification=None", lambda: call(d(), require_user_verification=None)))
    out.append(("expectations as str subclasses", lambda: call(d(), expected_rp_id=_S(pol.rp_id), expected_origin=_retype_strs(pol.origin, _S))))
    if not isinstance(pol.origin, str):
        out.append(("expected origins as a tuple", lambda: call(d(), expected_origin=tuple(pol.origin))))
    out.append(("stored counter as a Decimal", lambda: call(d(), credential_current_sign_count=decimal.Decimal(pol.count))))
    out.append(("stored counter as a Fraction", lambda: call(d(), credential_current_sign_count=fractions.Fraction(pol.count))))
    out.append(("stored counter as a float", lambda: call(d(), credential_current_sign_count=float(pol.count))))
    out.append(("stored counter as an int subclass", lambda: call(d(), credential_current_sign_count=type("Count", (int,), {})(pol.count))))

    def low_precision():
        # the thread's decimal context is the application's business (prec=6 for money): an exact comparison of integers does not depend on it
        with decimal.localcontext() as ctx:
            ctx.prec = 6
            return call(d(), credential_current_sign_count=decimal.Decimal(pol.count))
    out.append(("stored counter as a Decimal under a decimal context of precision 6", low_precision))
    out.append(("the call made while the calling thread is handling an exception", lambda: _while_handling(lambda: call(d()))))
    return out


def equivalent_reg_calls(pol, reg):
    import webauthn, types, collections
    from webauthn.helpers.structs import RegistrationCredential, AuthenticatorAttestationResponse
    out = []

    def rec(w, typ=None):
        kw = {} if typ is None else {"type": typ}
        return RegistrationCredential(id=reg.id_text, raw_id=reg.cred_id, response=AuthenticatorAttestationResponse(client_data_json=w(reg.cdj), attestation_object=w(reg.att_obj)), **kw)

    def call(cred, **over):
        kw = pol.kwargs()
        for k, v in over.items():
            kw[k] = v(kw[k]) if callable(v) and k in kw else v
        with substituted(pol.substitute, pol.now):
            return outcome(lambda: webauthn.verify_registration_response(credential=cred, **kw), pr_verified_reg)
    if reg.typ == "public-key":
        out.append(("record with strided (non-contiguous) memoryviews", lambda: call(rec(_strided), expected_challenge=_strided(pol.challenge))))
        out.append(("record with reversed-stride memoryviews", lambda: call(rec(_reversed_view))))
        out.append(("record with bytearrays", lambda: call(rec(bytearray), expected_challenge=bytearray(pol.challenge))))
        out.append(("record whose type is the plain string", lambda: call(rec(bytes, typ="public-key"))))
        out.append(("record with buffers of multi-byte items", lambda: call(rec(_wide_items))))
        out.append(("record of an application subclass with a constructor of its own", lambda: call(_app_subclass(RegistrationCredential)(dict(id=reg.id_text, raw_id=reg.cred_id, response=_app_subclass(AuthenticatorAttestationResponse)(
            dict(client_data_json=reg.cdj, attestation_object=reg.att_obj)))))))
    d = lambda: reg.as_dict()
    out.append(("credential in a dict subclass with lookup rules of its own", lambda: call(_FoldingDict(reg.as_dict()))))
    if pol.require_uv is False or pol.require_up is False:
        out.append(("policy switches that are off given as None", lambda: call(d(), **({"require_user_verification": None} if pol.require_uv is False else {}), **({"require_user_presence": None} if pol.require_up is False else {}))))
    out.append(("expectations as str subclasses", lambda: call(d(), expected_rp_id=_S(pol.rp_id), expected_origin=_retype_strs(pol.origin, _S))))
    if not isinstance(pol.origin, str):
        out.append(("expected origins as a tuple", lambda: call(d(), expected_origin=tuple(pol.origin))))
    if pol.algs is not None:
        out.append(("allowed algorithms as a tuple of plain integers", lambda: call(d(), supported_pub_key_algs=lambda l: tuple(int(x) for x in l))))
        out.append(("allowed algorithms as a one-shot iterator", lambda: call(d(), supported_pub_key_algs=lambda l: iter(list(l)))))
        out.append(("allowed algorithms as a generator", lambda: call(d(), supported_pub_key_algs=lambda l: (x for x in list(l)))))
        out.append(("allowed algorithms as a set", lambda: call(d(), supported_pub_key_algs=lambda l: set(l))))
    else:
        # no list given: the documented default list, passed explicitly - as a list, and as one-shot iterables of its members
        import inspect
        dflt = inspect.signature(webauthn.verify_registration_response).parameters["supported_pub_key_algs"].default
        if isinstance(dflt, (list, tuple)) and dflt:
            out.append(("the default algorithm list passed explicitly", lambda: call(d(), supported_pub_key_algs=list(dflt))))
            out.append(("the default algorithm list passed as a one-shot iterator", lambda: call(d(), supported_pub_key_algs=iter(list(dflt)))))
            out.append(("the default algorithm list passed as a generator of plain integers", lambda: call(d(), supported_pub_key_algs=(int(x) for x in list(dflt)))))
    if pol.roots:
        out.append(("roots in a read-only mapping proxy", lambda: call(d(), pem_root_certs_bytes_by_fmt=lambda m: types.MappingProxyType(dict(m)))))
        out.append(("roots in a ChainMap", lambda: call(d(), pem_root_certs_bytes_by_fmt=lambda m: collections.ChainMap({}, dict(m)))))
        out.append(("roots in a UserDict", lambda: call(d(), pem_root_certs_bytes_by_fmt=lambda m: collections.UserDict(dict(m)))))
        out.append(("roots in a hand-written Mapping", lambda: call(d(), pem_root_certs_bytes_by_fmt=lambda m: _UserMap(m))))
        out.append(("roots as tuples in an OrderedDict", lambda: call(d(), pem_root_certs_bytes_by_fmt=lambda m: collections.OrderedDict((k, tuple(v)) for k, v in m.items()))))
    out.append(("the call made while the calling thread is handling an exception", lambda: _while_handling(lambda: call(d()))))
    return out



def new_parameter_values(fname):
    """[(parameter, value)] for the parameters the changed source added to the public function `fname` (harness/srcdict.new_parameters): members of the enum the
    annotation names, booleans, algorithm ids, None, a few generic values"""
    from harness import srcdict
    out = []
    try:
        import webauthn.helpers.structs as st, webauthn.helpers.cose as cose, enum
        for name, ann in srcdict.new_parameters().get(fname, []):
            vals = []
            for modx in (st, cose):
                for cname, cls in vars(modx).items():
                    if isinstance(cls, type) and issubclass(cls, enum.Enum) and cname in ann:
                        vals += list(cls)
            if "bool" in ann or not ann:
                vals += [True, False]
            if "int" in ann or name.endswith("alg") or "alg" in name:
                vals += [-7, -257, -8, -37, -36, -65535, -258, 0, 1]
            if "str" in ann:
                vals += ["", "x", "public-key"]
            if "bytes" in ann:
                vals += [b"", b"x"]
            vals += [None, 1, "required"]
            seen = []
            for v in vals:
                if not any(v is w or (type(v) is type(w) and v == w) for w in seen):
                    seen.append(v)
            out += [(name, v) for v in seen[:14]]
    except Exception:
        pass
    return out



_POOL = {}


def _pooled(name, items):
    """ONE long-lived list per (role, length), refilled in place: the object an RP keeps its policy in and edits when the policy changes"""
    L = _POOL.setdefault((name, len(items)), [None] * len(items))
    for i, x in enumerate(items):
        L[i] = x
    return L


def reused_policy_containers(entry, pol, val, cdj, pr):
    """the call `entry(credential=val, **pol.kwargs())` made with the RP's long-lived policy containers: the SAME list objects as in earlier calls, which a moment ago
    held another policy of the same length (one that would have let this response's origin / any algorithm through) and were edited in place since.  The outcome is that of
    the policy the containers hold NOW.  -> outcome line, or None when the policy has no list to pool"""
    import json as _json
    kw = pol.kwargs()
    eo = kw.get("expected_origin")
    origins = [eo] if type(eo) is str else list(eo) if type(eo) is list else None
    if not origins:
        return None
    try:
        co = _json.loads(bytes(cdj)).get("origin")
    except Exception:
        co = None
    if not isinstance(co, str):
        co = "https://retired.example"
    before = {"expected_origin": [co] + origins[1:]}
    now = {"expected_origin": origins}
    if kw.get("supported_pub_key_algs") is not None and type(kw["supported_pub_key_algs"]) is list and kw["supported_pub_key_algs"]:
        algs = kw["supported_pub_key_algs"]
        every = [type(algs[0])(x) if not isinstance(x, type(algs[0])) and isinstance(algs[0], int) and x in (-7, -257, -8, -36, -37, -38, -39, -258, -259, -65535) else x for x in (-7, -257, -8, -36, -37, -38, -39, -258, -259, -65535)]
        before["supported_pub_key_algs"] = [every[i % len(every)] for i in range(len(algs))]
        now["supported_pub_key_algs"] = list(algs)
    out = None
    for stage in (before, now):
        kw2 = dict(kw)
        for k, items in stage.items():
            kw2[k] = _pooled(k, items)
        out = outcome(lambda: entry(credential=val, **kw2), pr)
    return out



def sequenced_record(base_cls, resp_cls, cred_fields, resp_fields, sequences):
    """a credential record (instance of subclasses of the library's record classes) whose RESPONSE fields named in `sequences` read as sequences[name][0] the first
    time, [1] the second time, ... (the last value from then on): what a property, a proxy object or a buffer rewritten by another thread gives.  All other fields are constant."""
    class _Resp(resp_cls):
        def __init__(self):
            object.__setattr__(self, "_n", {})

        def __getattribute__(self, name):
            if name in resp_fields or name in sequences:
                n = object.__getattribute__(self, "_n")
                if name in sequences:
                    i = n.get(name, 0)
                    n[name] = i + 1
                    seq = sequences[name]
                    return seq[min(i, len(seq) - 1)]
                return resp_fields[name]
            return object.__getattribute__(self, name)

    class _Cred(base_cls):
        def __init__(self):
            object.__setattr__(self, "_resp", _Resp())

        def __getattribute__(self, name):
            if name == "response":
                return object.__getattribute__(self, "_resp")
            if name in cred_fields:
                return cred_fields[name]
            return object.__getattribute__(self, name)
    return _Cred()
