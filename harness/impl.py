"""Calls into the implementation under test (/repo working tree) and canonicalises outcomes in the
model's wire vocabulary.  Also encodes inputs for the model runner."""
from harness import fw
from harness.oracle import json_to_wire


def outcome(f, pr):
    try:
        r = f()
    except RecursionError:
        return "ERR Py:Other"
    except Exception as e:
        return "ERR " + fw.classify_exc(e)
    try:
        return "OK " + pr(r)
    except Exception as e:
        return "OK <unprintable result: %s %s>" % (type(e).__name__, e)


def opt(f, v):
    return "N" if v is None else "Y " + f(v)


def wlist(f, l):
    return str(len(l)) + "".join(" " + f(x) for x in l)


# ---------- helpers ----------
def pr_auth_data(a):
    att = a.attested_credential_data
    return " ".join([
        fw.wb(a.rp_id_hash), fw.wi(flags_int(a.flags)), fw.wi(a.sign_count),
        opt(lambda c: fw.wb(c.aaguid) + " " + fw.wb(c.credential_id) + " " + fw.wb(c.credential_public_key), att),
        opt(fw.wb, a.extensions)])


def flags_int(f):
    # the record only has the six named bits; compare those
    return (1 if f.up else 0) | (4 if f.uv else 0) | (8 if f.be else 0) | (16 if f.bs else 0) | (64 if f.at else 0) | (128 if f.ed else 0)


def model_flags_mask(line):
    """model prints the raw flags byte; mask reserved bits 1 and 5 for comparison with the record"""
    t = line.split()
    if t[0] == "OK":
        t[2] = fw.wi(fw.rd_i(t[2]) & 0xDD)
    return " ".join(t)


def parse_authenticator_data(b):
    from webauthn.helpers.parse_authenticator_data import parse_authenticator_data as f
    return outcome(lambda: f(b), pr_auth_data)


def pr_json_any(v):
    return json_to_wire(v)


def parse_client_data(b):
    from webauthn.helpers.parse_client_data_json import parse_client_data_json as f

    def pr(c):
        tb = c.token_binding
        return " ".join([pr_json_any(c.type), fw.wb(c.challenge), pr_json_any(c.origin), opt(lambda t: pr_json_any(t.status), tb)])
    return outcome(lambda: f(b), pr)


def pr_enum_or_str(v):
    return fw.ws(v.value if hasattr(v, "value") else v)


def parse_auth_cred(x):
    from webauthn.helpers.parse_authentication_credential_json import parse_authentication_credential_json as f

    def pr(c):
        r = c.response
        return " ".join([fw.ws(c.id), fw.wb(c.raw_id), pr_enum_or_str(c.type), fw.wb(r.client_data_json), fw.wb(r.authenticator_data),
                         fw.wb(r.signature), opt(fw.wb, r.user_handle), opt(pr_enum_or_str, c.authenticator_attachment)])
    return outcome(lambda: f(x), pr)


def parse_reg_cred(x):
    from webauthn.helpers.parse_registration_credential_json import parse_registration_credential_json as f

    def pr(c):
        r = c.response
        return " ".join([fw.ws(c.id), fw.wb(c.raw_id), pr_enum_or_str(c.type), fw.wb(r.client_data_json), fw.wb(r.attestation_object),
                         opt(lambda l: wlist(pr_enum_or_str, l), r.transports), opt(pr_enum_or_str, c.authenticator_attachment)])
    return outcome(lambda: f(x), pr)


def text_or_dict_wire(x):
    return ("T " + fw.ws(x)) if isinstance(x, str) else ("D " + json_to_wire(x))


# ---------- authentication ----------
class AuthPolicy:
    def __init__(self, challenge, rp_id, origin, pubkey, count, require_uv=False):
        self.challenge, self.rp_id, self.origin, self.pubkey, self.count, self.require_uv = challenge, rp_id, origin, pubkey, count, require_uv

    def wire(self):
        o = ("S " + fw.ws(self.origin)) if isinstance(self.origin, str) else ("M " + wlist(fw.ws, list(self.origin)))
        return " ".join([fw.wb(self.challenge), fw.ws(self.rp_id), o, fw.wb(self.pubkey), fw.wi(self.count), fw.wbool(self.require_uv)])

    def kwargs(self):
        return dict(expected_challenge=self.challenge, expected_rp_id=self.rp_id, expected_origin=self.origin,
                    credential_public_key=self.pubkey, credential_current_sign_count=self.count,
                    require_user_verification=self.require_uv)

    def describe(self):
        return {"challenge": self.challenge.hex(), "rp_id": self.rp_id, "origin": self.origin, "pubkey": self.pubkey.hex(),
                "count": self.count, "require_uv": self.require_uv}


def auth_cred_wire(form, a):
    """form: 'text' | 'dict' | 'record'; a: authsim.Assertion"""
    if form == "text":
        return "T " + fw.ws(a.as_text())
    if form == "dict":
        return "D " + json_to_wire(a.as_dict())
    return " ".join(["R", fw.ws(a.id_text), fw.wb(a.cred_id), fw.ws(a.typ), fw.wb(a.cdj), fw.wb(a.ad), fw.wb(a.sig),
                     opt(fw.wb, a.user_handle), opt(fw.ws, a.attachment)])


def auth_cred_value(form, a):
    return a.as_text() if form == "text" else a.as_dict() if form == "dict" else a.as_record()


def pr_verified_auth(v):
    return " ".join([fw.wb(v.credential_id), fw.wi(v.new_sign_count),
                     fw.wbool(v.credential_device_type.value == "multi_device"), fw.wbool(v.credential_backed_up), fw.wbool(v.user_verified)])


def verify_auth(policy, cred_value):
    from webauthn import verify_authentication_response as f
    return outcome(lambda: f(credential=cred_value, **policy.kwargs()), pr_verified_auth)
