"""Generators / canonicalisers for option generation (C15) and the options JSON wire format (C16)."""
import os, random as pyrandom
from harness import fw, impl
from harness.impl import opt, wlist

TRANSPORTS = ["usb", "nfc", "ble", "smart-card", "internal", "cable", "hybrid"]
ATTACH = ["platform", "cross-platform"]
RK = ["discouraged", "preferred", "required"]
UV = ["required", "preferred", "discouraged"]
ATTEST = ["none", "indirect", "direct", "enterprise"]
HINTS = ["security-key", "client-device", "hybrid"]
ALGS = [-7, -8, -36, -37, -38, -39, -257, -258, -259, -65535]


def S():
    from webauthn.helpers import structs
    return structs


def gen_descriptor(rng):
    tr = rng.choice([None, [], [rng.choice(TRANSPORTS)], rng.sample(TRANSPORTS, rng.randrange(1, 5))])
    return {"id": rng.randbytes(rng.choice([1, 16, 32, 64])), "transports": tr}


def gen_auth_sel(rng):
    return {"attachment": rng.choice([None] + ATTACH), "rk": rng.choice([None] + RK), "require_rk": rng.choice([False, False, True, None]),
            "uv": rng.choice(UV + [None] if rng.random() < 0.2 else UV)}


EDGE_TRAILERS = ["\U000e0001\U000e0065\U000e006e", "\U000e0001\U000e0066\U000e0072\U000e002d\U000e0043\U000e0041", "\U000e0001\U000e0061\U000e0072\u200f", "\U000e0001", "\U000e007f", "\u200e", "\u200f", "\u202c", "\ufe0f", "\ufe0e",
                 "\u200d", "\u200c", "\ufeff", "\u0301", "\u00a0", "\u3000", " ", "\t", "\n", "\u2028", "\U0001f3f4\U000e0067\U000e0062\U000e0065\U000e006e\U000e0067\U000e007f", "\u061c", "\u2066x\u2069", "\x00", "\x7f"]


def gen_reg_args(rng):
    nonascii = rng.random() < 0.2
    a = {
        "rp_id": rng.choice(["example.com", "login.example.org", "bücher.example" if nonascii else "a.b", "Login.Example.COM", "İstanbul.example" if nonascii else "EXAMPLE.com",
                             "xn--bcher-kva.example", "XN--BCHER-KVA.Example", "xn--80ak6aa92e.com", "example.com.", "xn--a.example", "127.0.0.1", "::1", "2001:db8::1", "10.0.0.1", "localhost"]),
        "rp_name": rng.choice(["Example Co", "ACME", "Bücher & Söhne" if nonascii else "Books", " padded name "]),
        "user_name": rng.choice(["lee", "user@example.com", "ユーザー" if nonascii else "u", "Lee@Example.COM", " lee ", "Zoe\u0308" if nonascii else "zoe", "\u212bngstro\u0308m" if nonascii else "angstrom"]),
        "user_id": rng.choice([None, None, b"", rng.randbytes(rng.choice([1, 16, 64]))]),
        "display_name": rng.choice([None, "", "Lee Smith", "李", "Zoe\u0308 \ufb01", "e\u0301"]),
        "challenge": rng.choice([None, None, b"", rng.randbytes(rng.choice([1, 16, 32, 64, 100]))]),
        "timeout": rng.choice([60000, 0, 1, 12000, 2 ** 31, 2 ** 32 - 1, 2 ** 32, 2 ** 32 + 1, 604800000000, 2 ** 53 + 1, 10 ** 18, 2 ** 64]),
        "attestation": rng.choice(ATTEST),
        "auth_sel": rng.choice([None, None]) if rng.random() < 0.4 else gen_auth_sel(rng),
        "exclude": rng.choice([None, []]) if rng.random() < 0.4 else [gen_descriptor(rng) for _ in range(rng.randrange(1, 4))],
        "algs": rng.choice([None, []]) if rng.random() < 0.4 else (rng.sample(ALGS, rng.randrange(1, 6)) if rng.random() < 0.8 else [rng.choice(ALGS) for _ in range(rng.randrange(2, 6))] + [-7, -7]),
        "hints": rng.choice([None, None, [], [rng.choice(HINTS)], rng.sample(HINTS, 2)]),
    }
    a["exclude"] = _with_repeats(rng, a["exclude"])
    # names are opaque texts: invisible / format characters at their ends (language and direction trailers of WebAuthn L2 6.4.2 made of TAG characters, direction marks, variation
    # selectors, joiners, byte order marks, white space) are part of them
    if rng.random() < 0.3:
        k = rng.choice(["rp_name", "user_name", "display_name"])
        base = a[k] if isinstance(a[k], str) else "Lee"
        t = rng.choice(EDGE_TRAILERS)
        a[k] = rng.choice([base + t, base + t, t + base, base + t + rng.choice(["\u200e", "\u200f", ""])])
    # arguments that happen to coincide with one another are still independent values
    r = rng.random()
    if r < 0.06:
        a["user_id"] = a["user_name"].encode("utf-8")
    elif r < 0.10:
        a["user_id"] = a["rp_id"].encode("utf-8")
    elif r < 0.14 and a["challenge"]:
        a["user_id"] = a["challenge"]
    elif r < 0.18:
        a["display_name"] = a["user_name"]
    elif r < 0.22:
        a["rp_name"] = a["rp_id"]
    return a


def _with_repeats(rng, lst):
    """a credential list may name the same credential more than once (the same descriptor again, an equal copy of it): it is the caller's list"""
    if lst and rng.random() < 0.3:
        lst = list(lst)
        lst.append(dict(lst[0]))
        if rng.random() < 0.5:
            lst.insert(rng.randrange(len(lst)), dict(lst[-1]))
        if rng.random() < 0.3:
            lst.append(lst[0])
    return lst


def gen_auth_args(rng):
    a = _gen_auth_args(rng)
    a["allow"] = _with_repeats(rng, a["allow"])
    return a


def _gen_auth_args(rng):
    return {"rp_id": rng.choice(["example.com", "a.b", "127.0.0.1", "::1", "2001:db8::1", "192.168.1.10", "[::1]", "localhost", "0x7f.0.0.1", "1.2.3", "256.1.1.1", "bücher.example", "Login.Example.COM", "xn--bcher-kva.example", "XN--BCHER-KVA.example", "xn--80ak6aa92e.com"]), "challenge": rng.choice([None, b"", rng.randbytes(rng.choice([1, 32, 64]))]),
            "timeout": rng.choice([60000, 0, 5, 2 ** 32 - 1, 2 ** 32, 2 ** 32 + 5, 604800000000, 2 ** 63]), "allow": rng.choice([None, []]) if rng.random() < 0.4 else [gen_descriptor(rng) for _ in range(rng.randrange(1, 4))],
            "uv": rng.choice(UV)}


# ---- python objects ----
def py_descriptor(d):
    st = S()
    kw = {"id": d["id"]}
    if d["transports"] is not None:
        kw["transports"] = [st.AuthenticatorTransport(t) for t in d["transports"]]
    return st.PublicKeyCredentialDescriptor(**kw)


# ---- argument shapes: the same values as other Python objects ----
import enum as _enum


class OddStr(str):
    """a str subclass whose str() / repr() are not its value (Markup-like wrappers, lazy translation strings)"""
    def __str__(self): return "str-of-a-subclass"
    def __repr__(self): return "repr-of-a-subclass"


def _foreign(value):
    """a member, equal to `value`, of a (str, Enum) class that is NOT the library's (an RP's own enum, a vendored second copy of the structs module)"""
    cls = _enum.Enum("Foreign_" + "".join(c if c.isalnum() else "_" for c in str(value)), {"MEMBER": value}, type=str)
    return cls.MEMBER


def shaped(kw, shape):
    """kw: keyword arguments for generate_*_options built by reg_kwargs / auth_kwargs; shape: None | 'plain-ints' | 'odd-strs' | 'enum-named-strs' | 'foreign-enums'"""
    if not shape:
        return kw
    kw = dict(kw)
    if shape == "plain-ints" and "supported_pub_key_algs" in kw:
        kw["supported_pub_key_algs"] = [int(x) for x in kw["supported_pub_key_algs"]]
    if shape in ("odd-strs", "enum-named-strs"):
        for k in ("rp_id", "rp_name", "user_name", "user_display_name"):
            if isinstance(kw.get(k), str) and kw[k]:
                kw[k] = OddStr(kw[k]) if shape == "odd-strs" else _foreign(kw[k])
    if shape == "foreign-enums":
        st = S()
        def conv(v):
            if isinstance(v, _enum.Enum) and isinstance(v, str):
                return _foreign(v.value)
            if isinstance(v, list):
                return [conv(x) for x in v]
            return v
        for k in ("attestation", "user_verification", "hints"):
            if k in kw:
                kw[k] = conv(kw[k])
        sel = kw.get("authenticator_selection")
        if sel is not None:
            kw["authenticator_selection"] = st.AuthenticatorSelectionCriteria(authenticator_attachment=conv(sel.authenticator_attachment), resident_key=conv(sel.resident_key),
                                                                               require_resident_key=sel.require_resident_key, user_verification=conv(sel.user_verification))
        for k in ("exclude_credentials", "allow_credentials"):
            if kw.get(k):
                kw[k] = [st.PublicKeyCredentialDescriptor(id=d.id, transports=conv(d.transports)) if d.transports is not None else d for d in kw[k]]
    if shape == "app-subclasses":
        # the RP's own record types: dataclass SUBCLASSES of the library's records with further fields (a stored credential with its counter, nickname and key) - for the
        # library they are the records they extend, and nothing of the extra fields belongs on the wire
        st = S()
        import dataclasses as _dc
        global _APP_TYPES
        if "_APP_TYPES" not in globals() or _APP_TYPES is None:
            @_dc.dataclass
            class StoredCredential(st.PublicKeyCredentialDescriptor):
                sign_count: int = 7
                nickname: str = "my key"
                public_key: bytes = b"\xa5\x01\x02"
                last_used: object = None

            @_dc.dataclass
            class TenantSelection(st.AuthenticatorSelectionCriteria):
                tenant: str = "t-1"
                secret: bytes = b"s"
            _APP_TYPES = (StoredCredential, TenantSelection)
        SC, TS = _APP_TYPES
        for k in ("exclude_credentials", "allow_credentials"):
            if kw.get(k):
                kw[k] = [SC(id=d.id, type=d.type, transports=d.transports) for d in kw[k]]
        sel = kw.get("authenticator_selection")
        if sel is not None:
            kw["authenticator_selection"] = TS(authenticator_attachment=sel.authenticator_attachment, resident_key=sel.resident_key, require_resident_key=sel.require_resident_key, user_verification=sel.user_verification)
    return kw


_APP_TYPES = None
SHAPES = [None, "plain-ints", "odd-strs", "enum-named-strs", "foreign-enums", "app-subclasses"]


def py_auth_sel(s):
    st = S()
    kw = {}
    if s["attachment"] is not None:
        kw["authenticator_attachment"] = st.AuthenticatorAttachment(s["attachment"])
    if s["rk"] is not None:
        kw["resident_key"] = st.ResidentKeyRequirement(s["rk"])
    kw["require_resident_key"] = s["require_rk"]
    kw["user_verification"] = st.UserVerificationRequirement(s["uv"]) if s["uv"] is not None else None
    return st.AuthenticatorSelectionCriteria(**kw)


def reg_kwargs(a):
    st = S()
    from webauthn.helpers.cose import COSEAlgorithmIdentifier
    kw = dict(rp_id=a["rp_id"], rp_name=a["rp_name"], user_name=a["user_name"], timeout=a["timeout"], attestation=st.AttestationConveyancePreference(a["attestation"]))
    if a["user_id"] is not None:
        kw["user_id"] = a["user_id"]
    if a["display_name"] is not None:
        kw["user_display_name"] = a["display_name"]
    if a["challenge"] is not None:
        kw["challenge"] = a["challenge"]
    if a["auth_sel"] is not None:
        kw["authenticator_selection"] = py_auth_sel(a["auth_sel"])
    if a["exclude"] is not None:
        kw["exclude_credentials"] = [py_descriptor(d) for d in a["exclude"]]
    if a["algs"] is not None:
        kw["supported_pub_key_algs"] = [COSEAlgorithmIdentifier(x) for x in a["algs"]]
    if a["hints"] is not None:
        kw["hints"] = [st.PublicKeyCredentialHint(h) for h in a["hints"]]
    return kw


def auth_kwargs(a):
    st = S()
    kw = dict(rp_id=a["rp_id"], timeout=a["timeout"], user_verification=st.UserVerificationRequirement(a["uv"]))
    if a["challenge"] is not None:
        kw["challenge"] = a["challenge"]
    if a["allow"] is not None:
        kw["allow_credentials"] = [py_descriptor(d) for d in a["allow"]]
    return kw


# ---- wire ----
def w_desc(d):
    return fw.wb(d["id"]) + " " + fw.ws("public-key") + " " + opt(lambda l: wlist(fw.ws, l), d["transports"])


def w_sel(s):
    return " ".join([opt(fw.ws, s["attachment"]), opt(fw.ws, s["rk"]), opt(fw.wbool, s["require_rk"]), opt(fw.ws, s["uv"])])


def reg_args_wire(a):
    return " ".join([fw.ws(a["rp_id"]), fw.ws(a["rp_name"]), fw.ws(a["user_name"]), opt(fw.wb, a["user_id"]), opt(fw.ws, a["display_name"]), opt(fw.wb, a["challenge"]),
                     fw.wi(a["timeout"]), fw.ws(a["attestation"]), opt(w_sel, a["auth_sel"]), opt(lambda l: wlist(w_desc, l), a["exclude"]),
                     opt(lambda l: wlist(fw.wi, l), a["algs"]), opt(lambda l: wlist(fw.ws, l), a["hints"])])


def auth_args_wire(a):
    return " ".join([fw.ws(a["rp_id"]), opt(fw.wb, a["challenge"]), fw.wi(a["timeout"]), opt(lambda l: wlist(w_desc, l), a["allow"]), fw.ws(a["uv"])])


def ev(x):
    return x.value if hasattr(x, "value") else x


def pr_desc(d):
    return fw.wb(d.id) + " " + fw.ws(ev(d.type)) + " " + opt(lambda l: wlist(lambda t: fw.ws(ev(t)), l), d.transports)


def pr_sel(s):
    return " ".join([opt(lambda x: fw.ws(ev(x)), s.authenticator_attachment), opt(lambda x: fw.ws(ev(x)), s.resident_key),
                     opt(fw.wbool, s.require_resident_key), opt(lambda x: fw.ws(ev(x)), s.user_verification)])


def pr_creation(o):
    return " ".join([opt(fw.ws, o.rp.id), fw.ws(o.rp.name), fw.wb(o.user.id), fw.ws(o.user.name), fw.ws(o.user.display_name), fw.wb(o.challenge),
                     wlist(lambda p: fw.ws(ev(p.type)) + " " + fw.wi(int(p.alg)), o.pub_key_cred_params), opt(lambda t: fw.wi(int(t)), o.timeout),
                     opt(lambda l: wlist(pr_desc, l), o.exclude_credentials), opt(pr_sel, o.authenticator_selection),
                     opt(lambda x: fw.ws(ev(x)), o.attestation), opt(lambda l: wlist(lambda h: fw.ws(ev(h)), l), o.hints)])


def pr_request(o):
    return " ".join([fw.wb(o.challenge), opt(lambda t: fw.wi(int(t)), o.timeout), opt(fw.ws, o.rp_id), opt(lambda l: wlist(pr_desc, l), o.allow_credentials),
                     opt(lambda x: fw.ws(ev(x)), o.user_verification)])


# ---- entropy tape ----
class Tape:
    """Replaces the OS random source at the lowest Python-visible level (os.urandom and random._urandom)."""

    def __init__(self, seed):
        self.r = pyrandom.Random(seed)
        self.reads = []

    def urandom(self, n):
        b = bytes(self.r.randrange(256) if self.r.random() > 0.08 else 0 for _ in range(n))     # zeros are over-represented on purpose
        self.reads.append(b)
        return b

    def __enter__(self):
        import random
        self.saved = (os.urandom, random._urandom)
        os.urandom = self.urandom
        random._urandom = self.urandom
        return self

    def __exit__(self, *a):
        import random
        os.urandom, random._urandom = self.saved


def token_perm():
    """how secrets.token_bytes(64) arranges the 64 bytes it read (a fact about CPython, probed once)"""
    import secrets
    t = Tape(0)
    probe = bytes(range(64))
    t.urandom = lambda n: (t.reads.append(probe) or probe)
    with t:
        out = secrets.token_bytes(64)
    if sorted(out) != sorted(probe) or len(t.reads) != 1:
        raise RuntimeError("secrets.token_bytes does not read exactly 64 bytes once from the OS source")
    return [probe.index(b) for b in out]
