"""Source-derived dictionary: the literal constants of /repo's CURRENT webauthn package that are not in the pinned baseline
(harness/srcdict_baseline.json).  A change that keys its behaviour on a magic value - an environment variable name, an algorithm id, a size
or count limit, an OID, an AAGUID, a member name, a special string, a byte prefix - has to spell that value somewhere; the generators take
every NEW literal as an "interesting value" along the dimensions where it could matter.  On the unchanged tree nothing is new and nothing is
added, so this can raise no alarm there; on a changed tree it only adds inputs, whose outcomes are judged exactly like all others."""
import ast, os, re, json

HERE = os.path.dirname(os.path.abspath(__file__))
BASELINE = os.path.join(HERE, "srcdict_baseline.json")


def harvest(repo):
    out = {"str": set(), "int": set(), "float": set(), "bytes": set(), "certs": set()}
    root = os.path.join(repo, "webauthn")
    for dp, dn, fn in os.walk(root):
        for f in fn:
            if not f.endswith(".py"):
                # data files shipped inside the package: certificates they carry are candidate anchors too
                try:
                    if not f.endswith((".pyc", ".pyo")):
                        for fp, subj in _cert_ids(open(os.path.join(dp, f), "rb").read()):
                            out["certs"].add(fp + " " + subj)
                except Exception:
                    pass
                continue
            try:
                tree = ast.parse(open(os.path.join(dp, f), encoding="utf-8").read())
            except Exception:
                continue
            for node in ast.walk(tree):
                if isinstance(node, ast.Constant):
                    v = node.value
                    if isinstance(v, bool) or v is None:
                        continue
                    if isinstance(v, (str, bytes)) and (b"BEGIN CERTIFICATE" in v if isinstance(v, bytes) else "BEGIN CERTIFICATE" in v):
                        for fp, subj in _cert_ids(v if isinstance(v, bytes) else v.encode("utf-8", "replace")):
                            out["certs"].add(fp + " " + subj)
                    if isinstance(v, str):
                        if len(v) <= 120 and "\n" not in v:
                            out["str"].add(v)
                    elif isinstance(v, bytes):
                        if len(v) <= 64:
                            out["bytes"].add(v.hex())
                    elif isinstance(v, int):
                        out["int"].add(v)
                    elif isinstance(v, float):
                        out["float"].add(repr(v))
                # folded arithmetic such as 64 * 1024, 10 ** 11, 1 << 20, -35
                if isinstance(node, (ast.BinOp, ast.UnaryOp)):
                    try:
                        v = eval(compile(ast.Expression(node), "<const>", "eval"), {"__builtins__": {}}, {})
                        if isinstance(v, int) and not isinstance(v, bool) and abs(v) < 10 ** 40:
                            out["int"].add(v)
                    except Exception:
                        pass
    return out


def _cert_ids(pem_blob):
    """(sha256 of DER, subject) of every certificate in a PEM text"""
    import hashlib
    out = []
    try:
        from cryptography import x509
        from cryptography.hazmat.primitives import serialization
        for m in re.finditer(rb"-----BEGIN CERTIFICATE-----.*?-----END CERTIFICATE-----", pem_blob, re.S):
            try:
                c = x509.load_pem_x509_certificate(m.group(0))
                out.append((hashlib.sha256(c.public_bytes(serialization.Encoding.DER)).hexdigest(), c.subject.rfc4514_string()))
            except Exception:
                out.append((hashlib.sha256(m.group(0)).hexdigest(), "(unreadable certificate literal)"))
    except Exception:
        pass
    return out


def public_callables(repo=None):
    """module-qualified names of the public functions / classes the package defines (by `ast`, no import): 'webauthn.helpers.foo:bar'"""
    repo = repo or os.environ.get("VERIF_REPO", "/repo")
    out = set()
    root = os.path.join(repo, "webauthn")
    for dp, dn, fn in os.walk(root):
        for f in fn:
            if not f.endswith(".py"):
                continue
            mod = os.path.relpath(os.path.join(dp, f), repo)[:-3].replace(os.sep, ".")
            if mod.endswith(".__init__"):
                mod = mod[:-9]
            try:
                tree = ast.parse(open(os.path.join(dp, f), encoding="utf-8").read())
            except Exception:
                continue
            for node in tree.body:
                if isinstance(node, (ast.FunctionDef, ast.AsyncFunctionDef, ast.ClassDef)) and not node.name.startswith("_"):
                    out.add(mod + ":" + node.name)
    return out


def imported_modules(repo=None):
    """top-level module names the package imports anywhere (also inside functions / try blocks)"""
    repo = repo or os.environ.get("VERIF_REPO", "/repo")
    out = set()
    for dp, dn, fn in os.walk(os.path.join(repo, "webauthn")):
        for f in fn:
            if f.endswith(".py"):
                try:
                    tree = ast.parse(open(os.path.join(dp, f), encoding="utf-8").read())
                except Exception:
                    continue
                for node in ast.walk(tree):
                    if isinstance(node, ast.Import):
                        out |= {a.name.split(".")[0] for a in node.names}
                    elif isinstance(node, ast.ImportFrom) and node.module and node.level == 0:
                        out.add(node.module.split(".")[0])
                    elif isinstance(node, ast.Call) and getattr(node.func, "attr", getattr(node.func, "id", "")) in ("import_module", "__import__", "find_spec") and node.args and isinstance(node.args[0], ast.Constant) and isinstance(node.args[0].value, str):
                        out.add(node.args[0].value.split(".")[0])
    return out


def guarded_imports(repo=None):
    """modules the package imports inside a `try:` whose handlers catch ImportError / Exception (or anything): 'works without it' code paths"""
    repo = repo or os.environ.get("VERIF_REPO", "/repo")
    out = set()
    for dp, dn, fn in os.walk(os.path.join(repo, "webauthn")):
        for f in fn:
            if f.endswith(".py"):
                try:
                    tree = ast.parse(open(os.path.join(dp, f), encoding="utf-8").read())
                except Exception:
                    continue
                for node in ast.walk(tree):
                    if isinstance(node, ast.Try):
                        names = set()
                        for h in node.handlers:
                            t = h.type
                            els = t.elts if isinstance(t, ast.Tuple) else [t] if t is not None else []
                            names |= {getattr(e, "id", getattr(e, "attr", "")) for e in els}
                            if t is None:
                                names.add("Exception")
                        if names & {"ImportError", "ModuleNotFoundError", "Exception", "BaseException", "AttributeError"}:
                            for st in node.body:
                                for sub_ in ast.walk(st):
                                    if isinstance(sub_, ast.Import):
                                        out |= {a.name.split(".")[0] for a in sub_.names}
                                    elif isinstance(sub_, ast.ImportFrom) and sub_.module and sub_.level == 0:
                                        out.add(sub_.module.split(".")[0])
    return out


def new_guarded_imports(repo=None):
    """modules whose import the CHANGED source guards with try / except and the pinned source did not: candidates for 'this dependency is broken or absent' hosts"""
    try:
        base = json.load(open(BASELINE))
    except Exception:
        return []
    if "guarded_imports" not in base:
        return []
    return sorted(guarded_imports(repo) - set(base["guarded_imports"]))


def new_imports(repo=None):
    """modules the CHANGED source imports and the pinned source did not"""
    try:
        base = set(json.load(open(BASELINE)).get("imports", []))
    except Exception:
        base = set()
    return sorted(imported_modules(repo) - base) if base else []


def paths():
    """new string literals that look like absolute file-system paths"""
    return [s for s in new()["str"] if re.fullmatch(r"/[A-Za-z0-9_./-]{3,100}", s) and not s.startswith("//")][:6]


def signatures(repo=None):
    """'module:function' -> [parameter names] for the public functions of the package (by `ast`)"""
    repo = repo or os.environ.get("VERIF_REPO", "/repo")
    out = {}
    for dp, dn, fn in os.walk(os.path.join(repo, "webauthn")):
        for f in fn:
            if not f.endswith(".py"):
                continue
            mod = os.path.relpath(os.path.join(dp, f), repo)[:-3].replace(os.sep, ".")
            if mod.endswith(".__init__"):
                mod = mod[:-9]
            try:
                tree = ast.parse(open(os.path.join(dp, f), encoding="utf-8").read())
            except Exception:
                continue
            for node in tree.body:
                if isinstance(node, ast.FunctionDef) and not node.name.startswith("_"):
                    a = node.args
                    out[mod + ":" + node.name] = [x.arg + "|" + (ast.unparse(x.annotation) if x.annotation is not None else "") for x in a.posonlyargs + a.args + a.kwonlyargs]
    return out


def new_parameters(repo=None):
    """{function name: [(parameter, annotation text)]} for parameters the changed source adds to functions that existed before"""
    try:
        base = json.load(open(BASELINE)).get("signatures", {})
    except Exception:
        base = {}
    out = {}
    if not base:
        return out
    for qn, params in signatures(repo).items():
        if qn in base:
            old = {p.split("|")[0] for p in base[qn]}
            new_ = [tuple(p.split("|", 1)) for p in params if p.split("|")[0] not in old]
            if new_:
                out[qn.split(":")[1]] = new_
    return out


def new_callables(repo=None):
    try:
        base = set(json.load(open(BASELINE)).get("api", []))
    except Exception:
        base = set()
    return sorted(public_callables(repo) - base) if base else []


def write_baseline(repo):
    h = harvest(repo)
    d = {k: sorted(v, key=str) for k, v in h.items()}
    d["api"] = sorted(public_callables(repo))
    d["imports"] = sorted(imported_modules(repo))
    d["signatures"] = signatures(repo)
    d["guarded_imports"] = sorted(guarded_imports(repo))
    json.dump(d, open(BASELINE, "w"), indent=0)


_CACHE = {}


def new(repo=None):
    """-> {"str": [...], "int": [...], "bytes": [bytes...], "float": [...]}: literals of the current tree that the pinned baseline lacks"""
    repo = repo or os.environ.get("VERIF_REPO", "/repo")
    if repo in _CACHE:
        return _CACHE[repo]
    try:
        base = json.load(open(BASELINE))
    except Exception:
        base = {"str": [], "int": [], "float": [], "bytes": [], "certs": []}
    cur = harvest(repo)
    d = {"str": sorted(cur["str"] - set(base["str"])), "int": sorted(cur["int"] - set(base["int"])),
         "float": sorted(cur["float"] - set(base["float"])), "bytes": [bytes.fromhex(x) for x in sorted(cur["bytes"] - set(base["bytes"]))],
         "certs": sorted(x for x in cur["certs"] if x.split(" ", 1)[0] not in {y.split(" ", 1)[0] for y in base.get("certs", [])})}
    _CACHE[repo] = d
    return d


# ---- views of the new literals along the dimensions where they could matter ----
def env_names():
    return [s for s in new()["str"] if re.fullmatch(r"[A-Z][A-Z0-9_]{2,60}", s)][:6]


def alg_ids():
    return [n for n in new()["int"] if -70000 < n < 1000 and n not in (0, 1, 2)][:12]


def thresholds():
    """sizes / counts worth crossing: every new int in [4, 4 MiB]"""
    return [n for n in new()["int"] if 4 <= n <= 4 * 1024 * 1024][:8]


def big_numbers():
    return [n for n in new()["int"] if n > 4 * 1024 * 1024][:6]


def oids():
    return [s for s in new()["str"] if re.fullmatch(r"[0-2](\.\d+){3,}", s)][:8]


def aaguids():
    out = []
    for s in new()["str"]:
        h = s.replace("-", "")
        if re.fullmatch(r"[0-9a-fA-F]{32}", h):
            out.append(bytes.fromhex(h))
    return out[:8] + [b for b in new()["bytes"] if len(b) == 16][:4]


def words():
    """short new strings: candidate member names, type values, special texts"""
    return [s for s in new()["str"] if 1 <= len(s) <= 40 and not re.search(r"[{}\n]", s) and " " not in s.strip()][:24]


def byte_prefixes():
    return [b for b in new()["bytes"] if 1 <= len(b) <= 8][:4] + [s.encode("utf-8") for s in new()["str"] if 1 <= len(s) <= 3 and not s.isascii()][:2]


def new_certificates():
    """certificate literals (PEM) of the current source whose DER fingerprint the pinned baseline does not have: candidate trust anchors"""
    return list(new()["certs"])


def blobs():
    """new byte strings, and new text literals that are hex: candidate DER fragments / magic values"""
    out = [b for b in new()["bytes"] if 2 <= len(b) <= 64]
    for t in new()["str"]:
        if re.fullmatch(r"([0-9a-fA-F]{2}){2,64}", t):
            out.append(bytes.fromhex(t))
    return out[:8]


def summary():
    d = new()
    return {"new_strings": len(d["str"]), "new_ints": len(d["int"]), "new_bytes": len(d["bytes"]), "new_floats": len(d["float"]),
            "env_names": env_names(), "alg_ids": alg_ids(), "thresholds": thresholds(), "oids": oids(), "aaguids": [a.hex() for a in aaguids()], "words": words()[:12]}
