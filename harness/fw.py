"""Shared framework for the checks: build, model runner client, verdicts, evidence, known findings."""
import os, sys, json, time, subprocess, hashlib, fcntl, re, glob, random, traceback

ROOT = os.path.dirname(os.path.dirname(os.path.abspath(__file__)))
REPO = os.environ.get("VERIF_REPO", "/repo")
BUILD = os.path.join(ROOT, "build")
COQ = os.path.join(ROOT, "coq")
PY = "/venv/bin/python"
GUARD = "PY_WEBAUTHN_VERIF"

os.environ.setdefault("PYTHONHASHSEED", "0")
os.environ[GUARD] = "1"

FORBIDDEN = re.compile(r"\b(Admitted|admit|Axiom|Axioms|Parameter|Parameters|Conjecture|Conjectures|Unset\s+Guard|bypass_check|type-in-type|impredicative-set|Admit\s+Obligations|native_compute)\b")
STDLIB_AXIOMS_OK = (
    "Coq.Logic.FunctionalExtensionality.functional_extensionality_dep",
    "Coq.Logic.Classical_Prop.classic",
    "Coq.Logic.ProofIrrelevance.proof_irrelevance",
    "Coq.Logic.JMeq.JMeq_eq",
    "Coq.Logic.Eqdep.Eq_rect_eq.eq_rect_eq",
)


def sh(cmd, timeout=None, cwd=None, env=None):
    e = dict(os.environ)
    if env:
        e.update(env)
    try:
        p = subprocess.run(cmd, shell=isinstance(cmd, str), cwd=cwd, env=e, stdout=subprocess.PIPE, stderr=subprocess.STDOUT, timeout=timeout)
        return p.returncode, p.stdout.decode("utf-8", "replace")
    except subprocess.TimeoutExpired as ex:
        return 124, (ex.stdout or b"").decode("utf-8", "replace") + "\nTIMEOUT"


class Lock:
    def __init__(self, name):
        os.makedirs(BUILD, exist_ok=True)
        self.path = os.path.join(BUILD, name)

    def __enter__(self):
        self.f = open(self.path, "w")
        fcntl.flock(self.f, fcntl.LOCK_EX)
        return self

    def __exit__(self, *a):
        fcntl.flock(self.f, fcntl.LOCK_UN)
        self.f.close()


def coq_sources():
    out = []
    for d in ("Model", "Spec", "Generated", "Proofs"):
        out += sorted(glob.glob(os.path.join(COQ, d, "*.v")))
    return out


def scan_forbidden():
    bad = []
    for f in coq_sources() + sorted(glob.glob(os.path.join(COQ, "Properties", "*.v"))) + sorted(glob.glob(os.path.join(COQ, "Extract", "*.v"))):
        txt = open(f).read()
        # strip comments (non-nested is enough for our sources; nested handled by loop)
        prev = None
        while prev != txt:
            prev = txt
            txt = re.sub(r"\(\*[^()]*?\*\)", " ", txt, flags=re.S)
        for m in FORBIDDEN.finditer(txt):
            bad.append(f"{os.path.relpath(f, ROOT)}: {m.group(0)}")
    return bad


class BuildResult:
    def __init__(self):
        self.export_ok = True
        self.export_msg = ""
        self.make_ok = True
        self.make_log = ""
        self.failed_files = []
        self.runner_ok = True
        self.runner_msg = ""
        self.forbidden = []


def build_all(verbose=False):
    """(Re)generate constants from /repo, build Model/Spec/Proofs (.vo, full), extract and compile the
    runner.  Safe to call from concurrent checks (file lock); incremental."""
    br = BuildResult()
    with Lock(".build.lock"):
        t0 = time.time()
        rc, out = sh([PY, os.path.join(ROOT, "harness", "gen_constants.py"), os.path.join(COQ, "Generated", "Constants.v")],
                     timeout=120, env={"PYTHONPATH": REPO, "VERIF_REPO": REPO})
        if rc != 0:
            br.export_ok = False
            br.export_msg = out[-2000:]
        br.forbidden = scan_forbidden()
        # _CoqProject
        srcs = [os.path.relpath(f, COQ) for f in coq_sources()]
        proj = "-Q . PW\n-arg -w -arg -notation-overridden,-deprecated-hint-without-locality,-deprecated-instance-without-locality,-ambiguous-paths\n" + "\n".join(srcs) + "\n"
        pp = os.path.join(COQ, "_CoqProject")
        if not os.path.exists(pp) or open(pp).read() != proj or not os.path.exists(os.path.join(COQ, "Makefile")):
            open(pp, "w").write(proj)
            rc, out = sh("coq_makefile -f _CoqProject -o Makefile", cwd=COQ, timeout=60)
            if rc != 0:
                br.make_ok = False
                br.make_log = out
                return br
        rc, out = sh("timeout 1500 make -k -j16 2>&1", cwd=COQ, timeout=1600)
        br.make_log = out
        if rc != 0:
            br.make_ok = False
            br.failed_files = sorted(set(re.findall(r'File "\./([^"]+\.v)"', out)))
        # extraction + runner (Model only)
        oc = os.path.join(BUILD, "ocaml")
        os.makedirs(oc, exist_ok=True)
        h = hashlib.sha256()
        for f in sorted(glob.glob(os.path.join(COQ, "Model", "*.v"))) + [os.path.join(COQ, "Generated", "Constants.v"), os.path.join(COQ, "Extract", "Extract.v"), os.path.join(ROOT, "ocaml", "driver.ml")]:
            if os.path.exists(f):
                h.update(open(f, "rb").read())
        stamp = os.path.join(oc, "stamp")
        if not (os.path.exists(stamp) and open(stamp).read() == h.hexdigest() and os.path.exists(os.path.join(oc, "runner"))):
            rc, out = sh(f"timeout 300 coqc -Q {COQ} PW {COQ}/Extract/Extract.v", cwd=oc, timeout=320)
            if rc == 0:
                sh(f"cp {ROOT}/ocaml/driver.ml {oc}/driver.ml")
                rc, out2 = sh("timeout 300 ocamlfind ocamlopt -O2 -w -a model.mli model.ml driver.ml -o runner 2>&1", cwd=oc, timeout=320)
                out += out2
            if rc != 0:
                br.runner_ok = False
                br.runner_msg = out[-3000:]
                if os.path.exists(stamp):
                    os.remove(stamp)
            else:
                open(stamp, "w").write(h.hexdigest())
        if verbose:
            print(f"[build] export_ok={br.export_ok} make_ok={br.make_ok} runner_ok={br.runner_ok} in {time.time()-t0:.1f}s")
    return br


class Obligations:
    def __init__(self):
        self.theorems = []      # names in Properties/Cxx.v
        self.closed = []        # names reported closed (or only std axioms)
        self.axioms = {}        # name -> list of axioms
        self.error = ""         # coqc error text if the file does not compile
        self.ok = False


def check_property_file(pid, with_coqchk=False):
    """Compile Properties/<pid>.v on its own and parse Print Assumptions output."""
    ob = Obligations()
    f = os.path.join(COQ, "Properties", f"{pid}.v")
    src = open(f).read()
    ob.theorems = re.findall(r"^\s*Theorem\s+(\w+)", src, flags=re.M)
    printed = re.findall(r"^\s*Print Assumptions\s+(\w+)\s*\.", src, flags=re.M)
    with Lock(".build.lock"):
        rc, out = sh(f"timeout 900 coqc -Q . PW Properties/{pid}.v", cwd=COQ, timeout=920)
    if rc != 0:
        ob.error = out[-4000:]
        return ob
    # split output into blocks per Print Assumptions (in order)
    blocks = re.split(r"(?m)^(?=Closed under the global context|Axioms:)", out)
    blocks = [b for b in blocks if b.startswith("Closed under") or b.startswith("Axioms:")]
    if len(blocks) != len(printed):
        ob.error = f"expected {len(printed)} Print Assumptions blocks, got {len(blocks)}\n" + out[-2000:]
        return ob
    for name, b in zip(printed, blocks):
        if b.startswith("Closed under"):
            ob.axioms[name] = []
            ob.closed.append(name)
        else:
            axs = re.findall(r"(?m)^([\w\.']+)\s*:", b[len("Axioms:"):])
            ob.axioms[name] = axs
            if all(a in STDLIB_AXIOMS_OK for a in axs):
                ob.closed.append(name)
    missing = [t for t in ob.theorems if t not in printed]
    if missing:
        ob.error = "theorems without Print Assumptions: " + ", ".join(missing)
        return ob
    ob.ok = all(t in ob.closed for t in ob.theorems)
    if not ob.ok and not ob.error:
        ob.error = "non-standard axioms: " + json.dumps({k: v for k, v in ob.axioms.items() if k not in ob.closed})
    if ob.ok and with_coqchk:
        with Lock(".build.lock"):
            rc, out = sh(f"timeout 1500 coqchk -silent -o -Q . PW PW.Properties.{pid}", cwd=COQ, timeout=1520)
        ob.coqchk = out[-3000:]
        if rc != 0:
            ob.ok = False
            ob.error = "coqchk failed:\n" + out[-3000:]
    return ob


# ---------------- model runner client ----------------
class Runner:
    """Coprocess running the extracted model.  `oracle` is a callable answering ASK queries."""

    def __init__(self, oracle=None):
        exe = os.path.join(BUILD, "ocaml", "runner")
        self.p = subprocess.Popen(["bash", "-c", f"ulimit -s unlimited 2>/dev/null; exec {exe}"], stdin=subprocess.PIPE, stdout=subprocess.PIPE, bufsize=0)
        self.oracle = oracle
        self.asks = 0

    def call(self, line):
        self.p.stdin.write((line + "\n").encode())
        self.p.stdin.flush()
        while True:
            r = self.p.stdout.readline()
            if not r:
                raise RuntimeError("model runner died on: " + line[:300])
            r = r.decode().rstrip("\n")
            if r.startswith("ASK "):
                self.asks += 1
                ans = self.oracle(r[4:])
                self.p.stdin.write((ans + "\n").encode())
                self.p.stdin.flush()
                continue
            return r

    def close(self):
        try:
            self.p.stdin.close()
            self.p.wait(timeout=5)
        except Exception:
            self.p.kill()


# wire encoders
def wb(b):
    return "b:" + bytes(b).hex()


def ws(s):
    return "s:" + ".".join(str(ord(c)) for c in s)


def wi(n):
    return "i:" + (("-" + format(-n, "x")) if n < 0 else format(n, "x"))


def wbool(b):
    return "T" if b else "F"


def rd_s(tok):
    assert tok.startswith("s:"), tok
    body = tok[2:]
    return "" if body == "" else "".join(chr(int(x)) for x in body.split("."))


def rd_b(tok):
    assert tok.startswith("b:"), tok
    return bytes.fromhex(tok[2:])


def rd_i(tok):
    assert tok.startswith("i:"), tok
    return int(tok[2:], 16)


LIB_NAMES = None


def classify_exc(e):
    """Canonical bucket of an implementation exception (same vocabulary as the model)."""
    from webauthn.helpers.exceptions import WebAuthnException
    if isinstance(e, WebAuthnException):
        return "Lib:" + type(e).__name__
    for k, cls in (("KeyError", KeyError), ("TypeError", TypeError), ("ValueError", ValueError), ("IndexError", IndexError), ("AttributeError", AttributeError)):
        if isinstance(e, cls):
            return "Py:" + k
    return "Py:Other"


UNMODELLED = {"accepted": 0, "refused": 0}      # inputs on which the model answers Unmodelled: what the implementation did with them (reported in the evidence)


def exn_refines(model_line, impl_line):
    """Refinement on outcomes (DESIGN 2.4): model OK <-> impl OK with equal payload; model Lib -> impl
    Lib (class compared only by callers that ask); model Py -> impl Py or Lib; Unmodelled -> anything."""
    if model_line.startswith("ERR Unmodelled"):
        UNMODELLED["accepted" if impl_line.startswith("OK") else "refused"] += 1
        return True
    if model_line.startswith("OK"):
        return model_line == impl_line
    if impl_line.startswith("OK"):
        return False
    if model_line.startswith("ERR Lib:"):
        return impl_line.startswith("ERR Lib:")
    return True


# ---------------- findings / verdict / evidence ----------------
def load_known():
    p = os.path.join(ROOT, "known_findings.json")
    if not os.path.exists(p):
        return []
    return json.load(open(p)).get("findings", [])


class Check:
    def __init__(self, pid, tier, seed):
        self.pid, self.tier, self.seed = pid, tier, seed
        self.t0 = time.time()
        self.violations = []       # dicts: {what, signature, replay}
        self.broken = []           # proof / correspondence breaks: {kind, name, detail}
        self.evals = 0
        self.distinct = set()
        self.samples = []
        self.hist = {}
        self.notes = []
        self.exhaustive = None
        self.proofs_ok = False
        self.rng = random.Random(seed)

    def count(self, key, n=1):
        self.hist[key] = self.hist.get(key, 0) + n

    def seen(self, sig):
        self.distinct.add(sig)

    def sample(self, s, cap=6):
        if len(self.samples) < cap:
            self.samples.append(s)

    def violation(self, what, signature, replay):
        """A concrete input on which the property fails on the implementation."""
        self.violations.append({"what": what, "signature": signature, "replay": replay})

    def diverge(self, name, detail, replay=None):
        """Model and implementation disagree (correspondence broken) - not by itself a violation."""
        self.broken.append({"kind": "correspondence", "name": name, "detail": detail, "replay": replay})

    def proof_broken(self, name, detail):
        self.broken.append({"kind": "proof", "name": name, "detail": detail, "replay": None})


def write_replay(pid, obj):
    d = os.path.join(ROOT, "replays")
    os.makedirs(d, exist_ok=True)
    blob = json.dumps(obj, sort_keys=True, default=str)
    h = hashlib.sha256(blob.encode()).hexdigest()[:12]
    p = os.path.join(d, f"{pid}-{h}.json")
    open(p, "w").write(json.dumps(obj, indent=1, sort_keys=True, default=str))
    return p


def finish(chk, ob, br, trusted_base, assumptions, rule, checker_cmd):
    """Verdict per DESIGN 2.7; writes evidence; returns exit code."""
    pid = chk.pid
    try:
        from harness import impl as _impl
        for x in _impl.FOREIGN_ANCHORS:
            chk.diverge("trust anchors in force = RP-supplied roots + the built-in roots (pinned constants of webauthn.helpers.known_root_certs)",
                        f"a certificate store built during verification held an anchor that is neither: {x['subject']} sha256={x['fingerprint']}", x)
        del _impl.FOREIGN_ANCHORS[:]
        for x in _impl.TYPE_SLIPS:
            chk.violation(f"a parsed credential record holds {x['held']} in a field its type declares as {x['declared']}: the value was recognised but not converted (identity, .value, str() differ from the member's)",
                          f"parsed-field-not-the-enum-member {x['declared']}", {"entry": "parse_*_credential_json", "input": x["input"], "declared": x["declared"], "held": x["held"]})
        del _impl.TYPE_SLIPS[:]
        # value semantics of everything that was returned during this check: a result still reads as it did when it was handed out, whatever calls came later
        stale = 0
        for r, pr, line in _impl.KEPT:
            try:
                now_line = "OK " + pr(r)
            except Exception as e:
                now_line = "OK <unprintable result: %s %s>" % (type(e).__name__, e)
            chk.evals += 1
            # ... and so does every copy of it: copy.copy, copy.deepcopy, a pickle round trip, dataclasses.replace (results are plain values)
            if stale < 3 and now_line == line:
                import copy as _cp, pickle as _pk, dataclasses as _dc
                for how, mk in (("copy.copy", _cp.copy), ("copy.deepcopy", _cp.deepcopy), ("pickle round trip", lambda o: _pk.loads(_pk.dumps(o))),
                                ("dataclasses.replace", lambda o: _dc.replace(o) if _dc.is_dataclass(o) else o)):
                    try:
                        clone = mk(r)
                    except Exception:
                        continue          # (results holding memoryviews cannot be pickled: no verdict)
                    try:
                        cl_line = "OK " + pr(clone)
                    except Exception as e:
                        cl_line = "OK <unprintable result: %s %s>" % (type(e).__name__, e)
                    chk.evals += 1
                    if cl_line != line:
                        stale += 1
                        chk.violation(f"a {how} of a returned {type(r).__name__} reads differently from the original", f"result-copy {how} {type(r).__name__}",
                                      {"result_type": type(r).__name__, "how": how, "original": line[:600], "copy": cl_line[:600]})
                        break
            if now_line != line and stale < 3:
                stale += 1
                chk.violation("a result returned earlier reads differently after later calls (results share state with later calls or with the caller's buffers)",
                              f"stale-result {type(r).__name__}", {"result_type": type(r).__name__, "when_returned": line[:600], "at_the_end": now_line[:600]})
        chk.notes.append({"kept_results_rechecked": len(_impl.KEPT), "model_answered_unmodelled": dict(UNMODELLED)})
        del _impl.KEPT[:]
    except Exception:
        pass
    known = [k for k in load_known() if k.get("property") == pid and k.get("status") == "known"]
    lines = []
    unlisted = []
    hit_known = {}
    for v in chk.violations:
        k = next((k for k in known if re.search(k["match"], v["signature"])), None)
        if k is not None:
            hit_known.setdefault(k["id"], (k, v))
        else:
            unlisted.append(v)
    for kid, (k, v) in hit_known.items():
        lines.append(f"KNOWN-FINDING: property={pid} {k['what']}")
    rc = 0
    nviol = 0
    reported = set()
    for v in unlisted:
        if v["signature"] in reported:
            continue
        reported.add(v["signature"])
        if len(reported) > 5:
            continue
        path = write_replay(pid, {"property": pid, "kind": "failing-input", "what": v["what"], "signature": v["signature"], "seed": chk.seed, "tier": chk.tier, "replay": v["replay"]})
        lines.append(f"VIOLATION property={pid} replay={path}")
        rc = 1
        nviol += 1
    if rc == 0 and chk.broken:
        # proof obligation or correspondence no longer checks and the search found no failing input.
        # Divergences that only concern inputs listed as known findings are not re-reported.
        brk = [b for b in chk.broken if not any(re.search(k["match"], str(b.get("name", "")) + " " + str(b.get("detail", ""))) for k in known)]
        if brk:
            path = write_replay(pid, {"property": pid, "kind": "no-failing-input-found", "broken": brk[:10], "seed": chk.seed, "tier": chk.tier})
            lines.append(f"VIOLATION property={pid} replay={path} no-failing-input-found")
            rc = 1
            nviol += 1
    for l in lines:
        print(l)
    n_ob = len(ob.theorems) if ob else 0
    n_dis = len([t for t in ob.theorems if t in ob.closed]) if ob else 0
    ev = {
        "property_id": pid,
        "tier": chk.tier,
        "seed": chk.seed,
        "level": "proof",
        "coverage": {
            "obligations": n_ob,
            "discharged": n_dis,
            "checker_cmd": checker_cmd,
            "trusted_base": trusted_base,
            "theorems": ob.theorems if ob else [],
            "axioms_per_theorem": ob.axioms if ob else {},
            "evaluations": chk.evals,
            "distinct_nontrivial": len(chk.distinct),
            "rule": rule,
            "samples": chk.samples[:8],
            "histogram": chk.hist,
            "exhaustive": bool(chk.exhaustive),
            "correspondence_breaks": len([b for b in chk.broken if b["kind"] == "correspondence"]),
            "proof_breaks": len([b for b in chk.broken if b["kind"] == "proof"]),
            "notes": chk.notes,
            "constants_export_ok": br.export_ok if br else None,
        },
        "assumptions": assumptions,
        "wall_s": round(time.time() - chk.t0, 2),
        "violations": nviol,
    }
    os.makedirs(os.path.join(ROOT, "evidence"), exist_ok=True)
    open(os.path.join(ROOT, "evidence", f"{pid}.json"), "w").write(json.dumps(ev, indent=1, default=str))
    print(f"[{pid}] tier={chk.tier} seed={chk.seed} obligations={n_dis}/{n_ob} evals={chk.evals} distinct={len(chk.distinct)} violations={nviol} wall={ev['wall_s']}s")
    return rc


def standard_prelude(chk, with_coqchk=False):
    """Steps 1-2 of a check run: build + property file obligations.  Records breaks on chk."""
    br = build_all()
    if not br.export_ok:
        chk.proof_broken("constant-export", br.export_msg)
    if br.forbidden:
        chk.proof_broken("forbidden-construct", "; ".join(br.forbidden))
    if not br.runner_ok:
        chk.proof_broken("model-extraction", br.runner_msg)
    ob = check_property_file(chk.pid, with_coqchk=with_coqchk)
    if not ob.ok:
        chk.proof_broken(f"Properties/{chk.pid}.v", ob.error)
    chk.proofs_ok = ob.ok and br.export_ok and br.runner_ok and not br.forbidden
    return br, ob


# ---------------------------------------------------------------------------------------------------------------------------------
# environment invariance: the same seeded cases in child interpreters started in different process environments
ENVIRONMENTS = {
    # (several independent settings share one child interpreter: a difference from the default run is a difference whichever of them caused it; the settings that change
    #  what the interpreter DOES with unchanged code - warnings as errors, -bb, the old enum semantics, the degraded hosts - stay on their own)
    "default": {},
    "python -OO, TZ=XXX-9": {"PYTHONOPTIMIZE": "2", "TZ": "XXX-9"},
    "python -O, wall clock at the turn of a year": {"PYTHONOPTIMIZE": "1", "VERIF_MASQUERADE": "clock:newyear", "@skip_labels": "real-clock"},
    "warnings raised as errors": {"VERIF_WARNINGS_AS_ERRORS": "1"},
    "TZ with daylight-saving time in force all year (XXX5YYY,J1/0,J365/25), LC_ALL=tr_TR.UTF-8, logging at DEBUG level (root logger)": {"TZ": "XXX5YYY,J1/0,J365/25", "LC_ALL": "tr_TR.UTF-8", "LANG": "tr_TR.UTF-8", "VERIF_LOGGING": "root"},
    "private CA bundle (SSL_CERT_FILE / SSL_CERT_DIR), logging at DEBUG level ('webauthn' logger hierarchy)": {"SSL_CERT_FILE": "@forged_root_bundle", "SSL_CERT_DIR": "@forged_root_dir", "VERIF_LOGGING": "webauthn"},
    "python -bb (bytes/str comparisons are errors)": {"@args": "-bb"},
    # what the interpreter SAYS it is, to code that asks (harness/envprobe.py masquerade): another implementation, platform, language version, word size, date
    "python -X dev, -X utf8, PYTHONINTMAXSTRDIGITS=640, masquerade: PyPy on win32": {"@args": "-X dev -X utf8", "PYTHONINTMAXSTRDIGITS": "640", "VERIF_MASQUERADE": "pypy,win32"},
    "masquerade: darwin, Python 3.9, 32-bit sys.maxsize, wall clock at the 32-bit rollover (2038-01-19)": {"VERIF_MASQUERADE": "darwin,py39,maxsize32,clock:y2038", "@skip_labels": "real-clock"},
    "masquerade: enum membership test as in Python 3.8-3.11 (TypeError for non-members)": {"VERIF_MASQUERADE": "old-enum"},
    "masquerade: emscripten, recursion limit 220, wall clock on a leap day (2028-02-29)": {"VERIF_MASQUERADE": "emscripten,small-recursion,clock:leapday", "@skip_labels": "real-clock"},
    "masquerade: wall clock in 2090": {"VERIF_MASQUERADE": "clock:far", "@skip_labels": "real-clock"},
    "masquerade: wall clock in 2019": {"VERIF_MASQUERADE": "clock:past", "@skip_labels": "real-clock"},
    # hosts that cannot do everything: outcomes may turn into errors, but nothing the default environment refuses may be accepted (one-directional comparison)
    "degraded: SHA-1 / MD5 disabled (FIPS policy)": {"VERIF_MASQUERADE": "fips", "@monotone": "1"},
    "degraded: cryptography backend in FIPS mode": {"VERIF_MASQUERADE": "backend-fips", "@monotone": "1", "@strict_groups": "options"},
}


# text that some normalisation, case mapping or codec would change (NFC / NFKC / casefold / IDNA / punycode / width): to this library every string is a
# sequence of code points and every text field comes back as it went in
TRICKY_STRINGS = ["cafe\u0301", "Zoe\u0308", "n\u0303", "\u1100\u1161\u11a8", "\uf900", "\u212b", "\u2126", "\u212a", "\ufb01", "\uff21\uff22", "\u0130stanbul", "I\u0307", "\u017f", "\u00df",
                  "xn--bcher-kva.example", "XN--BCHER-KVA.example", "b\u00fccher.example", "\u03c2\u03c3", "\u1e9e", "a\u200db", "a\u00adb", "\u202eabc", "e\u0301\u0323", "\u0958", "\u0344",
                  "\U0001f469\u200d\U0001f4bb", "\u0000", "a\u0000b", "\ud55c", "\u00c5ngstr\u00f6m", "A\u030angstro\u0308m"]


def exercise_new_api(chk, probe, inside):
    """Public callables the changed source defines and the pinned baseline does not (harness/srcdict.py): each one is called - without arguments if it takes none, otherwise
    with candidate values chosen by parameter name / annotation (instants in 2019 / now / 2090 as datetime or number, booleans, None, short texts and byte strings); what it
    returns is used as a context manager (if it is one) around `inside()` - a few accepted AND refused calls of the old API - or simply dropped.  Afterwards `probe()` must
    answer as it did before: new API, used or abused, does not change what the existing API does (leaked modes, switched defaults, half-restored state).  Context managers are
    also used the way a multi-threaded server uses them: held open on ANOTHER thread while this thread runs `probe()` (the old API on this thread must not notice), and by two
    threads whose blocks OVERLAP without nesting (enter A, enter B, leave A, leave B) - after which `probe()` must again answer as before."""
    try:
        from harness import srcdict
        names = srcdict.new_callables()
    except Exception:
        names = []
    if not names:
        return
    import importlib, inspect, datetime, threading, time as _time
    before = probe()
    used = []

    def candidates(f):
        try:
            sig = inspect.signature(f)
        except Exception:
            return []
        req = [p_ for p_ in sig.parameters.values() if p_.default is inspect.Parameter.empty and p_.kind in (p_.POSITIONAL_ONLY, p_.POSITIONAL_OR_KEYWORD, p_.KEYWORD_ONLY)]
        if not req:
            return [((), {})]
        if len(req) > 2:
            return []
        now = _time.time()
        pool = []
        for p_ in req:
            ann = str(p_.annotation).lower() + " " + p_.name.lower()
            vals = []
            if any(w in ann for w in ("time", "date", "when", "instant", "clock", "now")):
                vals += [datetime.datetime(2019, 1, 1), datetime.datetime(2090, 1, 1), datetime.datetime.utcfromtimestamp(now), 1546300800, 3786825600, int(now)]
            if "bool" in ann or any(w in ann for w in ("strict", "enable", "allow", "flag")):
                vals += [True, False]
            if "int" in ann:
                vals += [0, 1, -7]
            if "bytes" in ann:
                vals += [b"", b"x"]
            vals += [None, True, "x", 1]
            pool.append(vals[:7])
        out = []
        for i_ in range(max(len(v) for v in pool)):
            args, kwargs = [], {}
            for p_, v in zip(req, pool):
                val = v[min(i_, len(v) - 1)]
                if p_.kind == p_.KEYWORD_ONLY:
                    kwargs[p_.name] = val
                else:
                    args.append(val)
            out.append((tuple(args), kwargs))
        return out

    managers = []          # (qualified name, thunk that builds a fresh context manager)
    for qn in names[:12]:
        mod, nm = qn.split(":")
        try:
            f = getattr(importlib.import_module(mod), nm)
        except Exception:
            continue
        cands = candidates(f)
        if not cands:
            continue
        used.append(qn)
        for args, kwargs in cands:
            for attempt in range(2):
                try:
                    r = f(*args, **kwargs)
                    if hasattr(r, "__enter__") and hasattr(r, "__exit__"):
                        if attempt == 0:
                            managers.append((qn + repr(args)[:40], lambda f=f, args=args, kwargs=kwargs: f(*args, **kwargs)))
                        with r:
                            inside()
                    elif callable(r):
                        try:
                            r(lambda *a, **k: None)
                        except Exception:
                            pass
                except Exception:
                    pass
    after = probe()
    chk.evals += len(before)
    chk.notes.append({"new_public_callables_exercised": used})
    for (lab, x), (_, y) in zip(before, after):
        if x != y:
            chk.violation(f"after the new public API ({', '.join(used)[:120]}) was used, '{lab}' gives {y[:60]} instead of {x[:60]}", f"new-api-side-effect {lab.split(' ')[0]}",
                          {"new_callables": used, "case": lab, "before": x[:300], "after": y[:300], "history": "call each new callable (candidate arguments); use what it returns as a context manager around accepted and refused calls; then repeat the probe"})
            return
    # ... held open on another thread
    for label, mk in managers[:8]:
        entered, release = threading.Event(), threading.Event()

        def holder(mk=mk):
            try:
                with mk():
                    entered.set()
                    release.wait(20)
            except Exception:
                entered.set()
        t = threading.Thread(target=holder, daemon=True)
        t.start()
        entered.wait(10)
        try:
            during = probe()
        finally:
            release.set()
            t.join(10)
        chk.evals += len(before)
        for (lab, x), (_, y) in zip(before, during):
            if x != y:
                chk.violation(f"while ANOTHER thread is inside `with {label}`, '{lab}' on this thread gives {y[:60]} instead of {x[:60]}: the block's setting is process-wide", f"new-api-other-thread {lab.split(' ')[0]}",
                              {"new_callable": label, "case": lab, "alone": x[:300], "while_another_thread_is_inside_the_block": y[:300]})
                return
    # ... overlapping without nesting: enter A (thread 1), enter B (thread 2), leave A, leave B
    for (la, mka), (lb, mkb) in list(zip(managers, managers[1:] + managers[:1]))[:6]:
        ev = {k_: threading.Event() for k_ in ("a_in", "b_in", "a_out", "go_a_out", "go_b_out")}

        def t1():
            try:
                with mka():
                    ev["a_in"].set()
                    ev["go_a_out"].wait(20)
            except Exception:
                ev["a_in"].set()
            ev["a_out"].set()

        def t2():
            ev["a_in"].wait(10)
            try:
                with mkb():
                    ev["b_in"].set()
                    ev["go_b_out"].wait(20)
            except Exception:
                ev["b_in"].set()
        th = [threading.Thread(target=t1, daemon=True), threading.Thread(target=t2, daemon=True)]
        for t in th:
            t.start()
        ev["b_in"].wait(10)
        ev["go_a_out"].set()
        ev["a_out"].wait(10)
        ev["go_b_out"].set()
        for t in th:
            t.join(10)
        later = probe()
        chk.evals += len(before)
        for (lab, x), (_, y) in zip(before, later):
            if x != y:
                chk.violation(f"after two threads used `with {la}` / `with {lb}` in overlapping (not nested) blocks - all of them finished -, '{lab}' gives {y[:60]} instead of {x[:60]}: a stale setting was restored and stays",
                              f"new-api-overlapping-blocks {lab.split(' ')[0]}", {"new_callables": [la, lb], "case": lab, "before": x[:300], "after": y[:300], "history": "thread 1 enters A; thread 2 enters B; thread 1 leaves A; thread 2 leaves B; probe"})
                return


def lookalike_bytes():
    """byte strings that coincide with an encoding of something else: their base64url text is lower-case hex / digits / a word, or they ARE base64 / hex / JSON text"""
    import base64, json as _json
    out = []
    for t in ("deadbeef" * 4, "0123456789abcdef" * 2, "a" * 32, "cafe" * 8, "00000000" * 4, "ffffffff" * 4, "abcdef01" * 8, "1234567890123456", "nullnull", "truefalse000", "undefined000"):
        out.append(base64.urlsafe_b64decode(t + "=" * (-len(t) % 4)))
    for inner in (b"AB", b"credential-id", bytes(16)):
        out += [base64.urlsafe_b64encode(inner), base64.urlsafe_b64encode(inner).rstrip(b"="), inner.hex().encode(), _json.dumps({"id": inner.hex()}).encode()]
    return out


def interleaved(run_a, run_b, repo=None, max_events=3000, every=1, opcodes=False):
    """Deterministic two-thread schedule exploration at line granularity: run_a() executes on the calling thread under a trace hook which, at every
    `line` event inside /repo's webauthn package (every `every`-th one), lets ANOTHER thread execute run_b() to completion before run_a continues.
    -> (outcome of run_a, list of outcomes of run_b, number of switch points).  Anything run_a keeps in shared mutable state between two of its own
    lines is thereby exposed to a complete foreign call in between - the schedules a 16-thread stress run hits only by luck."""
    import threading
    prefix = os.path.join(repo or os.environ.get("VERIF_REPO", "/repo"), "webauthn") + os.sep
    outs_b, state, pending = [], {"busy": False, "n": 0, "k": 0}, []

    def local_trace(frame, event, arg):
        if opcodes:
            frame.f_trace_opcodes = True          # switch points at every BYTECODE instruction (windows inside one source line)
        if event == ("opcode" if opcodes else "line") and not state["busy"] and state["n"] < max_events:
            state["k"] += 1
            if state["k"] % every == 0:
                state["busy"] = True
                state["n"] += 1
                t = threading.Thread(target=lambda: outs_b.append(run_b()), daemon=True)
                t.start()
                t.join(3.0)          # (B waiting for a lock that A holds is no finding: A goes on, B finishes when it can)
                if t.is_alive():
                    pending.append(t)
                state["busy"] = False
        return local_trace

    def global_trace(frame, event, arg):
        if frame.f_code.co_filename.startswith(prefix):
            if opcodes:
                frame.f_trace_opcodes = True
            return local_trace
        return None

    if opcodes and hasattr(sys, "monitoring"):
        # instruction-level switch points (PEP 669): a complete run_b between every two BYTECODE instructions run_a executes inside the library
        mon = sys.monitoring
        me = threading.get_ident()
        tool = 4

        def on_instruction(code, offset):
            if state["busy"] or threading.get_ident() != me or not code.co_filename.startswith(prefix) or state["n"] >= max_events:
                return
            state["k"] += 1
            if state["k"] % every:
                return
            state["busy"] = True
            state["n"] += 1
            t = threading.Thread(target=lambda: outs_b.append(run_b()), daemon=True)
            t.start()
            t.join(3.0)
            if t.is_alive():
                pending.append(t)
            state["busy"] = False
        mon.use_tool_id(tool, "verif-interleave")
        mon.register_callback(tool, mon.events.INSTRUCTION, on_instruction)
        mon.set_events(tool, mon.events.INSTRUCTION)
        try:
            a = run_a()
        finally:
            mon.set_events(tool, 0)
            mon.register_callback(tool, mon.events.INSTRUCTION, None)
            mon.free_tool_id(tool)
            for t in pending:
                t.join(20.0)
        return a, outs_b, state["n"]
    old = sys.gettrace()
    sys.settrace(global_trace)
    try:
        a = run_a()
    finally:
        sys.settrace(old)
        for t in pending:
            t.join(20.0)
    return a, outs_b, state["n"]


class GlobalStateSpy:
    """Records calls that change process-global interpreter state (warning filters, locale, time zone, environment, random seed, recursion limit,
    socket default timeout, logging configuration, current directory, ...) made DIRECTLY by code of /repo's webauthn package while it is active.
    The formal model consists of pure functions of the arguments, the clock and the random source; library code that re-configures the process
    is outside it, and is the mechanism by which one thread's call can change another's outcome (none of these settings is per-thread)."""

    TARGETS = [("warnings", "simplefilter"), ("warnings", "filterwarnings"), ("warnings", "resetwarnings"), ("warnings.catch_warnings", "__enter__"),
               ("locale", "setlocale"), ("time", "tzset"), ("os", "putenv"), ("os", "unsetenv"), ("os", "chdir"), ("os", "umask"), ("random", "seed"), ("sys", "setrecursionlimit"),
               ("sys", "setswitchinterval"), ("sys", "settrace"), ("sys", "setprofile"), ("socket", "setdefaulttimeout"), ("logging", "disable"), ("logging", "basicConfig"),
               ("decimal", "setcontext"), ("gc", "disable"), ("gc", "enable"), ("gc", "freeze"), ("signal", "signal"), ("threading", "settrace"), ("threading", "setprofile"),
               ("os._Environ", "__setitem__"), ("os._Environ", "__delitem__"), ("sys", "set_int_max_str_digits"), ("faulthandler", "enable"), ("resource", "setrlimit"), ("os", "nice")]

    def __init__(self, repo=None):
        self.repo = os.path.join(repo or os.environ.get("VERIF_REPO", "/repo"), "webauthn") + os.sep
        self.calls = []
        self.saved = []

    def __enter__(self):
        import importlib
        for modpath, attr in self.TARGETS:
            try:
                parts = modpath.split(".")
                holder = importlib.import_module(parts[0])
                for p in parts[1:]:
                    holder = getattr(holder, p)
                orig = getattr(holder, attr)
            except Exception:
                continue
            def wrapper(*a, __orig=orig, __name=f"{modpath}.{attr}", **kw):
                try:
                    f = sys._getframe(1)
                    fn = f.f_code.co_filename
                    if fn.startswith(self.repo):
                        self.calls.append({"call": __name, "from": fn[len(self.repo) - len("webauthn") - 1:] + f":{f.f_lineno}", "function": f.f_code.co_name})
                except Exception:
                    pass
                return __orig(*a, **kw)
            try:
                setattr(holder, attr, wrapper)
                self.saved.append((holder, attr, orig))
            except Exception:
                pass
        return self

    def __exit__(self, *exc):
        for holder, attr, orig in reversed(self.saved):
            try:
                setattr(holder, attr, orig)
            except Exception:
                pass
        return False

    def report(self, chk):
        seen = set()
        for c in self.calls:
            k = (c["call"], c["from"])
            if k in seen:
                continue
            seen.add(k)
            chk.diverge("the library is a set of pure functions of arguments, clock and OS random source (it does not re-configure the process)",
                        f"{c['from']} ({c['function']}) calls {c['call']}: process-global state that other threads' calls and later calls depend on", c)


def size_ladder(cap=None, floor=0):
    """Sizes / counts at which an unbounded quantity is exercised: one past each power-of-two-ish bound a "reasonable limit" could sit at, plus the
    neighbours of every NEW integer literal of the changed source (harness/srcdict.py).  The properties bound none of these quantities."""
    base = [17, 65, 257, 1025, 4097, 65537, 2 ** 20 + 1]
    try:
        from harness import srcdict
        for t in srcdict.thresholds():
            base += [t - 1, t, t + 1]
    except Exception:
        pass
    out = sorted({n for n in base if n >= floor and (cap is None or n <= cap)})
    return out


def _tree_digest(root):
    h = hashlib.sha256()
    for dp, dn, fn in sorted(os.walk(root)):
        dn.sort()
        for f in sorted(fn):
            if f.endswith((".py", ".json", ".pem", ".txt", ".cfg")) or "." not in f:
                h.update(os.path.relpath(os.path.join(dp, f), root).encode())
                h.update(hashlib.sha256(open(os.path.join(dp, f), "rb").read()).digest())
    return h.hexdigest()


def env_invariance(chk, *groups):
    for g in groups:
        _env_invariance(chk, g)


def _env_invariance(chk, group):
    """Runs harness.envprobe <group> once per environment (in parallel) and reports every case whose outcome differs from the default run."""
    import subprocess
    repo = os.environ.get("VERIF_REPO", "/repo")
    bundle_dir = os.path.join(BUILD, "ca_bundle")
    os.makedirs(bundle_dir, exist_ok=True)
    bundle = os.path.join(bundle_dir, "forged_roots.pem")
    try:
        from harness import regsim
        import time as _time
        _now = int(_time.time())
        pems = b"".join(regsim.PKI(t, root_cn=cn).root_pem() for t, cn in (("A", "Forged Root"), ("Z", "Unrelated Root")))
        pems += regsim.PKI("RT", root_nb=_now - 1000 * regsim.DAY, root_na=_now + 1000 * regsim.DAY).root_pem()      # a root valid at the real clock
        with open(bundle + f".{os.getpid()}", "wb") as f:
            f.write(pems)
        os.replace(bundle + f".{os.getpid()}", bundle)
    except Exception:
        pass
    # environment variables the CURRENT source mentions and the pinned source did not (harness/srcdict.py): each with a few plausible values
    environments = dict(ENVIRONMENTS)
    # the library imported from a zip archive instead of a directory of loose files (zipapp / pex / serverless bundles)
    try:
        import zipfile
        zpath = os.path.join(BUILD, "webauthn_%s.zip" % _tree_digest(os.path.join(repo, "webauthn"))[:16])
        if not os.path.exists(zpath):
            tmpz = zpath + f".{os.getpid()}"
            with zipfile.ZipFile(tmpz, "w") as z:
                for dp, dn, fn in os.walk(os.path.join(repo, "webauthn")):
                    for f in fn:
                        if not f.endswith((".pyc", ".pyo")):
                            z.write(os.path.join(dp, f), os.path.relpath(os.path.join(dp, f), repo))
            os.replace(tmpz, zpath)
        environments["the library imported from a zip archive"] = {"@pythonpath": zpath, "VERIF_LIB_PATH": zpath}
    except Exception:
        pass
    try:
        from harness import srcdict as _sd
        if _sd.new_imports():
            environments["optional packages the changed source imports are present (stand-ins): " + ", ".join(_sd.new_imports())[:80]] = {"VERIF_MASQUERADE": "phantom-modules"}
        for gm in _sd.new_guarded_imports():
            # a dependency whose import the changed source now guards with try / except: on a host where that import fails the library may do less, never accept more
            environments[f"degraded: importing {gm} fails inside the library (the changed source guards that import)"] = {"VERIF_MASQUERADE": "broken-import:" + gm, "@monotone": "1"}
        if _sd.paths():
            for content in ("1", "0", "true"):
                environments[f"files the changed source names exist and read '{content}': " + ", ".join(_sd.paths())[:80]] = {"VERIF_MASQUERADE": "files:" + content}
    except Exception:
        pass
    try:
        from harness import srcdict, regsim as _rs
        vals = ["0", "1", "true", "16", "1561939200", str(_rs.T0 - 400 * _rs.DAY)] + [str(n) for n in srcdict.new()["int"][:4]]
        for nm in srcdict.env_names():
            for v in vals:
                environments[f"{nm}={v} (a variable the changed source reads)"] = {nm: v}
    except Exception:
        pass
    # The probe's output is a function of (library source, harness source, group, environment): results are kept for an hour under a key made of
    # exactly those (content hashes, not paths or mtimes), so that the 20 checks of one pass do not recompute the same child runs.
    import time as _t
    cache_dir = os.environ.get("VERIF_ENVCACHE") or os.path.join(BUILD, "envcache")
    try:
        os.makedirs(cache_dir, exist_ok=True)
        tree = _tree_digest(os.path.join(repo, "webauthn")) + _tree_digest(os.path.join(ROOT, "harness"))
    except Exception:
        tree = None
    procs = {}
    outs = {}
    keys = {}
    for name, extra in environments.items():
        env = dict(os.environ)
        env.update({k: (bundle if v == "@forged_root_bundle" else bundle_dir if v == "@forged_root_dir" else v) for k, v in extra.items()})
        env["VERIF_REPO"] = repo
        env["PYTHONPATH"] = env.pop("@pythonpath", repo)
        env["PYTHONHASHSEED"] = "0"
        args = env.pop("@args", "").split()
        env.pop("@monotone", None)
        env.pop("@strict_groups", None)
        env.pop("@skip_labels", None)
        if tree is not None:
            keys[name] = os.path.join(cache_dir, hashlib.sha256(repr((tree, group, name, sorted(extra.items()), sys.version)).encode()).hexdigest()[:32] + ".json")
            try:
                if _t.time() - os.path.getmtime(keys[name]) < 3600:
                    rc_, lines_, err_ = json.load(open(keys[name]))
                    outs[name] = (rc_, lines_, err_)
                    continue
            except Exception:
                pass
        procs[name] = subprocess.Popen([sys.executable] + args + ["-m", "harness.envprobe", group], cwd=ROOT, env=env, stdout=subprocess.PIPE, stderr=subprocess.PIPE)
    for name, p in procs.items():
        o, e = p.communicate(timeout=900)
        outs[name] = (p.returncode, o.decode("utf-8", "replace").splitlines(), e.decode("utf-8", "replace")[-800:])
        if name in keys:
            try:
                tmp = keys[name] + f".{os.getpid()}"
                json.dump(outs[name], open(tmp, "w"))
                os.replace(tmp, keys[name])
            except Exception:
                pass
    rc0, base, err0 = outs["default"]
    if rc0 != 0 or not base:
        chk.diverge("harness.envprobe (default environment)", f"probe {group} did not complete: rc={rc0} {err0[-300:]}", {"group": group})
        return
    basemap = dict(l.split("\t", 1) for l in base if "\t" in l)
    n = 0
    for name, (rc, lines, err) in outs.items():
        if name == "default":
            continue
        if rc != 0:
            chk.violation(f"in the environment '{name}' the library could not even run the {group} cases: {err[-200:]}", f"environment {group} {name} crash",
                          {"environment": environments[name], "group": group, "stderr": err})
            continue
        m = dict(l.split("\t", 1) for l in lines if "\t" in l)
        for label, out in basemap.items():
            chk.evals += 1
            n += 1
            got = m.get(label)
            if environments[name].get("@skip_labels") and environments[name]["@skip_labels"] in label:
                continue
            if environments[name].get("@monotone") and group not in environments[name].get("@strict_groups", "").split(","):
                if not (got is not None and got.startswith("OK") and not out.startswith("OK")):
                    continue        # a degraded host may fail where the default one succeeds - it may not accept what the default one refuses
            if name.startswith("python -bb") and got is not None and not out.startswith("OK") and not got.startswith("OK") and " OK " not in out and " OK " not in got \
                    and re.search(r"-bytes-|not-a-string|-as-bytes", label):
                continue        # -bb turns Python's own bytes/str comparison of a WRONGLY TYPED member (a text member given as bytes) into a BytesWarning: a rejection either way.
                                # (Only for those cases: a well-typed response whose refusal turns into a BytesWarning - bytes formatted into a message - is reported.)
            if got != out:
                chk.violation(f"outcome depends on the process environment: case '{label}' gives '{out[:60]}' by default but '{str(m.get(label))[:60]}' under {name}",
                              f"environment {group} {name.split(' (')[0]} {label.split(' ')[0]} {label.split(' ')[1] if ' ' in label else ''}",
                              {"environment": environments[name], "group": group, "case": label, "default_outcome": out, "outcome": m.get(label)})
    chk.notes.append({"environment_invariance": {"group": group, "environments": list(environments), "cases": len(basemap), "comparisons": n}})
    chk.count(f"environment-invariance:{group}", n)



def checksum_twin_suffix(prefix, target, fn=None):
    """4 bytes x such that fn(prefix + x) == target, for a checksum that is affine over GF(2) in its input bits (zlib.crc32 by default): solved by Gaussian elimination on
    the 32 unit inputs.  None when the system has no solution."""
    import zlib
    fn = fn or zlib.crc32
    base = fn(prefix + bytes(4))
    cols = [fn(prefix + (1 << i).to_bytes(4, "big")) ^ base for i in range(32)]
    want = target ^ base
    rows = []          # (vector, combination)
    for i, c in enumerate(cols):
        comb = 1 << i
        for v, cb in rows:
            if c ^ v < c:
                c ^= v
                comb ^= cb
        if c:
            rows.append((c, comb))
            rows.sort(reverse=True)
    x = 0
    for v, cb in rows:
        if want ^ v < want:
            want ^= v
            x ^= cb
    return None if want else x.to_bytes(4, "big")
