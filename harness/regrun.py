"""Shared execution of registration cases: implementation vs model, refinement + direct evaluation."""
from harness import fw, impl, oracle, authsim, regsim, regcat

FORMS = ("text", "dict", "record")


class RegBench:
    def __init__(self, chk, br, oracle_obj=None):
        self.chk = chk
        self.O = oracle_obj or oracle.Oracle()
        self.R = fw.Runner(self.O) if br.runner_ok else None

    def close(self):
        try:
            self.double_fetch_probe()
        except Exception as e:
            self.chk.notes.append({"double_fetch_probe": "did not run: " + repr(e)[:200]})
        if self.R:
            self.R.close()

    def double_fetch_probe(self):
        """see AuthBench.double_fetch_probe: a registration whose clientDataJSON / attestationObject read as X first (what the ceremony checks want, unsigned) and as Y later
        (genuinely signed, for another ceremony / with other flags); X and Y are each refused when presented constantly"""
        if getattr(self, "_df_done", False):
            return
        self._df_done = True
        import webauthn, cbor2
        from webauthn.helpers.structs import RegistrationCredential, AuthenticatorAttestationResponse
        from harness import regsim
        chk = self.chk
        for fmt in ("packed-self", "packed"):
            variants = []
            # Y signed for another challenge; X = the expected client data next to Y's statement
            s1 = regsim.RScn(fmt, "ES256-P256")
            pd1, r1 = regsim.build(s1)
            s2 = regsim.RScn(fmt, "ES256-P256"); s2.challenge = b"another-challenge-of-another-ceremony"
            pd2, r2 = regsim.build(s2)
            P = policy_of(pd1)
            variants.append(("clientDataJSON", {"client_data_json": [r1.cdj, r2.cdj]}, dict(client_data_json=r2.cdj, attestation_object=r2.att_obj), P, r2))
            # Y signed with UV clear while the RP requires it; X = the same attestation object with the UV bit set (unsigned)
            s3 = regsim.RScn(fmt, "ES256-P256"); s3.flags = 0x41; s3.require_uv = True
            pd3, r3 = regsim.build(s3)
            ao = cbor2.loads(r3.att_obj)
            adb = bytearray(ao["authData"]); adb[32] |= 0x04
            ao_x = cbor2.dumps(dict(ao, authData=bytes(adb)))
            variants.append(("attestationObject (UV flag)", {"attestation_object": [ao_x, r3.att_obj]}, dict(client_data_json=r3.cdj, attestation_object=r3.att_obj), policy_of(pd3), r3))
            # Y attests another RP; X = authenticator data with the expected RP ID hash
            s4 = regsim.RScn(fmt, "ES256-P256"); s4.sign_rp_id = "other-rp.example"
            pd4, r4 = regsim.build(s4)
            ao4 = cbor2.loads(r4.att_obj)
            import hashlib
            ao4x = cbor2.dumps(dict(ao4, authData=hashlib.sha256(s4.rp_id.encode()).digest() + ao4["authData"][32:]))
            variants.append(("attestationObject (RP ID hash)", {"attestation_object": [ao4x, r4.att_obj]}, dict(client_data_json=r4.cdj, attestation_object=r4.att_obj), policy_of(pd4), r4))
            for what, seqs, y_fields, P, r in variants:
                y_fields = dict(y_fields, transports=None)
                cred_fields = dict(id=r.id_text, raw_id=r.cred_id, type="public-key", authenticator_attachment=None)
                x_fields = dict(y_fields)
                for k_, sq in seqs.items():
                    x_fields[k_] = sq[0]
                const = []
                for fields in (x_fields, y_fields):
                    rec = RegistrationCredential(response=AuthenticatorAttestationResponse(**fields), **cred_fields)
                    with impl.substituted(P.substitute, P.now):
                        const.append(impl.outcome(lambda: webauthn.verify_registration_response(credential=rec, **P.kwargs()), impl.pr_verified_reg))
                for later in (1, 2):
                    seqs2 = {k_: [sq[0]] * later + [sq[1]] for k_, sq in seqs.items()}
                    rec = impl.sequenced_record(RegistrationCredential, AuthenticatorAttestationResponse, cred_fields, y_fields, seqs2)
                    with impl.substituted(P.substitute, P.now):
                        o = impl.outcome(lambda: webauthn.verify_registration_response(credential=rec, **P.kwargs()), impl.pr_verified_reg)
                    chk.evals += 3
                    if o.startswith("OK") and not const[0].startswith("OK") and not const[1].startswith("OK"):
                        chk.violation(f"a registration whose {what} reads as one value on read {later} and as another afterwards is accepted although it is refused under EITHER value: what the checks saw is not what the statement covers (a field fetched twice within one call)",
                                      f"double-fetch reg {what} {fmt}", {"entry": "verify_registration_response", "policy": P.describe(), "fmt": fmt, "field": what, "first_reads": {k_: v[0].hex() for k_, v in seqs.items()},
                                                                         "later_reads": {k_: v[1].hex() for k_, v in seqs.items()}, "outcome": o[:300], "outcome_under_first_value": const[0][:200], "outcome_under_later_value": const[1][:200]})
                        break

    def run_case(self, pol, reg, form, expect, label, scn=None, known=None):
        """expect: 'accept' | 'reject' | None; pol: impl.RegPolicy"""
        chk = self.chk
        val = impl.reg_cred_value(form, reg)
        il = impl.verify_reg(pol, val)
        ml = None
        chk.evals += 1
        again = impl.verify_reg(pol, val)          # the very same call once more (same argument objects)
        rp = {"entry": "verify_registration_response", "label": label, "form": form, "policy": pol.describe(),
              "credential": reg.as_dict(), "id_text": reg.id_text, "type": reg.typ, "impl": il[:400]}
        if scn is not None:
            rp["scenario"] = scn.describe()
        if (pol.require_uv is True or pol.require_uv is False) and (pol.require_up is True or pol.require_up is False):
            import copy as _copy
            p2 = _copy.copy(pol)
            p2.require_uv, p2.require_up = (1 if pol.require_uv else 0), (1 if pol.require_up else 0)
            as_int = impl.verify_reg(p2, val)
            if as_int != il:
                chk.violation(f"require_user_verification={p2.require_uv} / require_user_presence={p2.require_up} give another outcome than the booleans ({label}): {as_int[:50]} instead of {il[:50]}",
                              f"policy-as-int reg {label.split('+')[0].split('/')[0]}", dict(rp, policy_as_int={"require_user_verification": p2.require_uv, "require_user_presence": p2.require_up}, outcome_as_int=as_int[:400]))
        if not il.startswith("OK"):
            import webauthn as _w9
            for pname, pval in impl.new_parameter_values("verify_registration_response"):
                kw9 = pol.kwargs()
                kw9[pname] = pval
                with impl.substituted(pol.substitute, pol.now):
                    o9 = impl.outcome(lambda: _w9.verify_registration_response(credential=val, **kw9), impl.pr_verified_reg)
                chk.evals += 1
                if o9.startswith("OK"):
                    chk.violation(f"with the new argument {pname}={pval!r} a response that is otherwise refused ({il[:40]}) is accepted ({label})", f"new-parameter reg {pname} {label.split('+')[0].split('/')[0]}",
                                  dict(rp, new_argument={pname: repr(pval)}, outcome_with_it=o9[:300]))
                    break
        eq = impl.equivalent_reg_calls(pol, reg)
        self._eq_n = getattr(self, "_eq_n", 0) + 1
        for j in ((self._eq_n * 2) % len(eq), (self._eq_n * 2 + 1) % len(eq)):
            nm, thunk = eq[j]
            o2 = thunk()
            chk.evals += 1
            if o2 != il and not (o2.startswith("ERR") and il.startswith("ERR") and reg.typ != "public-key"):
                chk.violation(f"the same call with {nm} gives another outcome ({label}): {o2[:50]} instead of {il[:50]}", f"argument-shape reg {nm} {label.split('+')[0].split('/')[0]}", dict(rp, argument_shape=nm, outcome=o2[:300]))
        if not il.startswith("OK") or self._eq_n % 3 == 0:
            import webauthn as _w8
            with impl.substituted(pol.substitute, pol.now):
                o8 = impl.reused_policy_containers(_w8.verify_registration_response, pol, val, reg.cdj, impl.pr_verified_reg)
            chk.evals += 2
            if o8 is not None and o8 != il:
                chk.violation(f"the call made with the RP's long-lived policy lists (edited in place since an earlier call) gives another outcome than with fresh lists ({label}): {o8[:50]} instead of {il[:50]}",
                              f"policy-container-reuse reg {label.split('+')[0].split('/')[0]}", dict(rp, reused_containers=True, outcome=o8[:300]))
        # policy switches that have their documented defaults (presence required, verification not required) may as well be left out - each one alone, or both
        defaults = {"require_user_presence": True, "require_user_verification": False}
        at_default = [k for k, dv in defaults.items() if (pol.require_up if k == "require_user_presence" else pol.require_uv) is dv]
        if at_default:
            import webauthn as _w
            self._omit_n = getattr(self, "_omit_n", 0) + 1
            drop = at_default if self._omit_n % 3 == 0 else [at_default[self._omit_n % len(at_default)]]
            kw = pol.kwargs()
            for k in drop:
                kw.pop(k, None)
            with impl.substituted(pol.substitute, pol.now):
                omitted = impl.outcome(lambda: _w.verify_registration_response(credential=val, **kw), impl.pr_verified_reg)
            chk.evals += 1
            if omitted != il:
                chk.violation(f"leaving {' and '.join(drop)} out (documented defaults) gives another outcome than passing them ({label}): {omitted[:50]} instead of {il[:50]}",
                              f"policy-omitted reg {'+'.join(drop)} {label.split('+')[0].split('/')[0]}", dict(rp, omitted=drop, outcome_when_omitted=omitted[:300]))
        # the same ceremony with the attestation object in another encoding CBOR allows for the same value (member order, indefinite lengths, wider length fields):
        # accepted stays accepted, refused stays refused
        if scn is not None and "ao_style" not in scn.k and getattr(reg, "att_obj", None) is not None and reg.typ == "public-key":
            from harness import cborgen, regsim as _regsim
            import cbor2 as _cbor2
            self._style_n = getattr(self, "_style_n", 0) + 1
            style = cborgen.AO_STYLES[1 + self._style_n % (len(cborgen.AO_STYLES) - 1)]
            try:
                ao_val = _cbor2.loads(reg.att_obj)
                styled = cborgen.encode_styled(ao_val, style) if isinstance(ao_val, dict) and _cbor2.dumps(ao_val) == reg.att_obj else None
            except Exception:
                styled = None
            if styled is not None:
                reg2 = _regsim.Registration(reg.cred, reg.cred_id, reg.cdj, styled, id_text=reg.id_text, typ=reg.typ)
                for a_ in ("attachment", "client_ext", "extra_response_members", "transports"):
                    if hasattr(reg, a_):
                        setattr(reg2, a_, getattr(reg, a_))
                o2 = impl.verify_reg(pol, reg2.as_dict())
                chk.evals += 1
                if o2.startswith("OK") != il.startswith("OK"):
                    chk.violation(f"the same registration with its attestation object encoded differently ({style}) is {'accepted' if o2.startswith('OK') else 'refused'} instead of {'accepted' if il.startswith('OK') else 'refused'} ({label})",
                                  f"attestation-object-encoding {style} {label.split('+')[0].split('/')[0]}", dict(rp, encoding=style, attestation_object_hex=styled.hex()[:2000], outcome=o2[:300]))
            # ... and with a statement member that its format does not read (another format's member), holding a CBOR value of any kind - tagged items cbor2 has no
            # decoder for, unassigned simple values, nested containers of them: same verdict, and never a non-library exception
            UNREAD = {"packed": ("ver", "response", "certInfo"), "tpm": ("response",), "fido-u2f": ("alg", "ver"), "apple": ("sig", "alg", "ver"), "android-key": ("ver", "response"),
                      "android-safetynet": ("alg", "sig", "pubArea")}
            try:
                fmt_ = ao_val.get("fmt") if isinstance(ao_val, dict) else None
            except Exception:
                fmt_ = None
            if fmt_ in UNREAD and isinstance(ao_val.get("attStmt"), dict) and _cbor2.dumps(ao_val) == reg.att_obj:
                oddities = [_cbor2.CBORTag(24, b"\x01"), _cbor2.CBORTag(12345, "x"), _cbor2.CBORSimpleValue(20), [_cbor2.CBORTag(99, 1)], {"k": _cbor2.CBORSimpleValue(99)}, _cbor2.CBORTag(55799, [b"\x00"]), _cbor2.undefined, 1.5, None]
                member = next((m for m in UNREAD[fmt_] if m not in ao_val["attStmt"]), None)
                if member is not None:
                    ao2 = dict(ao_val, attStmt=dict(ao_val["attStmt"], **{member: oddities[self._style_n % len(oddities)]}))
                    reg3 = _regsim.Registration(reg.cred, reg.cred_id, reg.cdj, _cbor2.dumps(ao2), id_text=reg.id_text, typ=reg.typ)
                    for a_ in ("attachment", "client_ext", "extra_response_members", "transports"):
                        if hasattr(reg, a_):
                            setattr(reg3, a_, getattr(reg, a_))
                    o3 = impl.verify_reg(pol, reg3.as_dict())
                    chk.evals += 1
                    if o3.startswith("OK") != il.startswith("OK") or (o3.startswith("ERR") and o3.split()[1][:4] != il.split()[1][:4]):
                        chk.violation(f"the same registration with the unread statement member {member!r} = {oddities[self._style_n % len(oddities)]!r} gives {o3[:50]} instead of {il[:50]} ({label})",
                                      f"unread-statement-member {fmt_} {member} {label.split('+')[0].split('/')[0]}", dict(rp, unread_member=member, attestation_object_hex=reg3.att_obj.hex()[:2000], outcome=o3[:300]))
        if again != il:
            chk.violation(f"the same call repeated gives another outcome ({label}): {il[:50]} then {again[:50]}", f"repeat-call reg {label.split('+')[0].split('/')[0]}", dict(rp, second_outcome=again[:400]))
        if self.R:
            ml = self.R.call("verifyreg " + pol.wire() + " " + impl.reg_cred_wire(form, reg))
            rp["model"] = ml[:400]
            if ml.startswith("DRIVER-ERROR"):
                chk.diverge("driver", ml, rp)
            elif not fw.exn_refines(ml, il):
                chk.diverge("Model.verify_reg", f"{label}/{form}: model {ml[:90]} impl {il[:90]}", rp)
        if expect == "reject" and il.startswith("OK"):
            # combinations of two catalogue entries can cancel each other (e.g. "credential exponent 3" + "pubArea exponent 3"): for them the proven
            # model decides whether the combination is a deviation at all, whatever the strictness for single entries
            strict = getattr(chk, "strict_catalogue", False) and "+" not in label.split("/")[0]
            if ml is not None and ml.startswith("OK") and chk.proofs_ok and known is None and not strict:
                chk.notes.append({"catalogue-inconsistency": label, "form": form})
                print(f"[{chk.pid}] WARNING catalogue entry {label} is accepted by the proven model: not a deviation")
            else:
                chk.violation(f"deviating registration accepted ({label})", f"reg-accepts {label}", rp)
        if expect == "accept" and not il.startswith("OK"):
            chk.violation(f"conformant registration rejected ({label}): {il}", f"reg-rejects-valid {label} {il}", rp)
        chk.count(("accept:" if il.startswith("OK") else "reject:") + label.split("+")[0].split("/")[0])
        chk.seen((label, form, il[:40], pol.require_uv, pol.require_up, reg.cred.kind))
        return il, ml


def policy_of(pd):
    return impl.RegPolicy(**pd)
