"""Chains judged at the REAL clock with nothing substituted (no store hook, no simulated time)."""
import time
from harness import regsim


def remarkable_dates(chk, tz):
    """remarkable dates on one certificate of a chain do not excuse the others"""
    from webauthn.helpers.validate_certificate_chain import validate_certificate_chain as vcc
    now = int(time.time())
    H = 3600
    # remarkable dates (the Unix epoch, 2038, the UTCTime / GeneralizedTime switch of 2050, RFC 5280's "no well-defined expiration" 9999-12-31) on one
    # certificate of the chain do not excuse the others: still the real clock, still nothing substituted
    FOREVER, EPOCH, Y2038, Y2050 = 253402300799, 0, 2 ** 31, 2524608000
    for what, kw, lnb, lna, exp in (("leaf valid until 9999, intermediate expired", dict(inter_nb=now - 100 * regsim.DAY, inter_na=now - regsim.DAY), now - H, FOREVER, False),
                                    ("leaf valid until 9999, intermediate not yet valid", dict(inter_nb=now + regsim.DAY, inter_na=now + 100 * regsim.DAY), now - H, FOREVER, False),
                                    ("leaf valid until 9999, root expired", dict(root_nb=now - 1000 * regsim.DAY, root_na=now - regsim.DAY), now - H, FOREVER, False),
                                    ("leaf valid from tomorrow until 9999", {}, now + regsim.DAY, FOREVER, False),
                                    ("leaf valid since the epoch, expired yesterday", {}, EPOCH, now - regsim.DAY, False),
                                    ("leaf valid since the epoch until 9999 (control)", {}, EPOCH, FOREVER, True),
                                    ("leaf valid until 2050-01-01 exactly, intermediate expired", dict(inter_nb=now - 100 * regsim.DAY, inter_na=now - regsim.DAY), now - H, Y2050, False),
                                    ("leaf valid until 2038-01-19, intermediate expired", dict(inter_nb=now - 100 * regsim.DAY, inter_na=now - regsim.DAY), now - H, max(Y2038, now + H), False)):
        base_kw = dict(root_nb=now - 1000 * regsim.DAY, root_na=now + 1000 * regsim.DAY, inter_nb=now - 100 * regsim.DAY, inter_na=now + 100 * regsim.DAY)
        base_kw.update(kw)
        p2 = regsim.PKI("RT", n_inter=1, **base_kw)
        leaf = p2.leaf(regsim.name("real-clock leaf"), regsim.ec_key("helper_leaf").public_key(), nb=lnb, na=lna)
        try:
            vcc(x5c=p2.chain_der(leaf), pem_root_certs_bytes=[p2.root_pem()])
            ok = True
        except Exception:
            ok = False
        chk.evals += 1
        if ok != exp:
            chk.violation(f"real clock, TZ={tz}: chain with {what} {'accepted' if ok else 'rejected'}", f"real-clock-dates {what} TZ={tz}", {"entry": "validate_certificate_chain", "TZ": tz, "chain": what, "accepted": ok, "x5c": [c.hex() for c in p2.chain_der(leaf)]})
        chk.seen(("real-clock-dates", tz, what))
