"""Chains judged at the REAL clock with nothing substituted (no store hook, no simulated time)."""
import time
from harness import regsim


def remarkable_dates(chk, tz):
    """remarkable dates on one certificate of a chain do not excuse the others"""
    from webauthn.helpers.validate_certificate_chain import validate_certificate_chain as vcc
    now = int(time.time())
    H = 3600
    # remarkable dates (the Unix epoch, 2038, the UTCTime / GeneralizedTime switch of 2050, RFC 5280's "no well-defined expiration" 9999-12-31) on one
    # certificate of the chain do not excuse the others: still the real clock, still nothing substituted
    FOREVER, EPOCH, Y2038, Y2050 = 253402300799, 0, 2 ** 31, 2524608000
    for what, kw, lnb, lna, exp in (("leaf valid until 9999, intermediate expired", dict(inter_nb=now - 100 * regsim.DAY, inter_na=now - regsim.DAY), now - H, FOREVER, False),
                                    ("leaf valid until 9999, intermediate not yet valid", dict(inter_nb=now + regsim.DAY, inter_na=now + 100 * regsim.DAY), now - H, FOREVER, False),
                                    ("leaf valid until 9999, root expired", dict(root_nb=now - 1000 * regsim.DAY, root_na=now - regsim.DAY), now - H, FOREVER, False),
                                    ("leaf valid from tomorrow until 9999", {}, now + regsim.DAY, FOREVER, False),
                                    ("leaf valid since the epoch, expired yesterday", {}, EPOCH, now - regsim.DAY, False),
                                    ("leaf valid since the epoch until 9999 (control)", {}, EPOCH, FOREVER, True),
                                    ("an X.509 v1 root that expired yesterday", dict(root_nb=now - 3000 * regsim.DAY, root_na=now - regsim.DAY, root_v1=True), now - H, now + regsim.DAY, False),
                                    ("an X.509 v1 root valid from tomorrow", dict(root_nb=now + regsim.DAY, root_na=now + 3000 * regsim.DAY, root_v1=True), now - H, now + regsim.DAY, False),
                                    ("an X.509 v1 root, everything valid (control)", dict(root_v1=True), now - H, now + regsim.DAY, True),
                                    ("a root that expired an hour ago", dict(root_nb=now - 3000 * regsim.DAY, root_na=now - H), now - H, now + regsim.DAY, False),
                                    ("a leaf whose issuer name is spelled differently, expired yesterday", dict(), now - 30 * regsim.DAY, now - regsim.DAY, False),
                                    ("leaf valid until 2050-01-01 exactly, intermediate expired", dict(inter_nb=now - 100 * regsim.DAY, inter_na=now - regsim.DAY), now - H, Y2050, False),
                                    ("leaf valid until 2038-01-19, intermediate expired", dict(inter_nb=now - 100 * regsim.DAY, inter_na=now - regsim.DAY), now - H, max(Y2038, now + H), False)):
        base_kw = dict(root_nb=now - 1000 * regsim.DAY, root_na=now + 1000 * regsim.DAY, inter_nb=now - 100 * regsim.DAY, inter_na=now + 100 * regsim.DAY)
        base_kw.update(kw)
        p2 = regsim.PKI("RT", n_inter=1, **base_kw)
        p2.leaf_issuer_respelled = "spelled differently" in what
        leaf = p2.leaf(regsim.name("real-clock leaf"), regsim.ec_key("helper_leaf").public_key(), nb=lnb, na=lna)
        try:
            vcc(x5c=p2.chain_der(leaf), pem_root_certs_bytes=[p2.root_pem()])
            ok = True
        except Exception:
            ok = False
        chk.evals += 1
        if ok != exp:
            chk.violation(f"real clock, TZ={tz}: chain with {what} {'accepted' if ok else 'rejected'}", f"real-clock-dates {what} TZ={tz}", {"entry": "validate_certificate_chain", "TZ": tz, "chain": what, "accepted": ok, "x5c": [c.hex() for c in p2.chain_der(leaf)]})
        chk.seen(("real-clock-dates", tz, what))


def boundary_crossed_while_running(chk):
    """a certificate that becomes valid (another that expires) a few seconds from now: refused (accepted) now, accepted (refused) a few seconds later - the clock is read
    at each call, not when the library was imported or first used"""
    from webauthn.helpers.validate_certificate_chain import validate_certificate_chain as vcc
    now = int(time.time())
    p = regsim.PKI("RT", n_inter=1, root_nb=now - 1000 * regsim.DAY, root_na=now + 1000 * regsim.DAY, inter_nb=now - 100 * regsim.DAY, inter_na=now + 100 * regsim.DAY)
    soon = p.leaf(regsim.name("valid in 3 s"), regsim.ec_key("helper_leaf").public_key(), nb=now + 3, na=now + 3600)
    ending = p.leaf(regsim.name("expires in 3 s"), regsim.ec_key("helper_leaf").public_key(), nb=now - 3600, na=now + 3)
    def ok(leaf):
        try:
            vcc(x5c=p.chain_der(leaf), pem_root_certs_bytes=[p.root_pem()])
            return True
        except Exception:
            return False
    first = (ok(soon), ok(ending), time.time())
    time.sleep(max(0.0, now + 5 - time.time()))
    second = (ok(soon), ok(ending), time.time())
    chk.evals += 4
    if first[2] < now + 2.5 and (first[0], first[1]) != (False, True):
        chk.violation("real clock: a leaf valid in 3 s accepted / a leaf expiring in 3 s refused", "real-clock-boundary before", {"entry": "validate_certificate_chain", "soon_valid_accepted": first[0], "soon_expired_accepted": first[1]})
    if (second[0], second[1]) != (True, False):
        chk.violation("real clock: five seconds later the verdicts on a leaf that has become valid / has expired meanwhile did not follow the clock", "real-clock-boundary after",
                      {"entry": "validate_certificate_chain", "history": "same process, same certificates, 5 s apart", "became_valid_accepted": second[0], "expired_accepted": second[1],
                       "x5c_soon": [c.hex() for c in p.chain_der(soon)]})
