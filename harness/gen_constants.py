#!/venv/bin/python
"""Reflective constant export: /repo's live modules -> coq/Generated/Constants.v.

Fail-closed: anything missing or of an unexpected Python type aborts the export (exit 2) and the
check reports the broken tie.  Output is deterministic (definition order, never hash order).
Run with PYTHONPATH=/repo PYTHONHASHSEED=0.
"""
import sys, os, enum, inspect

REPO = os.environ.get("VERIF_REPO", "/repo")
sys.path.insert(0, REPO)


class ExportError(Exception):
    pass


def need(cond, msg):
    if not cond:
        raise ExportError(msg)


def qs(s):
    need(isinstance(s, str), f"expected str, got {type(s)}")
    need(all(32 <= ord(c) < 127 and c != '"' for c in s), f"non printable-ASCII constant {s!r}")
    return '"' + s + '"'


def zlit(n):
    need(isinstance(n, int) and not isinstance(n, bool), f"expected int, got {type(n)}")
    return f"({n})" if n < 0 else str(n)


def lst(items):
    return "[" + "; ".join(items) + "]"


def enum_pairs_int(E):
    need(inspect.isclass(E) and issubclass(E, enum.Enum), f"{E} is not an Enum")
    out = []
    for name, m in E.__members__.items():  # includes aliases (COSEKey.N = CRV)
        need(isinstance(m.value, int), f"{E.__name__}.{name} not int")
        out.append(f"({qs(name)}, {zlit(int(m.value))})")
    return lst(out)


def enum_pairs_str(E):
    need(inspect.isclass(E) and issubclass(E, enum.Enum), f"{E} is not an Enum")
    out = []
    for name, m in E.__members__.items():
        need(isinstance(m.value, str), f"{E.__name__}.{name} not str")
        out.append(f"({qs(name)}, {qs(m.value)})")
    return lst(out)


def bytes2_map(m, E):
    need(isinstance(m, dict), "map is not a dict")
    out = []
    for k, v in m.items():
        need(isinstance(k, (bytes, bytearray)), f"key {k!r} not bytes")
        need(isinstance(v, E), f"value {v!r} not {E.__name__}")
        # keys of any length are exported as (length, big-endian value)
        out.append(f"(({len(k)}, {int.from_bytes(k, 'big')}), {qs(v.name)})")
    return lst(out)


def spy_scheme_table():
    """Behavioural export of verify_signature's scheme choice: spy keys record what is handed to
    the key object for each (key kind, declared algorithm)."""
    from cryptography.hazmat.primitives.asymmetric.ec import EllipticCurvePublicKey, ECDSA
    from cryptography.hazmat.primitives.asymmetric.rsa import RSAPublicKey
    from cryptography.hazmat.primitives.asymmetric.ed25519 import Ed25519PublicKey
    from cryptography.hazmat.primitives.asymmetric.padding import PSS, PKCS1v15, MGF1
    from cryptography.hazmat.primitives import hashes
    from cryptography.exceptions import InvalidSignature
    from webauthn.helpers.verify_signature import verify_signature
    from webauthn.helpers.cose import COSEAlgorithmIdentifier
    from webauthn.helpers.exceptions import WebAuthnException

    rec = []

    class SpyEC:
        def verify(self, *a, **k):
            rec.append(("ec", a, k))

    class SpyRSA:
        def verify(self, *a, **k):
            rec.append(("rsa", a, k))

    class SpyEd:
        def verify(self, *a, **k):
            rec.append(("ed", a, k))

    class SpyOther:
        def verify(self, *a, **k):
            rec.append(("other", a, k))

    EllipticCurvePublicKey.register(SpyEC)
    RSAPublicKey.register(SpyRSA)
    Ed25519PublicKey.register(SpyEd)

    def hname(h):
        for nm, cls in (("SHA1", hashes.SHA1), ("SHA256", hashes.SHA256), ("SHA384", hashes.SHA384), ("SHA512", hashes.SHA512)):
            if type(h) is cls:
                return nm
        raise ExportError(f"unexpected hash object {h!r}")

    members = [int(m.value) for m in COSEAlgorithmIdentifier]
    probes = []
    for v in members + [0, 1, -1, 2, 7, 8, 2 ** 63, -(2 ** 63), -65536, -65534]:
        for d in (0,) if v not in members else (-1, 0, 1):
            if v + d not in probes:
                probes.append(v + d)
    SIG, MSG = b"\x01sig", b"\x02msg"
    rows = []
    for kind, spy in (("KEC", SpyEC()), ("KRSA", SpyRSA()), ("KED", SpyEd()), ("KOTHER", SpyOther())):
        for alg in probes:
            del rec[:]
            # enum members are passed as the enum (as the library does after decoding), other ints raw
            try:
                a = COSEAlgorithmIdentifier(alg)
            except ValueError:
                a = alg
            try:
                verify_signature(public_key=spy, signature_alg=a, signature=SIG, data=MSG)
                need(len(rec) == 1, f"verify_signature({kind},{alg}) made {len(rec)} key calls")
                _, args, kw = rec[0]
                need(not kw, "keyword args passed to key.verify")
                need(args[0] == SIG and args[1] == MSG, f"verify_signature({kind},{alg}) altered sig/data")
                if kind == "KEC":
                    need(len(args) == 3 and type(args[2]) is ECDSA, "EC verify without ECDSA()")
                    need(not getattr(args[2], "deterministic_signing", False), "deterministic ECDSA")
                    res = f"SchOk (ECDSA {hname(args[2].algorithm)})"
                elif kind == "KRSA":
                    need(len(args) == 4, "RSA verify arity")
                    pad, h = args[2], args[3]
                    if type(pad) is PKCS1v15:
                        res = f"SchOk (PKCS1 {hname(h)})"
                    elif type(pad) is PSS:
                        need(type(pad._mgf) is MGF1 and hname(pad._mgf._algorithm) == hname(h), "PSS MGF1 hash differs")
                        need(pad._salt_length is PSS.MAX_LENGTH or pad._salt_length is PSS.AUTO, f"PSS salt length {pad._salt_length!r}")
                        res = f"SchOk (PSS {hname(h)})"
                    else:
                        raise ExportError(f"unexpected RSA padding {pad!r}")
                elif kind == "KED":
                    need(len(args) == 2, "Ed25519 verify arity")
                    res = "SchOk ED25519"
                else:
                    raise ExportError("verify called on unsupported key kind")
            except WebAuthnException as e:
                need(type(e).__module__ == "webauthn.helpers.exceptions", "foreign exception class")
                res = f"SchErr {type(e).__name__}"
            rows.append(f"(({kind}, {zlit(alg)}), {res})")
    return lst(rows), lst([zlit(p) for p in probes])


def main(out_path):
    import webauthn
    need(os.path.realpath(webauthn.__file__).startswith(os.path.realpath(REPO) + os.sep), f"webauthn imported from {webauthn.__file__}, not {REPO}")
    from webauthn.helpers import exceptions as X
    import importlib
    from webauthn.helpers import cose, structs
    HB = importlib.import_module('webauthn.helpers.hash_by_alg')
    from webauthn.helpers.tpm import structs as T
    from webauthn.registration import generate_registration_options as G
    from webauthn.registration import verify_registration_response as VR
    from webauthn.authentication import verify_authentication_response as VA
    from webauthn.helpers import known_root_certs as K
    import hashlib

    L = []
    A = L.append
    A("(* GENERATED by harness/gen_constants.py from the live modules under /repo. Do not edit. *)")
    A("From Coq Require Import ZArith List String.")
    A("From PW Require Import Model.Base Model.SigTypes.")
    A("Import ListNotations.")
    A("Open Scope Z_scope. Open Scope string_scope. Open Scope list_scope.")
    A("")
    # exception hierarchy
    rows = []
    for name, obj in vars(X).items():
        if inspect.isclass(obj) and obj.__module__ == X.__name__:
            need(issubclass(obj, BaseException), f"{name} is not an exception")
            mro = [c.__name__ for c in obj.__mro__ if c is not obj]
            rows.append(f"({qs(name)}, {lst([qs(m) for m in mro])})")
    A(f"Definition exception_classes : list (string * list string) := {lst(rows)}.")
    A(f"Definition exception_base : string := {qs(X.WebAuthnException.__name__)}.")
    # enums
    for nm, E in (("cose_alg", cose.COSEAlgorithmIdentifier), ("cose_kty", cose.COSEKTY), ("cose_crv", cose.COSECRV), ("cose_key", cose.COSEKey)):
        A(f"Definition {nm}_enum : list (string * Z) := {enum_pairs_int(E)}.")
    for nm, E in (
        ("transport", structs.AuthenticatorTransport), ("attachment", structs.AuthenticatorAttachment),
        ("resident_key", structs.ResidentKeyRequirement), ("user_verification", structs.UserVerificationRequirement),
        ("attestation_pref", structs.AttestationConveyancePreference), ("cred_type", structs.PublicKeyCredentialType),
        ("att_format", structs.AttestationFormat), ("client_data_type", structs.ClientDataType),
        ("token_binding_status", structs.TokenBindingStatus), ("hint", structs.PublicKeyCredentialHint),
        ("device_type", structs.CredentialDeviceType),
        ("tpm_st", T.TPM_ST), ("tpm_alg", T.TPM_ALG), ("tpm_ecc_curve", T.TPM_ECC_CURVE),
    ):
        A(f"Definition {nm}_enum : list (string * string) := {enum_pairs_str(E)}.")
    # default algorithms: generator default list, generator default params, verifier's default ARGUMENT OBJECT
    def alg_list(l, what):
        need(isinstance(l, list), f"{what} is not a list")
        return lst([zlit(int(a)) for a in l])
    A(f"Definition default_algs_generator : list Z := {alg_list(G.default_supported_pub_key_algs, 'default_supported_pub_key_algs')}.")
    need(isinstance(G.default_supported_pub_key_params, list), "default_supported_pub_key_params not list")
    A("Definition default_params_generator : list (string * Z) := " + lst([f"({qs(p.type)}, {zlit(int(p.alg))})" for p in G.default_supported_pub_key_params]) + ".")
    sig = inspect.signature(VR.verify_registration_response)
    dflt = sig.parameters["supported_pub_key_algs"].default
    A(f"Definition default_algs_verifier : list Z := {alg_list(dflt, 'verify_registration_response default')}.")
    for p, d in (("require_user_presence", True), ("require_user_verification", False)):
        need(sig.parameters[p].default is d, f"default of {p} changed")
    need(inspect.signature(VA.verify_authentication_response).parameters["require_user_verification"].default is False, "auth require_uv default changed")
    # what an options generator call with no algorithm list actually offers (behavioural)
    o = G.generate_registration_options(rp_id="a", rp_name="b", user_name="c")
    A("Definition default_params_offered : list (string * Z) := " + lst([f"({qs(p.type)}, {zlit(int(p.alg))})" for p in o.pub_key_cred_params]) + ".")
    A(f"Definition token_binding_ok_auth : list string := {lst([qs(s.value) for s in VA.expected_token_binding_statuses])}.")
    A(f"Definition token_binding_ok_reg : list string := {lst([qs(s.value) for s in VR.expected_token_binding_statuses])}.")
    # hash_by_alg membership lists
    for nm in ("SHA_256", "SHA_384", "SHA_512", "SHA_1"):
        A(f"Definition hash_by_alg_{nm} : list Z := {alg_list(getattr(HB, nm), nm)}.")
    # TPM tables
    A(f"Definition tpm_st_map : list ((Z * Z) * string) := {bytes2_map(T.TPM_ST_MAP, T.TPM_ST)}.")
    A(f"Definition tpm_alg_map : list ((Z * Z) * string) := {bytes2_map(T.TPM_ALG_MAP, T.TPM_ALG)}.")
    A(f"Definition tpm_ecc_curve_map : list ((Z * Z) * string) := {bytes2_map(T.TPM_ECC_CURVE_MAP, T.TPM_ECC_CURVE)}.")
    need(all(isinstance(k, T.TPM_ECC_CURVE) for k in T.TPM_ECC_CURVE_COSE_CRV_MAP), "curve map keys")
    A("Definition tpm_curve_cose_map : list (string * Z) := " + lst([f"({qs(k.name)}, {zlit(int(v))})" for k, v in T.TPM_ECC_CURVE_COSE_CRV_MAP.items()]) + ".")
    need(all(isinstance(k, T.TPM_ALG) for k in T.TPM_ALG_COSE_ALG_MAP), "alg map keys")
    A("Definition tpm_alg_cose_map : list (string * Z) := " + lst([f"({qs(k.name)}, {zlit(int(v))})" for k, v in T.TPM_ALG_COSE_ALG_MAP.items()]) + ".")
    need(isinstance(T.TPM_MANUFACTURERS, dict), "TPM_MANUFACTURERS")
    A(f"Definition tpm_manufacturers : list string := {lst([qs(k) for k in T.TPM_MANUFACTURERS])}.")
    # built-in roots: opaque ids (sha256 of the PEM bytes, first 8 bytes as Z) per format
    def rid(b):
        need(isinstance(b, (bytes, bytearray)), "root is not bytes")
        return zlit(int.from_bytes(hashlib.sha256(bytes(b)).digest()[:8], "big"))
    A(f"Definition builtin_roots_apple : list Z := {lst([rid(K.apple_webauthn_root_ca)])}.")
    A("Definition builtin_roots_android_key : list Z := " + lst([rid(getattr(K, f'google_hardware_attestation_root_{i}')) for i in (1, 2, 3, 4)]) + ".")
    A(f"Definition builtin_roots_safetynet : list Z := {lst([rid(K.globalsign_r2), rid(K.globalsign_root_ca)])}.")
    tbl, probes = spy_scheme_table()
    A(f"Definition sig_probe_algs : list Z := {probes}.")
    A(f"Definition sig_table : list ((key_kind * Z) * scheme_res) := {tbl}.")
    text = "\n".join(L) + "\n"
    old = None
    if os.path.exists(out_path):
        old = open(out_path).read()
    if old != text:
        os.makedirs(os.path.dirname(out_path), exist_ok=True)
        open(out_path, "w").write(text)
        print("constants: rewritten")
    else:
        print("constants: unchanged")


if __name__ == "__main__":
    try:
        main(sys.argv[1] if len(sys.argv) > 1 else os.path.join(os.path.dirname(os.path.dirname(os.path.abspath(__file__))), "coq", "Generated", "Constants.v"))
    except ExportError as e:
        print(f"EXPORT-ERROR: {e}")
        sys.exit(2)
    except Exception as e:  # import failure etc: also a broken tie
        import traceback
        traceback.print_exc()
        print(f"EXPORT-ERROR: {type(e).__name__}: {e}")
        sys.exit(2)
