"""Generators of CBOR values in the modelled subset and of authenticator data layouts."""
import struct, cbor2
from harness import authsim


def gen_value(rng, depth=0):
    k = rng.random()
    if depth > 3 or k < 0.45:
        t = rng.randrange(7)
        if t == 0:
            return rng.choice([0, 1, 23, 24, 255, 256, 65535, 65536, 2 ** 32 - 1, 2 ** 32, 2 ** 64 - 1, rng.randrange(2 ** 64)])
        if t == 1:
            return -rng.choice([1, 24, 25, 256, 257, 65536, 65537, 2 ** 32, 2 ** 32 + 1, 2 ** 64])
        if t == 2:
            return rng.randbytes(rng.choice([0, 1, 23, 24, 255, 256, 300]))
        if t == 3:
            return rng.choice(["", "a", "credProtect", "é€😀", "x" * 24, "y" * 256])
        if t == 4:
            return rng.choice([True, False])
        if t == 5:
            return None
        return rng.choice([cbor2.undefined, 0, b"", ""])
    if k < 0.7:
        return [gen_value(rng, depth + 1) for _ in range(rng.choice([0, 1, 2, 3, 24]))]
    d = {}
    for _ in range(rng.choice([0, 1, 2, 3, 5])):
        key = rng.choice([rng.randrange(-30, 30), rng.choice(["a", "bb", "credProtect", "hmac-secret"]), rng.randbytes(2), rng.randrange(2 ** 20)])
        d[key] = gen_value(rng, depth + 1)
    return d


# registered authenticator extension outputs, as they look at registration and at authentication (WebAuthn / CTAP 2.1)
KNOWN_EXT = {
    "credProtect": [1, 2, 3], "hmac-secret": [True, False, bytes(32), bytes(64)], "credBlob": [True, False, b"", b"blob-bytes"], "minPinLength": [4, 6, 63],
    "uvm": [[[2, 4, 2]], [[1, 1, 1]], [[2, 4, 2], [4, 4, 2]], [[0x200, 1, 1]]], "largeBlobKey": [bytes(32)], "thirdPartyPayment": [True],
    "hmac-secret-mc": [bytes(48)], "prf": [{"first": bytes(32)}], "appid": [True], "txAuthSimple": ["ok"], "devicePubKey": [{"dpk": bytes(77), "sig": bytes(70)}],
}


def known_ext(rng, n=None):
    names = list(KNOWN_EXT)
    return {k: rng.choice(KNOWN_EXT[k]) for k in rng.sample(names, n if n is not None else rng.choice([1, 1, 2, 3]))}


def gen_ext(rng):
    if rng.random() < 0.5:
        return known_ext(rng)
    d = {}
    for _ in range(rng.choice([0, 1, 2, 4])):
        d[rng.choice(["credProtect", "hmac-secret", "credBlob", "minPinLength", "x" * 30])] = gen_value(rng, 1)
    return d


def cose_key(rng):
    t = rng.randrange(5)
    if t == 0:
        L = rng.choice([32, 48, 66])
        return {1: 2, 3: rng.choice([-7, -36]), -1: {32: 1, 48: 2, 66: 3}[L], -2: rng.randbytes(L), -3: rng.randbytes(L)}
    if t == 1:
        return {1: 1, 3: -8, -1: 6, -2: rng.randbytes(32)}
    if t == 2:
        return {1: 3, 3: rng.choice([-257, -37, -65535]), -1: rng.randbytes(256), -2: b"\x01\x00\x01"}
    if t == 3:
        return authsim.Cred(rng.choice(["ES256-P256", "EdDSA", "RS256"])).cose
    return {1: 2, 3: -7, -1: 1, -2: rng.randbytes(32), -3: rng.randbytes(32), "extra": gen_value(rng, 2)}


def layout(rng):
    """-> (bytes, expected fields dict)"""
    rp = rng.randbytes(32)
    flags = rng.randrange(256)
    count = rng.choice([0, 1, 2 ** 31 - 1, 2 ** 31, 2 ** 32 - 1, rng.randrange(2 ** 32)])
    out = rp + bytes([flags]) + struct.pack(">I", count)
    exp = {"rp": rp, "flags": flags, "count": count, "att": None, "ext": None}
    if flags & 0x40:
        aaguid = rng.randbytes(16)
        cid = rng.randbytes(rng.choice([0, 1, 16, 32, 64, 255, 256, 1023, rng.randrange(0, 1024)]))
        key = cbor2.dumps(cose_key(rng))
        out += aaguid + struct.pack(">H", len(cid)) + cid + key
        exp["att"] = (aaguid, cid, key)
    if flags & 0x80:
        ext = cbor2.dumps(gen_ext(rng))
        out += ext
        exp["ext"] = ext
    return out, exp


def hostile_cbor():
    """CBOR items on which cbor2 fails in unusual ways (exceptions outside its own hierarchy, recursion)"""
    out = [
        bytes.fromhex("c48201616161"[:10]),          # tag 4 (decimal fraction) with a text mantissa
        bytes.fromhex("c4820161"),                   # truncated
        bytes.fromhex("c482016161"),                 # tag 4 [1, "a"]
        bytes.fromhex("c5821b7fffffffffffffff01"),   # tag 5 (bigfloat) with a huge exponent
        bytes.fromhex("c4821b7fffffffffffffff01"),   # tag 4 with a huge exponent
        bytes.fromhex("d82300"),                     # tag 35 (regexp) wrapping an int
        bytes.fromhex("d823c680"),                   # tag 35 wrapping tag 6
        bytes.fromhex("d8256101"),                   # tag 37 (uuid) wrapping text
        bytes.fromhex("d81e8200"),                   # tag 30 (rational) with one element
        bytes.fromhex("d81e820100"),                 # tag 30 1/0
        bytes.fromhex("c1f6"),                       # tag 1 (epoch) wrapping null
        bytes.fromhex("c074" + "6e6f742d612d646174652d74696d652d7374"),   # tag 0 with a bad date string
        bytes.fromhex("d81c00"), bytes.fromhex("d81d00"),                   # shared references out of range
        bytes.fromhex("d9010200"),                   # tag 258 (set) wrapping int
        bytes.fromhex("f8ff"), bytes.fromhex("f818"), bytes.fromhex("f900"), bytes.fromhex("fb00"),
        b"\x81" * 1500 + b"\x00",                   # deep arrays
        b"\xa1" * 1500 + b"\x00",                   # deep maps-as-keys
        b"\xc6" * 1500 + b"\x00",                   # deep tags
        b"\xc6" * 400 + b"\x00", b"\xc6" * 760 + b"\x00", b"\xc6" * 1000 + b"\x00", b"\xc6" * 1400 + b"\x00", b"\xd8\x40" * 900 + b"\x00",   # depths the decoder takes but the encoder may not
        b"\x81" * 800 + b"\x00",
        b"\xa1" * 900 + b"\x00" + b"\x00" * 900,   # maps nested as keys: decodes, fails to re-encode
        b"\x9f" * 300 + b"\xff" * 300,              # indefinite arrays
        bytes.fromhex("7f6161ff"), bytes.fromhex("5f4101ff"), bytes.fromhex("bf0001ff"),
        bytes.fromhex("a2010101 02".replace(" ", "")), bytes.fromhex("a1f90000 00".replace(" ", "")), bytes.fromhex("a18000"),
    ]
    # items wrapped in tags that some decoder might "see through" (24 = encoded CBOR data item, 55799 = self-described CBOR, 21-23 = expected conversions, 2/3 = bignums, unassigned
    # numbers): a tagged item is that tagged item - its length on the wire is its own, not that of what it wraps
    import cbor2 as _c
    key_ = _c.dumps({1: 2, 3: -7, -1: 1, -2: bytes(32), -3: bytes(28) + b"\x43\x01\x02\x03"})
    inner = [key_, bytes.fromhex("f93e00"), bytes.fromhex("a1f93e0000"), b"\x00", b"\xa0", bytes.fromhex("fa3fc00000"), bytes.fromhex("1800"), bytes.fromhex("a1616100") + b"\x00", b"", bytes.fromhex("5f4101ff")]
    for x in inner:
        wrapped = _c.dumps(x)          # the byte string holding the item
        for tag in (24, 55799, 21, 22, 23, 63, 12345):
            hd = bytes([0xc0 | tag]) if tag < 24 else bytes([0xd8, tag]) if tag < 256 else bytes([0xd9]) + tag.to_bytes(2, "big")
            out.append(hd + wrapped)
        out.append(bytes([0xd9, 0xd9, 0xf7]) + x)       # self-described CBOR around the bare item
        out.append(bytes([0xd8, 24]) + x)               # tag 24 around something that is not a byte string
    # floating-point values in every width incl. NaN, infinities, negative zero, subnormals; decimal fractions / bigfloats with NaN-like payloads
    for f in ("f97e00", "f97c00", "f9fc00", "f98000", "f90001", "f93e00", "fa7fc00000", "fa7f800000", "fa3fc00000", "fb7ff8000000000000", "fb7ff0000000000000", "fb3ff8000000000000", "fb0000000000000001",
              "f97e01", "fa7fc00001", "fb7ff8000000000001", "fbfff8000000000000"):
        b = bytes.fromhex(f)
        out += [b, b"\xa1\x61\x78" + b, b"\x81" + b, b"\xa1\x61\x78\x82" + b + b]
    # bignums (tags 2 / 3) of growing size, bare and as a map value: integers far beyond what the interpreter converts to text by default
    import struct
    def bstr(n):
        return (bytes([0x40 + n]) if n < 24 else b"\x58" + bytes([n]) if n < 256 else b"\x59" + struct.pack(">H", n) if n < 65536 else b"\x5a" + struct.pack(">I", n)) + b"\xff" * n
    for n in (1, 9, 17, 65, 257, 1025, 2000, 4097, 65537):
        for tag in (b"\xc2", b"\xc3"):
            out.append(tag + bstr(n))
            out.append(b"\xa1\x61\x6e" + tag + bstr(n))
            out.append(b"\xa2\x01\x02\x20" + tag + bstr(n))
    return out



def encode_styled(v, style="canonical", _top=True):
    """CBOR encodings of the same value that differ from the canonical one only in FORM (RFC 8949 allows them all; a decoder reads the same value):
    'reordered' (map entries in reverse order), 'indefinite-map' / 'indefinite-array' (bf..ff / 9f..ff), 'nonminimal' (every length and integer in a wider
    argument than needed), 'indefinite-strings' (byte / text strings as chunk sequences), 'tagged' (self-described CBOR tag 55799 in front)."""
    import struct as _st

    def head(major, n, wide=False):
        if wide or style == "nonminimal":
            if n < 256 and not wide:
                return bytes([major << 5 | 24, n]) if n >= 24 or True else b""
            if n < 65536:
                return bytes([major << 5 | 25]) + _st.pack(">H", n)
            if n < 2 ** 32:
                return bytes([major << 5 | 26]) + _st.pack(">I", n)
            return bytes([major << 5 | 27]) + _st.pack(">Q", n)
        if n < 24:
            return bytes([major << 5 | n])
        if n < 256:
            return bytes([major << 5 | 24, n])
        if n < 65536:
            return bytes([major << 5 | 25]) + _st.pack(">H", n)
        if n < 2 ** 32:
            return bytes([major << 5 | 26]) + _st.pack(">I", n)
        return bytes([major << 5 | 27]) + _st.pack(">Q", n)

    def enc(x, top=False):
        if isinstance(x, bool):
            return b"\xf5" if x else b"\xf4"
        if x is None:
            return b"\xf6"
        if isinstance(x, int):
            return head(0, x) if x >= 0 else head(1, -1 - x)
        if isinstance(x, (bytes, bytearray)):
            x = bytes(x)
            if style == "indefinite-strings" and len(x) > 1:
                h = len(x) // 2
                return b"\x5f" + head(2, h) + x[:h] + head(2, len(x) - h) + x[h:] + b"\xff"
            return head(2, len(x)) + x
        if isinstance(x, str):
            u = x.encode("utf-8")
            if style == "indefinite-strings" and x.isascii() and len(u) > 1:
                h = len(u) // 2
                return b"\x7f" + head(3, h) + u[:h] + head(3, len(u) - h) + u[h:] + b"\xff"
            return head(3, len(u)) + u
        if isinstance(x, (list, tuple)):
            body = b"".join(enc(y) for y in x)
            if style == "indefinite-array":
                return b"\x9f" + body + b"\xff"
            return head(4, len(x)) + body
        if isinstance(x, dict):
            items = list(x.items())
            if style == "reordered":
                items = items[::-1]
            body = b"".join(enc(k) + enc(val) for k, val in items)
            if style == "indefinite-map":
                return b"\xbf" + body + b"\xff"
            return head(5, len(items)) + body
        return cbor2.dumps(x)
    out = enc(v, True)
    if style == "tagged":
        out = b"\xd9\xd9\xf7" + out
    return out


AO_STYLES = ["canonical", "reordered", "indefinite-map", "nonminimal", "indefinite-strings", "indefinite-array"]
