"""Generators of CBOR values in the modelled subset and of authenticator data layouts."""
import struct, cbor2
from harness import authsim


def gen_value(rng, depth=0):
    k = rng.random()
    if depth > 3 or k < 0.45:
        t = rng.randrange(7)
        if t == 0:
            return rng.choice([0, 1, 23, 24, 255, 256, 65535, 65536, 2 ** 32 - 1, 2 ** 32, 2 ** 64 - 1, rng.randrange(2 ** 64)])
        if t == 1:
            return -rng.choice([1, 24, 25, 256, 257, 65536, 65537, 2 ** 32, 2 ** 32 + 1, 2 ** 64])
        if t == 2:
            return rng.randbytes(rng.choice([0, 1, 23, 24, 255, 256, 300]))
        if t == 3:
            return rng.choice(["", "a", "credProtect", "é€😀", "x" * 24, "y" * 256])
        if t == 4:
            return rng.choice([True, False])
        if t == 5:
            return None
        return rng.choice([cbor2.undefined, 0, b"", ""])
    if k < 0.7:
        return [gen_value(rng, depth + 1) for _ in range(rng.choice([0, 1, 2, 3, 24]))]
    d = {}
    for _ in range(rng.choice([0, 1, 2, 3, 5])):
        key = rng.choice([rng.randrange(-30, 30), rng.choice(["a", "bb", "credProtect", "hmac-secret"]), rng.randbytes(2), rng.randrange(2 ** 20)])
        d[key] = gen_value(rng, depth + 1)
    return d


def gen_ext(rng):
    d = {}
    for _ in range(rng.choice([0, 1, 2, 4])):
        d[rng.choice(["credProtect", "hmac-secret", "credBlob", "minPinLength", "x" * 30])] = gen_value(rng, 1)
    return d


def cose_key(rng):
    t = rng.randrange(5)
    if t == 0:
        L = rng.choice([32, 48, 66])
        return {1: 2, 3: rng.choice([-7, -36]), -1: {32: 1, 48: 2, 66: 3}[L], -2: rng.randbytes(L), -3: rng.randbytes(L)}
    if t == 1:
        return {1: 1, 3: -8, -1: 6, -2: rng.randbytes(32)}
    if t == 2:
        return {1: 3, 3: rng.choice([-257, -37, -65535]), -1: rng.randbytes(256), -2: b"\x01\x00\x01"}
    if t == 3:
        return authsim.Cred(rng.choice(["ES256-P256", "EdDSA", "RS256"])).cose
    return {1: 2, 3: -7, -1: 1, -2: rng.randbytes(32), -3: rng.randbytes(32), "extra": gen_value(rng, 2)}


def layout(rng):
    """-> (bytes, expected fields dict)"""
    rp = rng.randbytes(32)
    flags = rng.randrange(256)
    count = rng.choice([0, 1, 2 ** 31 - 1, 2 ** 31, 2 ** 32 - 1, rng.randrange(2 ** 32)])
    out = rp + bytes([flags]) + struct.pack(">I", count)
    exp = {"rp": rp, "flags": flags, "count": count, "att": None, "ext": None}
    if flags & 0x40:
        aaguid = rng.randbytes(16)
        cid = rng.randbytes(rng.choice([0, 1, 16, 32, 64, 255, 256, 1023, rng.randrange(0, 1024)]))
        key = cbor2.dumps(cose_key(rng))
        out += aaguid + struct.pack(">H", len(cid)) + cid + key
        exp["att"] = (aaguid, cid, key)
    if flags & 0x80:
        ext = cbor2.dumps(gen_ext(rng))
        out += ext
        exp["ext"] = ext
    return out, exp
