"""Shared execution of authentication cases: implementation vs model, refinement + direct evaluation."""
from harness import fw, impl, oracle, authsim, authcat

FORMS = ("text", "dict", "record")


class AuthBench:
    def __init__(self, chk, br):
        self.chk = chk
        self.O = oracle.Oracle()
        self.R = fw.Runner(self.O) if br.runner_ok else None

    def close(self):
        try:
            self.double_fetch_probe()
        except Exception as e:          # (a probe that cannot run decides nothing)
            self.chk.notes.append({"double_fetch_probe": "did not run: " + repr(e)[:200]})
        if self.R:
            self.R.close()

    def double_fetch_probe(self):
        """A response whose fields read differently from one read to the next (a property, a proxy, a buffer another thread rewrites): X on the first read - what the
        ceremony checks want to see, but unsigned - and Y afterwards - genuinely signed, for ANOTHER ceremony.  Presented constantly, X and Y are each refused; if the
        sequenced record is accepted, what was checked is not what was verified (a field fetched twice within one call)."""
        if getattr(self, "_df_done", False):
            return
        self._df_done = True
        import webauthn, hashlib
        from webauthn.helpers.structs import AuthenticationCredential, AuthenticatorAssertionResponse
        from harness import authcat, authsim
        chk = self.chk
        for kind in ("ES256-P256", "EdDSA"):
            s = authcat.Scn(kind)
            pol, good = s.build()
            cred = good.cred
            # Y: a genuine assertion of the same credential for another challenge / another RP / without user verification
            variants = []
            cdj2 = authsim.client_data("webauthn.get", b"another-challenge-of-another-ceremony", s.origin)
            variants.append(("clientDataJSON", {"client_data_json": [good.cdj, cdj2]}, dict(client_data_json=cdj2, authenticator_data=good.ad, signature=cred.sign(good.ad + hashlib.sha256(cdj2).digest())), pol))
            cdj3 = authsim.client_data("webauthn.get", s.challenge, "https://evil.example")
            variants.append(("clientDataJSON (origin)", {"client_data_json": [good.cdj, cdj3]}, dict(client_data_json=cdj3, authenticator_data=good.ad, signature=cred.sign(good.ad + hashlib.sha256(cdj3).digest())), pol))
            ad2 = authsim.authdata("other-rp.example", s.flags, s.count)
            variants.append(("authenticatorData (RP ID hash)", {"authenticator_data": [good.ad, ad2]}, dict(client_data_json=good.cdj, authenticator_data=ad2, signature=cred.sign(ad2 + hashlib.sha256(good.cdj).digest())), pol))
            ad3 = authsim.authdata(s.rp_id, 0x01, s.count)
            ad_uv = authsim.authdata(s.rp_id, 0x05, s.count)
            pol_uv = impl.AuthPolicy(pol.challenge, pol.rp_id, pol.origin, pol.pubkey, pol.count, True)
            variants.append(("authenticatorData (UV flag)", {"authenticator_data": [ad_uv, ad3]}, dict(client_data_json=good.cdj, authenticator_data=ad3, signature=cred.sign(ad3 + hashlib.sha256(good.cdj).digest())), pol_uv))
            ad4 = authsim.authdata(s.rp_id, s.flags, 0)
            variants.append(("authenticatorData (counter)", {"authenticator_data": [good.ad, ad4]}, dict(client_data_json=good.cdj, authenticator_data=ad4, signature=cred.sign(ad4 + hashlib.sha256(good.cdj).digest())), pol))
            for what, seqs, y_fields, P in variants:
                y_fields = dict(y_fields, user_handle=None)
                cred_fields = dict(id=good.id_text, raw_id=good.cred_id, type="public-key", authenticator_attachment=None)
                x_fields = dict(y_fields)
                for k_, sq in seqs.items():
                    x_fields[k_] = sq[0]
                const = []
                for fields in (x_fields, y_fields):
                    rec = AuthenticationCredential(response=AuthenticatorAssertionResponse(**fields), **cred_fields)
                    const.append(impl.outcome(lambda: webauthn.verify_authentication_response(credential=rec, **P.kwargs()), impl.pr_verified_auth))
                for later in (1, 2):
                    seqs2 = {k_: [sq[0]] * later + [sq[1]] for k_, sq in seqs.items()}
                    rec = impl.sequenced_record(AuthenticationCredential, AuthenticatorAssertionResponse, cred_fields, y_fields, seqs2)
                    o = impl.outcome(lambda: webauthn.verify_authentication_response(credential=rec, **P.kwargs()), impl.pr_verified_auth)
                    chk.evals += 3
                    if o.startswith("OK") and not const[0].startswith("OK") and not const[1].startswith("OK"):
                        chk.violation(f"an assertion whose {what} reads as one value on read {later} and as another afterwards is accepted although it is refused under EITHER value: what the checks saw is not what the signature covers (a field fetched twice within one call)",
                                      f"double-fetch auth {what} {kind}", {"entry": "verify_authentication_response", "policy": P.describe(), "kind": kind, "field": what, "first_reads": {k_: v[0].hex() for k_, v in seqs.items()},
                                                                            "later_reads": {k_: v[1].hex() for k_, v in seqs.items()}, "signature": y_fields["signature"].hex(), "outcome": o, "outcome_under_first_value": const[0], "outcome_under_later_value": const[1]})
                        break

    def run_case(self, pol, a, form, expect, label, replay_extra=None):
        """expect: 'accept' | 'reject' | None.  Returns (impl_line, model_line)."""
        chk = self.chk
        val = impl.auth_cred_value(form, a)
        il = impl.verify_auth(pol, val)
        ml = None
        chk.evals += 1
        rp = {"entry": "verify_authentication_response", "label": label, "form": form, "policy": pol.describe(),
              "credential": a.as_dict(), "id_text": a.id_text, "type": a.typ, "impl": il}
        # the very same call once more (same argument objects): an outcome is a function of the arguments
        again = impl.verify_auth(pol, val)
        if again != il:
            chk.violation(f"the same call repeated gives another outcome ({label}): {il[:50]} then {again[:50]}", f"repeat-call auth {label.split('+')[0]}", dict(rp, second_outcome=again))
        # the RP's yes/no policy as the integers 1 / 0 (a BOOLEAN database column, int(os.environ[...])): what is required is what is truthy
        if pol.require_uv is True or pol.require_uv is False:
            import copy as _copy
            p2 = _copy.copy(pol)
            p2.require_uv = 1 if pol.require_uv else 0
            as_int = impl.verify_auth(p2, val)
            if as_int != il:
                chk.violation(f"require_user_verification={p2.require_uv} gives another outcome than {pol.require_uv} ({label}): {as_int[:50]} instead of {il[:50]}",
                              f"policy-as-int auth {label.split('+')[0]}", dict(rp, policy_as_int={"require_user_verification": p2.require_uv}, outcome_as_int=as_int))
        # the same call with its arguments in another admissible Python shape (non-contiguous views, bytearrays, str subclasses, tuples, other number types ...): two per case, round-robin
        eq = impl.equivalent_auth_calls(pol, a)
        self._eq_n = getattr(self, "_eq_n", 0) + 1
        for j in ((self._eq_n * 2) % len(eq), (self._eq_n * 2 + 1) % len(eq)):
            nm, thunk = eq[j]
            o2 = thunk()
            chk.evals += 1
            if o2 != il and not (o2.startswith("ERR") and il.startswith("ERR") and a.typ != "public-key"):
                chk.violation(f"the same call with {nm} gives another outcome ({label}): {o2[:50]} instead of {il[:50]}", f"argument-shape auth {nm} {label.split('+')[0]}", dict(rp, argument_shape=nm, outcome=o2))
        # the RP's policy kept in long-lived containers that are edited in place when the policy changes (same list object, same length, other content)
        if not il.startswith("OK") or self._eq_n % 3 == 0:
            import webauthn as _w8
            o8 = impl.reused_policy_containers(_w8.verify_authentication_response, pol, val, a.cdj, impl.pr_verified_auth)
            chk.evals += 2
            if o8 is not None and o8 != il:
                chk.violation(f"the call made with the RP's long-lived policy lists (edited in place since an earlier call) gives another outcome than with fresh lists ({label}): {o8[:50]} instead of {il[:50]}",
                              f"policy-container-reuse auth {label.split('+')[0]}", dict(rp, reused_containers=True, outcome=o8))
        # parameters the changed source ADDED to this entry point: whatever value they are given, a response that is refused without them stays refused (an option cannot
        # buy acceptance of a deviating response)
        if not il.startswith("OK"):
            import webauthn as _w9
            for pname, pval in impl.new_parameter_values("verify_authentication_response"):
                kw9 = pol.kwargs()
                kw9[pname] = pval
                o9 = impl.outcome(lambda: _w9.verify_authentication_response(credential=val, **kw9), impl.pr_verified_auth)
                chk.evals += 1
                if o9.startswith("OK"):
                    chk.violation(f"with the new argument {pname}={pval!r} a response that is otherwise refused ({il[:40]}) is accepted ({label})", f"new-parameter auth {pname} {label.split('+')[0]}",
                                  dict(rp, new_argument={pname: repr(pval)}, outcome_with_it=o9))
                    break
        # a policy switch that has its documented default may as well be left out of the call
        if pol.require_uv is False:
            import webauthn as _w
            kw = pol.kwargs()
            kw.pop("require_user_verification")
            omitted = impl.outcome(lambda: _w.verify_authentication_response(credential=val, **kw), impl.pr_verified_auth)
            if omitted != il:
                chk.violation(f"leaving require_user_verification out (default False) gives another outcome than passing False ({label}): {omitted[:50]} instead of {il[:50]}",
                              f"policy-omitted auth {label.split('+')[0]}", dict(rp, omitted=["require_user_verification"], outcome_when_omitted=omitted))
        if replay_extra:
            rp.update(replay_extra)
        if self.R:
            ml = self.R.call("verifyauth " + pol.wire() + " " + impl.auth_cred_wire(form, a))
            rp["model"] = ml
            if ml.startswith("DRIVER-ERROR"):
                chk.diverge("driver", ml, rp)
            elif not fw.exn_refines(ml, il):
                chk.diverge("Model.verify_auth", f"{label}/{form}: model {ml[:90]} impl {il[:90]}", rp)
        if expect == "reject" and il.startswith("OK") and ml is not None and ml.startswith("OK") and chk.proofs_ok:
            # the proven-sound model accepts too: by the soundness theorem the input meets every conjunct of the
            # spec predicate, i.e. the catalogue entry is not a deviation (harness inconsistency, reported loudly)
            chk.notes.append({"catalogue-inconsistency": label, "form": form})
            print(f"[{chk.pid}] WARNING catalogue entry {label} is accepted by the proven model: not a deviation")
        elif expect == "reject" and il.startswith("OK"):
            chk.violation(f"deviating assertion accepted ({label})", f"auth-accepts {label}", rp)
        if expect == "accept" and not il.startswith("OK"):
            chk.violation(f"conformant assertion rejected ({label}): {il}", f"auth-rejects-valid {label} {il}", rp)
        chk.count(("accept:" if il.startswith("OK") else "reject:") + label.split("+")[0])
        chk.seen((label, form, il[:40], pol.require_uv, a.cred.kind))
        return il, ml
