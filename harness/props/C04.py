"""C04 - trust anchors enforced for attestation certificate chains."""
import json
from harness import realclock, authcat, fw, impl, authsim, regsim, regcat, regrun, oracle

TRUSTED = [
    "Coq 8.16.1 kernel; C04 theorems: which anchors are handed to the chain validator per format (isolation), that an accepted x5c registration went through it, pass-through only with no anchors",
    "OpenSSL's path building/validation is an ORACLE (o_chain); the reference oracle is pyOpenSSL store verification of the same certificates at the simulated time; its agreement with the abstract ValidPath spec is validated on the generated chain shapes only",
    "built-in anchors substituted in-process for both sides; extraction + driver",
]
RULE = ("all x5c-bearing formats x chain shapes {direct, 1-2 intermediates in both orders, extra unrelated certificate} x root configurations {RP root, several, none, "
        "other-format-only, isolation, impostor with the same name, unrelated} x chain faults {expired / not-yet-valid leaf / intermediate / root, corrupted signature, "
        "missing intermediate, non-CA intermediate}; expected verdict from the property text. distinct_nontrivial = distinct (label, outcome) tuples")
PASSTHROUGH = ("packed", "fido-u2f", "tpm")


def run(tier, seed):
    chk = fw.Check("C04", tier, seed)
    chk.strict_catalogue = True
    br, ob = fw.standard_prelude(chk, with_coqchk=(tier == "thorough"))
    rng = chk.rng
    B = regrun.RegBench(chk, br)
    B.O.chain_log = []
    quick = tier == "quick"
    unrelated = regsim.der(regsim.PKI("Q", root_cn="Bystander").root)
    for fmt in regsim.X5C_FORMATS:
        shapes = [(0, "normal", False)] if fmt == "fido-u2f" else [(0, "normal", False), (1, "normal", False), (2, "normal", False), (2, "reversed", False), (1, "normal", True)]
        # 1. valid chains under every root configuration
        for (ni, order, extra) in shapes:
            for mode in ("rp", "several", "none", "other-fmt", "isolation", "impostor", "unrelated", "rp-only", "extra-unrelated", "legacy-root"):
                if mode in ("rp-only", "extra-unrelated") and fmt in PASSTHROUGH:
                    continue
                if mode == "legacy-root" and fmt not in PASSTHROUGH:
                    continue
                s = regsim.RScn(fmt, "ES256-P256")
                s.n_inter, s.roots_mode = ni, mode
                if mode == "legacy-root":           # RP anchor without basicConstraints (keyUsage keyCertSign only): still an anchor in force
                    s.roots_mode = "rp"
                    s.k["pki_kw"] = dict(root_bc=False)
                s.k["chain_order"] = order
                if extra:
                    s.k["chain_extra"] = (regsim.PKI("Q", root_cn="Bystander").root,)
                pd, reg = regsim.build(s)
                if fmt in PASSTHROUGH:
                    exp = "accept" if mode in ("rp", "several", "none", "other-fmt", "legacy-root") else "reject"
                else:
                    exp = "accept" if mode in ("rp", "several", "rp-only", "extra-unrelated") else "reject"
                    if fmt == "android-key" and mode == "several":
                        exp = "accept"
                il, ml = B.run_case(regrun.policy_of(pd), reg, "dict", exp, f"{fmt}/inter={ni}/{order}/extra={extra}/roots={mode}", scn=s)
        chk.sample({"label": f"{fmt} valid chain, roots configured only for another format + unrelated anchor for this one", "expected": "reject"})
        # 2. chain faults with anchors in force; and (pass-through formats) with no anchors
        for name, f in regcat.CHAIN_FAULTS.items():
            if fmt == "fido-u2f" and ("intermediate" in name or name in regcat.MULTI_CERT_FAULTS):
                continue
            for ni in ((0, 1) if not quick else (1,)):
                if fmt == "fido-u2f":
                    ni = 0
                s = regsim.RScn(fmt, "ES256-P256")
                s.n_inter = ni
                authcat.apply(regcat.CHAIN_FAULTS, name, s, scope=f"c04:{fmt}:")
                pd, reg = regsim.build(s)
                B.run_case(regrun.policy_of(pd), reg, "dict", "reject", f"{name}/{fmt}/inter={s.n_inter}", scn=s)
                if fmt in PASSTHROUGH and name not in regcat.NO_PASSTHROUGH_VARIANT:
                    s2 = regsim.RScn(fmt, "ES256-P256")
                    s2.n_inter = ni
                    f(s2, rng)
                    s2.roots_mode = "none"
                    pd, reg = regsim.build(s2)
                    B.run_case(regrun.policy_of(pd), reg, "dict", "accept", f"passthrough:{name}/{fmt}", scn=s2)
    # 2b. the same response presented again after the clock has left / before it enters the validity window
    #     (anchors in force): the verdict must follow the clock of each call, whatever was accepted before
    for fmt in regsim.X5C_FORMATS:
        s = regsim.RScn(fmt, "ES256-P256")
        s.n_inter = 0 if fmt == "fido-u2f" else 1
        pd, reg = regsim.build(s)
        for now, exp in ((regsim.T0, "accept"), (regsim.T0 + 366 * regsim.DAY, "reject"), (regsim.T0, "accept"), (regsim.T0 - 2 * regsim.DAY, "reject"), (regsim.T0 + 100, "accept")):
            pd2 = dict(pd, now=now)
            if fmt == "android-safetynet":
                continue        # its timestamp window is C17's subject
            B.run_case(regrun.policy_of(pd2), reg, "dict", exp, f"replayed-at-{now - regsim.T0:+d}s/{fmt}", scn=s)
    # 2c'. the built-in anchors are the pinned ones: a certificate literal in the source that the pinned baseline (harness/srcdict_baseline.json) does not
    #      have is a candidate trust anchor nobody can exercise without its private key - reported as a broken correspondence, by name
    from harness import srcdict
    for c in srcdict.new_certificates():
        chk.diverge("built-in trust anchors = the pinned certificates of webauthn.helpers.known_root_certs (7 certificates, by SHA-256 of their DER)",
                    f"the source contains a certificate the pinned set does not: sha256/subject = {c}", {"certificate": c, "how": "harness/srcdict.py: PEM literals of /repo/webauthn vs harness/srcdict_baseline.json"})
    chk.evals += 1
    # 2c. genuine recorded attestations against the REAL built-in anchors (nothing substituted but the clock)
    import os
    V = json.load(open(os.path.join(os.path.dirname(os.path.dirname(os.path.abspath(__file__))), "realvec.json")))
    unrelated_pem = regsim.PKI("Z", root_cn="Unrelated Root").root_pem()
    for fmt, v in V.items():
        for what, dt, roots, exp in (("at its time", 0, {}, "accept"), ("400 days later", 400 * regsim.DAY, {}, "reject"), ("10 years earlier", -3650 * regsim.DAY, {}, "reject"),
                                     ("with an unrelated RP root added", 0, {fmt: [unrelated_pem]}, "accept"), ("at its time (again)", 0, {}, "accept")):
            pol = impl.RegPolicy(bytes.fromhex(v["challenge"]), v["rp_id"], v["origin"], roots=roots, now=v["now"] + dt)
            il = impl.verify_reg(pol, v["credential"])
            chk.evals += 1
            ml = B.R.call("verifyreg " + pol.wire() + " D " + impl.json_to_wire(v["credential"])) if B.R else None
            rp = {"entry": "verify_registration_response", "vector": f"recorded {fmt} attestation", "clock": v["now"] + dt, "rp_roots": list(roots), "impl": il[:200], "model": (ml or "")[:200]}
            if il.startswith("OK") != (exp == "accept"):
                chk.violation(f"recorded genuine {fmt} attestation {what}: {'rejected' if exp == 'accept' else 'accepted'}", f"real-vector {fmt} {what}", rp)
            if ml is not None and not fw.exn_refines(ml, il):
                chk.diverge("Model.verify_reg (recorded vector)", f"{fmt} {what}: model {ml[:80]} impl {il[:80]}", rp)
            chk.seen(("real", fmt, what))
    # 2d. the REAL clock and a freshly built store (no substitution at all), under several process time zones: "currently valid" means the epoch clock
    import time
    from webauthn.helpers.validate_certificate_chain import validate_certificate_chain as vcc
    saved_tz = os.environ.get("TZ")
    for tz in ("UTC", "XXX-12", "XXX+12"):
        os.environ["TZ"] = tz
        time.tzset()
        now = int(time.time())
        H = 3600
        p = regsim.PKI("RT", n_inter=1, root_nb=now - 1000 * regsim.DAY, root_na=now + 1000 * regsim.DAY, inter_nb=now - 100 * regsim.DAY, inter_na=now + 100 * regsim.DAY)
        for what, nb, na, exp in (("valid now", now - H, now + H, True), ("valid in 6 h", now + 6 * H, now + 7 * H, False), ("expired 6 h ago", now - 7 * H, now - 6 * H, False),
                                  ("valid in 11 h", now + 11 * H, now + 12 * H, False), ("expired 11 h ago", now - 13 * H, now - 11 * H, False)):
            leaf = p.leaf(regsim.name("real-clock leaf"), regsim.ec_key("helper_leaf").public_key(), nb=nb, na=na)
            try:
                vcc(x5c=p.chain_der(leaf), pem_root_certs_bytes=[p.root_pem()])
                ok = True
            except Exception:
                ok = False
            chk.evals += 1
            if ok != exp:
                chk.violation(f"real clock, TZ={tz}: chain whose leaf is {what} {'accepted' if ok else 'rejected'}", f"real-clock-tz {what} TZ={tz}", {"entry": "validate_certificate_chain", "TZ": tz, "leaf": what, "accepted": ok})
            chk.seen(("real-clock", tz, what))
        realclock.remarkable_dates(chk, tz)
    if saved_tz is None:
        os.environ.pop("TZ", None)
    else:
        os.environ["TZ"] = saved_tz
    time.tzset()
    realclock.boundary_crossed_while_running(chk)
    # 3. validate_certificate_chain helper directly: implementation vs reference oracle
    from webauthn.helpers.validate_certificate_chain import validate_certificate_chain
    for i in range(20 if quick else 200):
        p = regsim.PKI("A", n_inter=rng.choice([0, 1, 2]))
        leaf = p.leaf(regsim.name("leaf"), regsim.ec_key("helper_leaf").public_key(), **rng.choice([dict(nb=regsim.T0 - regsim.DAY, na=regsim.T0 + regsim.DAY), dict(nb=regsim.T0 + 5, na=regsim.T0 + regsim.DAY), dict(nb=regsim.T0 - regsim.DAY, na=regsim.T0 - 5)]))
        x5c = p.chain_der(leaf, order=rng.choice(["normal", "reversed"]))
        roots = rng.choice([[p.root_pem()], [regsim.PKI("Z", root_cn="Unrelated Root").root_pem()], [], [regsim.PKI("Z", root_cn="Unrelated Root").root_pem(), p.root_pem()]])
        with impl.substituted(None, regsim.T0):
            il = impl.outcome(lambda: validate_certificate_chain(x5c=x5c, pem_root_certs_bytes=roots), lambda r: "T" if r is True else repr(r))
        ref = "OK T" if not roots else {"OK": "OK T", "INVALID": "ERR Lib:InvalidCertificateChain"}.get(oracle.ref_chain(regsim.T0, x5c, roots), "?")
        chk.evals += 1
        if il != ref:
            chk.diverge("validate_certificate_chain vs reference oracle", f"impl {il} ref {ref}", {"x5c": [c.hex() for c in x5c], "n_roots": len(roots)})
    # format names the changed source newly mentions (harness/srcdict.py): a statement whose chain does NOT reach the anchors the RP configured for its format must not become
    # acceptable by being presented under / wrapped into such a name (the statement itself, a list of {fmt, attStmt} maps as in L3's "compound", a map of them)
    from harness import srcdict
    import cbor2 as _cb
    # ... nor under another SPELLING of a registered format name (underscores for hyphens, the enum member's name, other case, a module name): roots are configured per
    # format identifier, and only the identifier itself selects a verification procedure
    respelled = []
    for f_ in ("packed", "tpm", "fido-u2f", "android-key", "android-safetynet", "apple", "none"):
        respelled += [f_.replace("-", "_"), f_.upper(), f_.replace("-", "_").upper(), f_.replace("-", ""), f_.title(), f_ + " ", " " + f_, f_.replace("-", "\u2010"), f_.replace("-", "."), "webauthn.registration.formats." + f_.replace("-", "_")]
    respelled = [x for x in dict.fromkeys(respelled) if x not in ("packed", "tpm", "fido-u2f", "android-key", "android-safetynet", "apple", "none")]
    for w in [x for x in srcdict.words() if x.isascii() and x[:1].isalpha()][:10] + respelled:
        for fmt in ("packed", "tpm", "fido-u2f"):
            if w in respelled and w.strip().lower().replace("_", "-").replace(".", "-").replace("\u2010", "-").split("formats-")[-1].replace("-", "") != fmt.replace("-", ""):
                continue
            for mode in ("unrelated", "impostor"):
                s = regsim.RScn(fmt, "ES256-P256")
                s.roots_mode = mode
                s.n_inter = 0 if fmt == "fido-u2f" else 1
                pd, reg = regsim.build(s)
                pol = regrun.policy_of(pd)
                try:
                    ao = _cb.loads(reg.att_obj)
                except Exception:
                    continue
                inner = {"fmt": ao["fmt"], "attStmt": ao["attStmt"]}
                for how, stmt_ in (("the statement itself", ao["attStmt"]), ("a list of two {fmt, attStmt} maps", [inner, inner]), ("a list of one", [inner]), ("a map of them", {"0": inner, "1": inner}),
                                   ("a map with the list under 'attStmts'", {"attStmts": [inner, inner]})):
                    reg2 = regsim.Registration(reg.cred, reg.cred_id, reg.cdj, _cb.dumps({"fmt": w, "attStmt": stmt_, "authData": ao["authData"]}), id_text=reg.id_text, typ=reg.typ)
                    o2 = impl.verify_reg(pol, reg2.as_dict())
                    chk.evals += 1
                    if o2.startswith("OK"):
                        chk.violation(f"a {fmt} statement whose chain does not reach the anchors configured for {fmt} ({mode} root) is accepted when presented as fmt={w!r} ({how})", f"reg-accepts wrapped-in-new-format {w} {fmt}",
                                      {"entry": "verify_registration_response", "policy": pol.describe(), "credential": reg2.as_dict(), "wrapped_as": w, "how": how})
                        break
    from harness import chainview
    chainview.cross_check(chk, B.R, B.O.chain_log)
    B.close()
    chk.notes.append({"oracle_queries": B.O.counts})
    fw.env_invariance(chk, "auth", "reg")          # the same seeded cases under -O / -OO, warnings-as-errors, other TZ / locale, a private CA bundle
    return fw.finish(chk, ob, br, TRUSTED,
                     ["documented behaviour: with no anchors in force for packed / fido-u2f / tpm the chain is not checked",
                      "OpenSSL (via pyOpenSSL X509Store.set_time) judges validity as notBefore <= now < notAfter in whole seconds and checks the root's own window"],
                     RULE, "coqc -Q . PW Properties/C04.v; thorough: coqchk -o")


def replay(path):
    print(open(path).read()[:4000])
    return 0
