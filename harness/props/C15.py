"""C15 - generated options: fresh unpredictable challenges, caller values unchanged."""
import os, json, os, random, collections
from harness import fw, impl, optsim, oracle

TRUSTED = [
    "Coq 8.16.1 kernel; C15 theorems: pass-through of every supplied field, residentKey rule, refusals, the i-th defaulted value of ANY call history is exactly the i-th 64-byte draw of the OS source (induction over histories); 'never repeat' is the corollary under the hypothesis that distinct draws are distinct",
    "unpredictability of os.urandom is trusted, not modelled; CPython's secrets.token_bytes returns a fixed byte permutation of what it read (probed at run time)",
    "the entropy source is replaced in-process at os.urandom / random._urandom by a recording tape; extraction + driver",
]
RULE = ("random histories of generate_registration_options / generate_authentication_options calls with each optional argument absent or present with admissible values, interleaved with "
        "random.seed() reseedings, on a recorded entropy tape: every call compared with the model on the same tape (values and number of draws); separately N calls on the real OS source "
        "(distinctness, length, byte-value balance - a test). distinct_nontrivial = distinct argument shapes x outcomes")


def shape(a):
    return tuple((k, (v is None, v in (b"", "", []), isinstance(v, (list, dict)) and len(v))) for k, v in sorted(a.items()))


def run(tier, seed):
    chk = fw.Check("C15", tier, seed)
    br, ob = fw.standard_prelude(chk, with_coqchk=(tier == "thorough"))
    rng = chk.rng
    impl.KEEP_ENABLED = False          # this check edits the objects it is handed (on purpose) and checks value semantics itself
    quick = tier == "quick"
    R = fw.Runner(oracle.Oracle()) if br.runner_ok else None
    import webauthn
    perm = optsim.token_perm()
    nshape = [0]
    spy = fw.GlobalStateSpy()          # option generation does not re-configure the process either (random.seed, warning filters, ...)
    spy.__enter__()
    nh, L = (60, 12) if quick else (800, 60)
    # caller values of every size and count pass through unchanged: these argument sets are used first, then the random ones
    forced = []
    for n in fw.size_ladder(cap=70000):
        for is_reg in (True, False):
            a = optsim.gen_reg_args(rng) if is_reg else optsim.gen_auth_args(rng)
            a["challenge"] = bytes(i % 251 for i in range(n))
            lst = [{"id": bytes((i * 7) % 253 for i in range(n)), "transports": ["usb", "nfc"]}, {"id": b"short-id", "transports": None}, {"id": bytes(n - 1), "transports": []}]
            if n <= 1100:
                lst += [{"id": i.to_bytes(3, "big"), "transports": None} for i in range(n)]
            a["exclude" if is_reg else "allow"] = lst
            if is_reg:
                a["user_id"] = bytes(n % 256 for _ in range(min(n, 64))) if n % 2 else a["user_id"]
                a["algs"] = (optsim.ALGS * (n // len(optsim.ALGS) + 1))[:n] if n <= 300 else a["algs"]
                a["hints"] = (optsim.HINTS * n)[:n] if n <= 300 else a["hints"]
            forced.append((is_reg, a))
    # every resident-key / verification / attachment setting under EVERY argument shape (the shape of a case is its position modulo the number of shapes, and the forced
    # cases come first in a fixed order: which setting meets which shape does not depend on the seed)
    for j in range(4 * len(optsim.SHAPES)):
        a = optsim.gen_reg_args(rng)
        a["auth_sel"] = {"attachment": (None, "platform", "cross-platform")[j % 3], "rk": (None, "discouraged", "preferred", "required")[(j // len(optsim.SHAPES)) % 4], "require_rk": bool(j % 2) if (j // len(optsim.SHAPES)) % 4 != 3 else (None if j % 3 == 0 else False),
                         "uv": (None, "required", "preferred", "discouraged")[j % 4]}
        a["attestation"] = optsim.ATTEST[j % len(optsim.ATTEST)]
        forced.append((True, a))
    for h in range(nh):
        with optsim.Tape(seed * 1000 + h) as tape:
            draws_used = 0
            for pos in range(rng.randrange(1, L)):
                if rng.random() < 0.3:
                    random.seed(rng.randrange(5))          # reseeding the non-cryptographic module must change nothing
                is_reg = rng.random() < 0.6
                a = optsim.gen_reg_args(rng) if is_reg else optsim.gen_auth_args(rng)
                if forced:
                    is_reg, a = forced.pop(0)
                elif rng.random() < 0.08:
                    a[rng.choice(["rp_id", "rp_name", "user_name"] if is_reg else ["rp_id"])] = ""
                n_before = len(tape.reads)
                got = []
                def keep(x):
                    got.append(x)
                    return x
                # (the caller's values may be any objects EQUAL to them: plain ints for algorithm ids, str subclasses - also ones whose str() is something else -, members of
                #  the caller's own (str, Enum) classes: what appears in the options is the value)
                nshape[0] += 1
                arg_shape = optsim.SHAPES[nshape[0] % len(optsim.SHAPES)]
                if is_reg:
                    il = impl.outcome(lambda: keep(webauthn.generate_registration_options(**optsim.shaped(optsim.reg_kwargs(a), arg_shape))), optsim.pr_creation)
                else:
                    il = impl.outcome(lambda: keep(webauthn.generate_authentication_options(**optsim.shaped(optsim.auth_kwargs(a), arg_shape))), optsim.pr_request)
                new_reads = tape.reads[n_before:]
                if got and rng.random() < 0.5:
                    # what a caller may do to the object it was handed (after this call has been evaluated): later calls must not see it
                    o = got[0]
                    try:
                        for lst in (getattr(o, "allow_credentials", None), getattr(o, "exclude_credentials", None), getattr(o, "hints", None)):
                            if isinstance(lst, list):
                                lst.append(optsim.py_descriptor({"id": b"someone-else's-credential", "transports": ["usb"]}))
                        if getattr(o, "pub_key_cred_params", None):
                            o.pub_key_cred_params.pop()
                    except Exception:
                        pass
                chk.evals += 1
                rp = {"argument_shape": arg_shape, "entry": "generate_registration_options" if is_reg else "generate_authentication_options", "args": {k: (v.hex() if isinstance(v, bytes) else v) for k, v in a.items() if k not in ("exclude", "allow")},
                      "impl": il[:600], "os_reads": [r.hex() for r in new_reads], "position": pos}
                # direct evaluation
                want_draws = 0
                if il.startswith("OK"):
                    toks = il.split()
                    if is_reg:
                        uid, ch = fw.rd_b(toks[4]), fw.rd_b(toks[7])
                        defaulted = [("user id", uid, not a["user_id"]), ("challenge", ch, not a["challenge"])]
                    else:
                        ch = fw.rd_b(toks[1])
                        defaulted = [("challenge", ch, not a["challenge"])]
                    k = 0
                    for nm, val, was_defaulted in defaulted:
                        if was_defaulted:
                            want_draws += 1
                            exp = bytes(new_reads[k][i] for i in perm) if k < len(new_reads) and len(new_reads[k]) == 64 else None
                            if exp is None or val != exp or len(val) != 64:
                                chk.violation(f"defaulted {nm} is not a fresh 64-byte value from the OS random source", f"not-os-random {nm}", rp)
                            k += 1
                        else:
                            given = a["user_id"] if nm == "user id" else a["challenge"]
                            if val != given:
                                chk.violation(f"caller-supplied {nm} changed", f"passthrough {nm}", rp)
                    # every supplied value appears unchanged (spec written from the property text)
                    if is_reg:
                        sel = a["auth_sel"]
                        if sel is not None:
                            sel = dict(sel)
                            if sel["rk"] == "required":
                                sel["require_rk"] = True
                        exp_line = " ".join(["OK", impl.opt(fw.ws, a["rp_id"]), fw.ws(a["rp_name"]), toks[4], fw.ws(a["user_name"]), fw.ws(a["display_name"] or a["user_name"]), toks[7],
                                             impl.wlist(lambda x: fw.ws("public-key") + " " + fw.wi(x), a["algs"] or [-7, -8, -36, -37, -38, -39, -257, -258, -259]),
                                             impl.opt(fw.wi, a["timeout"]), impl.opt(lambda l: impl.wlist(optsim.w_desc, l), a["exclude"] or []),
                                             impl.opt(optsim.w_sel, sel), impl.opt(fw.ws, a["attestation"]), impl.opt(lambda l: impl.wlist(fw.ws, l), a["hints"])])
                    else:
                        exp_line = " ".join(["OK", toks[1], impl.opt(fw.wi, a["timeout"]), impl.opt(fw.ws, a["rp_id"]), impl.opt(lambda l: impl.wlist(optsim.w_desc, l), a["allow"] or []),
                                             impl.opt(fw.ws, a["uv"])])
                    if il != exp_line:
                        chk.violation("a caller-supplied value does not appear unchanged in the generated options (or residentKey=required without requireResidentKey)",
                                      "passthrough-fields " + ("reg" if is_reg else "auth"), dict(rp, expected=exp_line[:600]))
                    if len(new_reads) != want_draws:
                        chk.violation(f"{len(new_reads)} reads of the OS random source for {want_draws} defaulted values", "draw-count", rp)
                    if is_reg and a["auth_sel"] and a["auth_sel"]["rk"] == "required" and " Y N" in il and False:
                        pass
                else:
                    empty = (not a["rp_id"]) or (is_reg and (not a["rp_name"] or not a["user_name"]))
                    if not empty:
                        chk.violation(f"admissible arguments refused: {il}", "refused-admissible", rp)
                    elif il != "ERR Py:ValueError":
                        chk.violation(f"empty rp id / rp name / user name not refused with ValueError: {il}", "refusal-class", rp)
                # model on the same tape
                if R:
                    draws = [bytes(r[i] for i in perm) if len(r) == 64 else r for r in new_reads] + [b"", b""]
                    cmd = ("genreg " + optsim.reg_args_wire(a)) if is_reg else ("genauth " + optsim.auth_args_wire(a))
                    ml = R.call(cmd + " 0 " + impl.wlist(fw.wb, draws))
                    if ml.startswith("OK"):
                        mt = ml.split()
                        ml_cmp, mn = " ".join(mt[:-1]), int(mt[-1])
                    else:
                        ml_cmp, mn = ml, 0
                    if ml_cmp != il or (il.startswith("OK") and mn != len(new_reads)):
                        chk.diverge("Model.gen_reg/gen_auth", f"model {ml[:120]} impl {il[:120]} reads {len(new_reads)}", rp)
                chk.seen((is_reg, shape(a), il[:6]))
                chk.count(("reg:" if is_reg else "auth:") + ("OK" if il.startswith("OK") else il))
                if h == 0 and pos < 2:
                    chk.sample({"args": rp["args"], "impl": il[:200], "os_reads": len(new_reads)})
    # a failing OS random source is an error, never a reason to fall back to anything else
    import secrets
    for exc in (NotImplementedError, OSError, PermissionError):
        for fn, kw in ((webauthn.generate_registration_options, dict(rp_id="a", rp_name="b", user_name="c")), (webauthn.generate_authentication_options, dict(rp_id="a")),
                       (webauthn.generate_registration_options, dict(rp_id="a", rp_name="b", user_name="c", challenge=b"given-challenge"))):
            def broken(n, _e=exc):
                raise _e("no entropy source")
            saved = (os.urandom, random._urandom, secrets.token_bytes, getattr(secrets.SystemRandom, "randbytes", None))
            os.urandom = broken
            random._urandom = broken
            secrets.token_bytes = lambda n=32: broken(n)
            random.seed(7)
            try:
                try:
                    o = fn(**kw)
                    val = "returned challenge " + o.challenge.hex()[:32] + ("" if not hasattr(o, "user") else " user id " + o.user.id.hex()[:32])
                except Exception as e:
                    val = "raised " + type(e).__name__
            finally:
                os.urandom, random._urandom, secrets.token_bytes = saved[:3]
            chk.evals += 1
            if not val.startswith("raised"):
                chk.violation(f"with the OS random source failing ({exc.__name__}) option generation still {val}", f"entropy-failure-fallback {fn.__name__}",
                              {"entry": fn.__name__, "kwargs": {k: (v.hex() if isinstance(v, bytes) else v) for k, v in kw.items()}, "source_failure": exc.__name__, "outcome": val})
    # default algorithms offered = accepted by default (behavioural)
    import inspect
    from harness import regsim, authsim
    o = webauthn.generate_registration_options(rp_id="a", rp_name="b", user_name="c")
    offered = [int(p.alg) for p in o.pub_key_cred_params]
    d = inspect.signature(webauthn.verify_registration_response).parameters["supported_pub_key_algs"].default
    chk.evals += 1
    if isinstance(d, (list, tuple)) and offered != [int(x) for x in d]:
        chk.violation("algorithms offered by default differ from the default argument of registration verification", "default-algs", {"offered": offered, "default_argument": [int(x) for x in d]})
    # behaviourally: one registration per credential algorithm, verified with NO algorithm list given
    kind_of = {}
    for k, (fam, curve, alg, scheme) in authsim.KINDS.items():
        kind_of.setdefault(alg, k)
    accepted = []
    for alg, kind in sorted(kind_of.items()):
        s = regsim.RScn("none", kind)
        pd, reg = regsim.build(s)
        chk.evals += 1
        try:
            webauthn.verify_registration_response(credential=reg.as_record(), expected_challenge=pd["challenge"], expected_rp_id=pd["rp_id"], expected_origin=pd["origin"])
            accepted.append(alg)
        except Exception as e:
            if alg in offered:
                chk.violation(f"algorithm {alg} is offered by default but a registration using it is refused by default: {fw.classify_exc(e)}", f"default-algs offered-not-accepted {alg}", {"alg": alg, "offered": offered})
    # ... and through the signed formats as well: whatever the format and whatever algorithm the statement itself is signed with,
    # a credential algorithm that is not offered by default is not accepted by default
    from harness import impl as _impl, regrun as _regrun
    for fmt, akinds in (("packed-self", [None]), ("packed", ["ES256-P256", "RS256", "RS1"]), ("tpm", ["RS256", "ES256-P256", "RS1"])):
        for alg, kind in sorted(kind_of.items()):
            for ak in akinds:
                if fmt == "tpm" and authsim.KINDS[kind][0] == "ed":
                    continue
                s2 = regsim.RScn(fmt, kind, ak or "ES256-P256")
                try:
                    pd2, reg2 = regsim.build(s2)
                except Exception:
                    continue
                pol2 = _regrun.policy_of(dict(pd2, algs=None))
                o2 = _impl.verify_reg(pol2, reg2.as_dict())
                chk.evals += 1
                if o2.startswith("OK") != (alg in offered):
                    chk.violation(f"credential algorithm {alg} through a {fmt} statement (attestation key {ak}) is {'accepted' if o2.startswith('OK') else 'refused'} by default although it is {'not ' if alg not in offered else ''}offered by default",
                                  f"default-algs {fmt} {alg} att={ak}", {"fmt": fmt, "credential_alg": alg, "attestation_key": ak, "offered": offered, "impl": o2[:120]})
    if sorted(accepted) != sorted(offered):
        chk.violation("algorithms accepted by default differ from those offered by default", "default-algs accepted-vs-offered",
                      {"offered": offered, "accepted_by_default": accepted, "how": "fmt=none registration per credential algorithm, verify_registration_response called without supported_pub_key_algs"})
    # real OS source: distinctness / balance (a test)
    N = 3000 if quick else 20000
    seen_vals = set()
    hist = collections.Counter()
    for i in range(N):
        if i % 2:
            o = webauthn.generate_registration_options(rp_id="a", rp_name="b", user_name="c")
            vals = [o.challenge, o.user.id]
        else:
            vals = [webauthn.generate_authentication_options(rp_id="a").challenge]
        if i % 97 == 0:
            random.seed(1)
        for v in vals:
            if len(v) != 64 or v in seen_vals:
                chk.violation("generated value repeated or not 64 bytes (real OS source)", "real-source-repeat", {"value": v.hex(), "call": i})
            seen_vals.add(v)
            hist.update(v)
    chk.evals += N
    tot = sum(hist.values())
    expc = tot / 256
    chi2 = sum((hist.get(b, 0) - expc) ** 2 / expc for b in range(256))
    chk.notes.append({"real_source_calls": N, "byte_values_seen": len(hist), "chi2_255dof": round(chi2, 1)})
    if len(hist) < 256 or chi2 > 450:
        chk.violation("byte values of generated challenges / user ids are not balanced (real OS source)", "real-source-balance", {"chi2": chi2, "missing": [b for b in range(256) if b not in hist]})
    if R:
        R.close()
    spy.__exit__(None, None, None)
    spy.report(chk)
    fw.env_invariance(chk, "options")          # the same seeded cases under -O / -OO, warnings-as-errors, other TZ / locale, a private CA bundle
    return fw.finish(chk, ob, br, TRUSTED,
                     ["distinct 64-byte draws of the OS source are distinct (premise of the never-repeat corollary)", "admissible argument values: non-empty strings, enum members, byte strings"],
                     RULE, "coqc -Q . PW Properties/C15.v; thorough: coqchk -o")


def replay(path):
    print(open(path).read()[:3000])
    return 0
