"""C11 - authenticator data parsed exactly and completely."""
import json, cbor2
from harness import fw, impl, cborgen, oracle

TRUSTED = [
    "Coq 8.16.1 kernel; C11 theorems quantify over all field values / lengths / nested CBOR values of the modelled subset",
    "cbor2 is MODELLED (coq/Model/Cbor.v: first item decoded, rest ignored; shortest-head re-encoding; Python dict semantics for maps) and validated differentially, not verified; outside the subset (floats, tags, simple values, indefinite lengths, non int/bytes/text map keys) the model answers Unmodelled",
    "extraction + driver; harness canonicalisation",
]
RULE = ("structured generator (all field shapes of the quantifier text: flags, counters, AAGUIDs, credential id lengths 0-1023, EC2/OKP/RSA keys, nested extension maps), "
        "EVERY truncation point and suffixes of 1-8 bytes of each layout, an arbitrary-bytes stream, a CBOR-aware mutation stream; cbor2 vs model decoder/encoder directly. "
        "distinct_nontrivial = distinct inputs")
LIB = "ERR Lib:"


BAD_EDDSA = bytes.fromhex("a301634f4b500327206745643235353139")


def reference_mismatch(b, il):
    import io
    t = il.split()
    try:
        rp, fl, cnt = fw.rd_b(t[1]), fw.rd_i(t[2]), fw.rd_i(t[3])
        i = 4
        att = None
        if t[i] == "Y":
            att = (fw.rd_b(t[i + 1]), fw.rd_b(t[i + 2]), fw.rd_b(t[i + 3]))
            i += 4
        else:
            i += 1
        ext = fw.rd_b(t[i + 1]) if t[i] == "Y" else None
    except Exception:
        return None
    if rp != b[:32]:
        return "rp-id-hash: not bytes 0-31"
    if cnt != int.from_bytes(b[33:37], "big"):
        return "counter: not the big-endian value of bytes 33-36"
    if (fl & 0xDD) != (b[32] & 0xDD):
        return "flags: not byte 32"
    if (att is not None) != bool(b[32] & 0x40) or (ext is not None) != bool(b[32] & 0x80):
        return "presence: attested data / extensions do not follow the AT / ED bits"
    p = 37
    def item(buf):
        d = cbor2.CBORDecoder(io.BytesIO(buf))
        v = d.decode()
        return v, d.fp.tell()
    def same(v, enc):
        try:
            return cbor2.dumps(cbor2.loads(enc)) == cbor2.dumps(v)
        except Exception:
            return True          # (values cbor2 cannot re-encode: no verdict)
    try:
        if att is not None:
            L = int.from_bytes(b[53:55], "big")
            if att[0] != b[37:53]:
                return "aaguid: not bytes 37-52"
            if att[1] != b[55:55 + L]:
                return "credential-id: not the announced number of bytes after the length"
            p = 55 + L
            buf = b[p:]
            if buf[:17] == BAD_EDDSA:
                buf = b"\xa4" + buf[1:]          # the documented repair of the known-malformed EdDSA key header
            v, n = item(buf)
            if not same(v, att[2]):
                return "credential-public-key: not the CBOR item that follows the credential id"
            try:
                if cbor2.dumps(v) != bytes(buf[:n]):
                    return None          # observation O1: a key item that does not re-encode to itself (here: a repeated map key) is measured by its re-encoding; C11 quantifies
                                         # over canonically encoded CBOR, so what follows such an item has no reference reading
            except Exception:
                return None
            p += n
        if ext is not None:
            v, n = item(b[p:])
            if not same(v, ext):
                return "extensions: not the CBOR item that follows"
    except Exception:
        return None              # (the reference cannot read it: no verdict)
    return None


def run(tier, seed):
    chk = fw.Check("C11", tier, seed)
    br, ob = fw.standard_prelude(chk, with_coqchk=(tier == "thorough"))
    rng = chk.rng
    R = fw.Runner(oracle.Oracle()) if br.runner_ok else None
    quick = tier == "quick"

    def run_one(b, kind, expect=None):
        il = impl.parse_authenticator_data(b)
        chk.evals += 1
        rp = {"entry": "parse_authenticator_data", "input_hex": b.hex(), "kind": kind, "impl": il}
        if not il.startswith("OK") and not il.startswith(LIB):
            chk.violation(f"parser raised a non-library error: {il}", f"authdata-nonlib {kind} {il}", rp)
        if expect == "reject" and il.startswith("OK"):
            chk.violation(f"{kind}: byte string with leftover / missing bytes accepted", f"authdata-accepts {kind}", rp)
        if isinstance(expect, dict):
            e = expect
            want = "OK " + " ".join([fw.wb(e["rp"]), fw.wi(e["flags"] & 0xDD), fw.wi(e["count"]),
                                     impl.opt(lambda a: fw.wb(a[0]) + " " + fw.wb(a[1]) + " " + fw.wb(a[2]), e["att"]), impl.opt(fw.wb, e["ext"])])
            if il != want:
                chk.violation("laid-out authenticator data not parsed to exactly its fields", "authdata-unfaithful", dict(rp, expected=want))
        if il.startswith("OK") and "unprintable" not in il:
            # an independent reading of the same bytes (offsets by hand, the CBOR items by cbor2's streaming decoder): whatever the model covers or not, the fields of an
            # accepted parse are the bytes at their offsets, and the key / extension items are the items that stand there
            why = reference_mismatch(b, il)
            if why:
                chk.violation(f"accepted authenticator data: {why}", f"authdata-reference {kind} {why.split(':')[0]}", rp)
        if R:
            ml = impl.model_flags_mask(R.call("authdata " + fw.wb(b)))
            rp["model"] = ml
            if not fw.exn_refines(ml, il):
                chk.diverge("Model.parse_auth_data", f"{kind}: model {ml[:100]} impl {il[:100]}", rp)
        chk.count(kind + ":" + ("OK" if il.startswith("OK") else il[4:]))
        chk.seen(b[:400])
        return il

    n = 60 if quick else 400
    for i in range(n):
        b, exp = cborgen.layout(rng)
        run_one(b, "layout", exp)
        if i < 2:
            chk.sample({"layout_hex": b.hex()[:160], "flags": exp["flags"], "count": exp["count"]})
        # every truncation point (long layouts: all points near field boundaries + stride)
        pts = range(len(b)) if len(b) < 400 else sorted(set(list(range(0, 120 if quick else 200)) + list(range(len(b) - (120 if quick else 200), len(b))) + list(range(0, len(b), 7 if quick else 3))))
        for t in pts:
            run_one(b[:t], "truncated", "reject")
        for k in range(1, 9):
            run_one(b + rng.randbytes(k), "suffix", "reject")
            run_one(b + bytes(k), "suffix", "reject")
    # extension maps (and COSE-key-shaped maps) whose text keys / values are strings that some normalisation would change, and maps nested deep (but canonically):
    # every one is laid-out authenticator data and parses to exactly its bytes
    tricky_exts = []
    for t in fw.TRICKY_STRINGS:
        tricky_exts += [{t: 1}, {"k": t}, {"a": {t: [t, {t: t}]}}, {t: t.encode("utf-8")}]
    for depth in (10, 100, 200):
        v = 1
        for _ in range(depth):
            v = [v]
        tricky_exts.append({"deep": v})
        v = 1
        for _ in range(depth):
            v = {"m": v}
        tricky_exts.append(v)
    for i, e in enumerate(tricky_exts):
        ext = cbor2.dumps(e)
        rp = rng.randbytes(32)
        good_key = cbor2.dumps({1: 2, 3: -7, -1: 1, -2: bytes(32), -3: bytes(32)})
        for with_at in (False, True):
            fl = 0x81 | (0x40 if with_at else 0)
            b = rp + bytes([fl]) + b"\x00\x00\x00\x07" + ((bytes(16) + b"\x00\x02id" + good_key) if with_at else b"") + ext
            run_one(b, "tricky-extension", {"rp": rp, "flags": fl, "count": 7, "att": (bytes(16), b"id", good_key) if with_at else None, "ext": ext})
            run_one(b + b"\x00", "tricky-extension-suffix", "reject")
    # nesting depth ladder (arrays, maps, mixed) up to well beyond the interpreter's recursion limit: whatever happens, it is a record or a library exception
    for depth in (400, 700, 900, 950, 990, 1000, 1010, 1100, 1300, 1490, 1500, 3000, 20000):
        for open_, leaf in ((b"\x81", b"\x00"), (b"\xa1\x61\x6d", b"\x00"), (b"\xa1\x61\x6d\x81", b"\x00")):
            item = open_ * depth + leaf
            for hdr in (rng.randbytes(32) + b"\x81\x00\x00\x00\x01", rng.randbytes(32) + b"\xc1\x00\x00\x00\x01" + bytes(16) + b"\x00\x02id" + cbor2.dumps({1: 2, 3: -7, -1: 1, -2: bytes(32), -3: bytes(32)})):
                run_one(hdr + item, "deep-extension")
                run_one(hdr + b"\xa1\x61\x64" + item, "deep-extension")
    # a raw U2F point (0x04 || X || Y) where the COSE key belongs is no COSE key: 0x04 is the complete CBOR integer 4 and the 64 bytes behind it are left over
    for tail in (64, 65, 70, 100, 130):
        for fl in (0x41, 0xC1):
            b = rng.randbytes(32) + bytes([fl]) + b"\x00\x00\x00\x01" + bytes(16) + b"\x00\x02id" + b"\x04" + rng.randbytes(tail) + (b"\xa0" if fl & 0x80 else b"")
            run_one(b, "raw-point-at-key-position", "reject")
    # the byte pattern of the known-malformed EdDSA key header means something at ONE place (where the credential public key starts): written over any other 17 bytes of a
    # layout - the header, the counter, the AAGUID, the credential id, the extensions - it is data like any other (model and reference reading decide)
    for kind_ in range(3 if quick else 12):
        b, exp = cborgen.layout(rng)
        while not (b[32] & 0x40) or len(b) > 400:
            b, exp = cborgen.layout(rng)
        for off in range(0, len(b) - 17):
            b2 = b[:off] + BAD_EDDSA + b[off + 17:]
            run_one(b2, "marker-at-offset")
        # ... in particular across the counter and the AAGUID of an assertion that carries attested data
        key = cbor2.dumps({1: 2, 3: -7, -1: 1, -2: bytes(32), -3: bytes(32)})
        b3 = rng.randbytes(32) + b"\x41" + BAD_EDDSA[:4] + BAD_EDDSA[4:] + bytes(3) + b"\x00\x02id" + key
        run_one(b3, "marker-across-counter-and-aaguid", {"rp": b3[:32], "flags": 0x41, "count": int.from_bytes(BAD_EDDSA[:4], "big"), "att": (BAD_EDDSA[4:] + bytes(3), b"id", key), "ext": None})
    # bad-EdDSA quirk layouts
    bad = bytes.fromhex("a301634f4b500327206745643235353139") + bytes.fromhex("215820") + rng.randbytes(32)
    for cid_len in (0, 16, 70):
        b = rng.randbytes(32) + b"\x45" + b"\x00\x00\x00\x05" + rng.randbytes(16) + cid_len.to_bytes(2, "big") + rng.randbytes(cid_len) + bad
        run_one(b, "bad-eddsa")
        run_one(b + b"\x00", "bad-eddsa-suffix", "reject")
    # ... and the very same 17 bytes occurring LATER than the start of the key: inside an extension value, as a nested map of the
    # extensions, inside a coordinate of a well-formed key - nothing may be rewritten there
    pat = bytes.fromhex("a301634f4b500327206745643235353139")
    for cid_len in (1, 16):
        rp_h, aag, cid = rng.randbytes(32), rng.randbytes(16), rng.randbytes(cid_len)
        for key_obj, ext_obj in (({1: 2, 3: -7, -1: 1, -2: rng.randbytes(32), -3: rng.randbytes(32)}, {"credBlob": pat + rng.randbytes(8)}),
                                 ({1: 2, 3: -7, -1: 1, -2: rng.randbytes(32), -3: rng.randbytes(32)}, {"nested": {1: "OKP", 3: -8, -1: "Ed25519"}}),
                                 ({1: 2, 3: -7, -1: 1, -2: rng.randbytes(7) + pat + rng.randbytes(8), -3: rng.randbytes(32)}, None),
                                 ({1: 2, 3: -7, -1: 1, -2: rng.randbytes(32), -3: pat + rng.randbytes(15)}, {"credBlob": b"x"}),
                                 ({1: 3, 3: -257, -1: rng.randbytes(100) + pat + rng.randbytes(139), -2: b"\x01\x00\x01"}, None)):
            kb = cbor2.dumps(key_obj)
            eb = cbor2.dumps(ext_obj) if ext_obj is not None else None
            fl = 0x45 | (0x80 if eb is not None else 0)
            b = rp_h + bytes([fl]) + (7).to_bytes(4, "big") + aag + cid_len.to_bytes(2, "big") + cid + kb + (eb or b"")
            assert pat in b[55 + cid_len + 1:]
            run_one(b, "bad-eddsa-pattern-elsewhere", {"rp": rp_h, "flags": fl, "count": 7, "att": (aag, cid, kb), "ext": eb})
    # histories: a value marked shareable (tag 28) in one input must not be resolvable by a shared reference (tag 29) in a LATER input
    hdr_ed = bytes(32) + b"\x81" + b"\x00\x00\x00\x01"
    hdr_at = bytes(32) + b"\x41" + b"\x00\x00\x00\x01" + bytes(16) + b"\x00\x02" + b"id"
    ref_inputs = [hdr_ed + b"\xd8\x1d\x00", hdr_ed + b"\xa1\x61a\xd8\x1d\x00", hdr_at + b"\xa5\x01\x02\x03\x26\x20\x01\x21\xd8\x1d\x00\x22\xd8\x1d\x00", hdr_ed + b"\xd8\x1d\x01"]
    share_inputs = [hdr_ed + b"\xd8\x1c\x58\x28" + bytes(40), hdr_ed + b"\xd8\x1c\xa1\x6bcredProtect\x02", hdr_ed + b"\xa1\x61a\xd8\x1c\x58\x20" + bytes(32),
                    hdr_at + b"\xa5\x01\x02\x03\x26\x20\x01\x21\xd8\x1c\x58\x20" + bytes(32) + b"\x22\x58\x20" + bytes(32)]
    before = [impl.parse_authenticator_data(b) for b in ref_inputs]
    for sh in share_inputs:
        impl.parse_authenticator_data(sh)
        after = [impl.parse_authenticator_data(b) for b in ref_inputs]
        chk.evals += len(ref_inputs) + 1
        for b, x, y in zip(ref_inputs, before, after):
            if x != y:
                chk.violation("parse_authenticator_data gives another result for the same bytes after an unrelated earlier call (decoder state carried over)", "authdata-history shared-reference",
                              {"entry": "parse_authenticator_data", "history": [sh.hex(), b.hex()], "first_outcome": x[:120], "later_outcome": y[:120]})
        chk.seen(("history", sh[:48]))
    # hostile CBOR in the COSE-key slot and in the extension slot (exceptions outside cbor2's own hierarchy, recursion)
    for item in cborgen.hostile_cbor():
        hdr_at = rng.randbytes(32) + b"\x41" + b"\x00\x00\x00\x01" + rng.randbytes(16) + b"\x00\x02" + b"id"
        hdr_ed = rng.randbytes(32) + b"\x81" + b"\x00\x00\x00\x01"
        good_key = cbor2.dumps({1: 2, 3: -7, -1: 1, -2: bytes(32), -3: bytes(32)})
        hdr_both = rng.randbytes(32) + b"\xc1" + b"\x00\x00\x00\x01" + rng.randbytes(16) + b"\x00\x02" + b"id" + good_key
        for b in (hdr_at + item, hdr_ed + item, hdr_both + item):
            il = run_one(b, "hostile-cbor")
            try:
                canonical = cbor2.dumps(cbor2.loads(item)) == item      # (observation O1: the parser measures an item by re-encoding it; C11 quantifies over canonically encoded CBOR)
            except Exception:
                canonical = False
            # whatever such an item decodes to, bytes after it are leftover bytes
            for sfx in (b"\x00", b"\xff\xff", b"\x00\x00\x00"):
                run_one(b + sfx, "hostile-cbor-suffix", "reject" if il.startswith("OK") and canonical else None)      # (a truncated item may be completed by the suffix)
        # extension data announced (ED) but the bytes end with the key item: nothing of the key is "the extensions"
        if len(item) < 300:
            hdr_at_ed = hdr_at[:32] + b"\xc1" + hdr_at[33:]
            try:
                canonical = cbor2.dumps(cbor2.loads(item)) == item
            except Exception:
                canonical = False
            run_one(hdr_at_ed + item, "hostile-cbor-extensions-announced-but-absent", "reject" if canonical else None)
    # CBOR items that cbor2 turns into rich Python objects (dates, date-times, UUIDs, decimals, fractions, IP addresses, sets, regular expressions, MIME messages, bignums):
    # an item that re-encodes to itself is well-formed extension data / a well-formed key member, and the parse reports the very bytes
    rich = ["d903ec6a323032362d31302d3031", "d8641a00004e20", "c074323032362d31302d30315431323a30303a30305a", "c11a6553f100", "c1fb41d954fc40000000", "d82550000102030405060708090a0b0c0d0e0f",
            "c48221196ab3", "c5822003", "d81e820103", "d9010283010203", "d9010444c0a80001", "d9010450200100000000000000000000000000001", "c249010000000000000000", "c349010000000000000000",
            "d8236161", "d820736874747073a2f2f6578616d706c652e636f6d".replace("a2f2f", "3a2f2f"), "d82166616263", "d903ec6a323032362d30322d3330"]
    good_key = cbor2.dumps({1: 2, 3: -7, -1: 1, -2: bytes(32), -3: bytes(32)})
    for hx in rich:
        try:
            item = bytes.fromhex(hx)
            canonical = cbor2.dumps(cbor2.loads(item)) == item
        except Exception:
            continue
        if not canonical:
            continue
        rp_ = rng.randbytes(32)
        ext = cbor2.dumps({"x": 0})[:-1] + item          # {"x": <item>}
        run_one(rp_ + b"\x81" + b"\x00\x00\x00\x07" + ext, "rich-cbor-extension", {"rp": rp_, "flags": 0x81, "count": 7, "att": None, "ext": ext})
        key = good_key[:1].replace(b"\xa5", b"\xa6") + good_key[1:] + cbor2.dumps("note") + item      # the key map with one more member holding the item
        run_one(rp_ + b"\xc1" + b"\x00\x00\x00\x07" + bytes(16) + b"\x00\x02id" + key + ext, "rich-cbor-key-member", {"rp": rp_, "flags": 0xC1, "count": 7, "att": (bytes(16), b"id", key), "ext": ext})
    # shareable values (tag 28) marked inside the KEY and referenced (tag 29) from the EXTENSION item: the two items are decoded on their own - the extension item alone
    # has nothing to refer to
    for marked in (b"\xd8\x1c\x58\x20" + bytes(range(32)), b"\xd8\x1c\x01"):
        for ref in (b"\xd8\x1d\x00", b"\xa1\x61\x61\xd8\x1d\x00", b"\x81\xd8\x1d\x00"):
            key = b"\xa5\x01\x02\x03\x26\x20\x01\x21" + marked + b"\x22\x58\x20" + bytes(32)
            run_one(rng.randbytes(32) + b"\xc1" + b"\x00\x00\x00\x01" + bytes(16) + b"\x00\x02id" + key + ref, "shared-reference-from-extensions-into-the-key", "reject")
    # ... also when the key's length happens to survive re-encoding (two dropped tag-28 headers = 4 bytes, compensated by a float32 member that re-encodes as float64: + 4 bytes)
    for ref in (b"\xa1\x61\x61\xd8\x1d\x00", b"\xd8\x1d\x01", b"\x82\xd8\x1d\x00\xd8\x1d\x01"):
        x_, y_ = bytes(range(1, 33)), bytes(range(33, 65))
        key = bytes.fromhex("a6010203262001") + b"\x21\xd8\x1c\x58\x20" + x_ + b"\x22\xd8\x1c\x58\x20" + y_ + bytes.fromhex("1863fa3fc00000")
        run_one(rng.randbytes(32) + b"\xc1" + b"\x00\x00\x00\x07" + bytes(16) + b"\x00\x04" + b"\xde\xad\xbe\xef" + key + ref, "shared-reference-from-extensions-into-a-length-preserving-key", "reject")
    # the byte string may arrive as a view into a larger buffer (a window of the attestation object, of a network buffer): the result is that of the bytes it covers
    for i in range(40 if quick else 400):
        b, exp = cborgen.layout(rng)
        ref = impl.parse_authenticator_data(b)
        pre, post = rng.randbytes(rng.choice([1, 2, 37, 55])), rng.randbytes(rng.choice([0, 1, 3, 40]))
        big = pre + b + post
        forms = {"window of bytes": memoryview(big)[len(pre):len(pre) + len(b)], "window of bytearray": memoryview(bytearray(big))[len(pre):len(pre) + len(b)],
                 "prefix window of bytes": memoryview(b + post + b"\x00")[:len(b)], "suffix window of bytes": memoryview(pre + b)[len(pre):],
                 "bytearray": bytearray(b), "full view": memoryview(b)}
        for k, v in forms.items():
            got = impl.parse_authenticator_data(v)
            chk.evals += 1
            if got != ref:
                chk.violation(f"authenticator data given as a {k} is parsed differently from the bytes it covers", f"authdata-view {k}",
                              {"entry": "parse_authenticator_data", "form": k, "bytes_hex": b.hex(), "buffer_hex": big.hex(), "offset": len(pre), "as_bytes": ref[:160], "as_view": got[:160]})
        # ... and a truncated window is truncated data
        if len(b) > 40:
            t = rng.randrange(37, len(b))
            got, want = impl.parse_authenticator_data(memoryview(b)[:t]), impl.parse_authenticator_data(b[:t])
            chk.evals += 1
            if got != want:
                chk.violation("a truncating view of authenticator data is parsed differently from the truncated bytes", "authdata-view truncating window",
                              {"entry": "parse_authenticator_data", "bytes_hex": b.hex(), "cut": t, "as_bytes": want[:160], "as_view": got[:160]})
    # arbitrary bytes
    for i in range(1500 if quick else 30000):
        L = rng.choice([0, 1, 36, 37, 38, 55, 60, 100, 200])
        b = bytearray(rng.randbytes(L))
        if L > 32 and rng.random() < 0.7:
            b[32] = rng.choice([0x41, 0x45, 0x81, 0xC5, 0x01, 0xC1])
        run_one(bytes(b), "arbitrary")
    # CBOR-aware mutations of layouts: flip/insert/delete bytes in the CBOR part
    for i in range(600 if quick else 12000):
        b, exp = cborgen.layout(rng)
        b = bytearray(b)
        if len(b) > 40:
            for _ in range(rng.choice([1, 1, 2, 3])):
                p = rng.randrange(37, len(b))
                op = rng.random()
                if op < 0.5:
                    b[p] ^= 1 << rng.randrange(8)
                elif op < 0.75:
                    del b[p]
                else:
                    b.insert(p, rng.randrange(256))
        run_one(bytes(b), "mutated")
    # cbor2 vs model directly
    if R:
        for i in range(400 if quick else 20000):
            v = cborgen.gen_value(rng)
            enc = cbor2.dumps(v)
            tail = rng.randbytes(rng.choice([0, 0, 3]))
            ml = R.call("cborload " + fw.wb(enc + tail))
            chk.evals += 1
            if not ml.startswith("OK"):
                if "Unmodelled" not in ml:
                    chk.diverge("Model.cbor_loads", f"cbor2.dumps({v!r:.80}) not decodable by model: {ml[:60]}", {"hex": enc.hex()})
                continue
            toks = ml.split()
            rest = toks[-1]
            val_toks = " ".join(toks[1:-1])
            md = R.call("cbordump " + val_toks)
            if rest != fw.wb(tail) or md != fw.wb(enc):
                chk.diverge("Model.cbor roundtrip", f"value {v!r:.80}: rest {rest[:40]} dump {md[:60]} vs {enc.hex()[:60]}", {"hex": enc.hex()})
            chk.seen(enc)
        # random bytes into both decoders: error/ok agreement and re-encoding
        for i in range(800 if quick else 40000):
            b = bytearray(rng.randbytes(rng.choice([1, 2, 3, 5, 9, 20])))
            if rng.random() < 0.6:
                b[0] = rng.choice([0x00, 0x18, 0x19, 0x1a, 0x1b, 0x38, 0x41, 0x58, 0x61, 0x78, 0x81, 0x82, 0x98, 0xa1, 0xa2, 0xb8, 0xf4, 0xf5, 0xf6, 0xf7, 0xf9, 0xc0, 0x5f, 0x9f, 0xff, 0x1c, 0xf8])
            b = bytes(b)
            try:
                v = cbor2.loads(b)
                ienc = "OK " + cbor2.dumps(v).hex()
            except Exception:
                ienc = "ERR"
            ml = R.call("cborload " + fw.wb(b))
            chk.evals += 1
            if "Unmodelled" in ml:
                chk.count("cbor:unmodelled")
                continue
            if ml.startswith("OK"):
                md = R.call("cbordump " + " ".join(ml.split()[1:-1]))
                mres = "OK " + md[2:]
            else:
                mres = "ERR"
            if mres != ienc:
                chk.diverge("Model.cbor_loads/cbor_enc", f"bytes {b.hex()}: model {mres[:60]} cbor2 {ienc[:60]}", {"hex": b.hex()})
            chk.count("cbor:" + mres[:3])
        R.close()
    fw.env_invariance(chk, "codec")          # the same seeded cases under -O / -OO, warnings-as-errors, other TZ / locale, a private CA bundle
    return fw.finish(chk, ob, br, TRUSTED,
                     ["CBOR inside authenticator data is in the modelled subset for the structured streams; nesting depth of generated values <= 5",
                      "observation O1 (DESIGN 4): non-canonical CBOR such as half-precision floats re-encodes to a different length, which is outside this property's quantifier"],
                     RULE, "coqc -Q . PW Properties/C11.v; thorough: coqchk -o")


def replay(path):
    r = json.load(open(path))
    print(json.dumps(r, indent=1)[:2500])
    rp = r.get("replay", {})
    if "input_hex" in rp:
        print("impl now:", impl.parse_authenticator_data(bytes.fromhex(rp["input_hex"])))
    return 0
