"""C17 - time-limited evidence judged against the clock at verification time."""
import json, os, sys, time
from harness import realclock, fw, impl, authsim, regsim, regcat, regrun, oracle

TRUSTED = [
    "Coq 8.16.1 kernel; the SafetyNet window theorems are lia over Z with the clock in milliseconds and its truncation to seconds written into the statement",
    "OpenSSL's reading of the clock and its validity rule (notBefore <= now < notAfter, whole seconds, root included) is an oracle, exercised not proved",
    "clock substitution in-process: time.time as seen by verify_safetynet_timestamp, store time via the _generate_new_cert_store hook the upstream tests use",
]
RULE = ("SafetyNet timestamp at every millisecond within +-3 ms of each window boundary, every second within +-15 s, sparse far away, with fractional clocks; "
        "verification clock at every second within +-3 s of notBefore / notAfter of leaf, intermediate and root, sparse far away, for every x5c format; "
        "histories in which the clock moves between repeated verifications of one response; thorough adds a real-clock run. distinct_nontrivial = distinct (subject, offset) cells")
T0, DAY = regsim.T0, regsim.DAY


def srcdict_numbers(T0):
    """numbers the changed source newly mentions, and the clock scaled by them: none of them is inside the window of a clock at T0"""
    from harness import srcdict
    out = []
    for n in srcdict.big_numbers() + srcdict.thresholds():
        for v in (n, n - 1, n + 1, T0 * 1000 * n, (T0 * 1000) // n if n else 0, T0 * n, T0 + n):
            if abs(v - T0 * 1000) > 60000:
                out.append(v)
    return out[:60]


def run(tier, seed):
    chk = fw.Check("C17", tier, seed)
    chk.strict_catalogue = True
    br, ob = fw.standard_prelude(chk, with_coqchk=(tier == "thorough"))
    rng = chk.rng
    B = regrun.RegBench(chk, br)
    B.O.chain_log = []
    quick = tier == "quick"
    # 1. verify_safetynet_timestamp directly, ms resolution, fractional clock
    vst = sys.modules.get("webauthn.helpers.verify_safetynet_timestamp")
    if vst is None:
        import importlib
        vst = importlib.import_module("webauthn.helpers.verify_safetynet_timestamp")
    f = vst.verify_safetynet_timestamp
    offs = set()
    for b in (-11000, -10000, -9000, 9000, 10000, 11000, 0):
        for d in range(-3, 4):
            offs.add(b + d)
    for sec in range(-15, 16):
        offs.add(sec * 1000)
    offs |= {-86400000, 86400000, -10 ** 9, 10 ** 9, -500, 500}
    # the window is anchored to the epoch clock: the process time zone must not move it
    saved_tz = os.environ.get("TZ")
    for tz in ("UTC", "JST-9", "PST8PDT"):
        os.environ["TZ"] = tz
        time.tzset()
        for frac_ms in ((0, 1, 250, 999) if tz == "UTC" else (250,)):
            Tms = T0 * 1000 + frac_ms
            saved = vst.time
            vst.time = impl._FakeTime(T0, frac_ms / 1000.0)
            try:
                for off in sorted(offs):
                    ts = Tms + off
                    try:
                        f(ts)
                        ok = True
                    except ValueError:
                        ok = False
                    except Exception as e:
                        ok = None
                        chk.violation(f"timestamp check raised {type(e).__name__}", "ts-raises", {"T_ms": Tms, "ts": ts})
                    chk.evals += 1
                    must_accept = -10000 <= off <= 9000
                    must_reject = off <= -11000 or off > 10000
                    if (must_accept and ok is False) or (must_reject and ok is True):
                        chk.violation(f"SafetyNet timestamp {off:+d} ms from the clock {'rejected' if must_accept else 'accepted'}", f"ts-window off={off}" + ("" if tz == "UTC" else f" TZ={tz}"),
                                      {"entry": "verify_safetynet_timestamp", "clock_ms": Tms, "timestamp_ms": ts, "accepted": ok, "TZ": tz})
                    if B.R:
                        m = B.R.call(f"tsok {fw.wi(T0)} {fw.wi(ts)}")
                        if (m == "T") != bool(ok):
                            chk.diverge("Model.timestamp_ok", f"clock {Tms} ts {ts}: model {m} impl {ok}", {"clock_ms": Tms, "timestamp_ms": ts})
                    chk.seen(("ts", frac_ms, off, tz))
            finally:
                vst.time = saved
        if tz != "UTC":
            for off_ms in (-10000, 0, 9000, 3600000 * 9, -3600000 * 8):
                s = regsim.RScn("android-safetynet", "ES256-P256")
                s.k["sn_timestamp"] = T0 * 1000 + 250 + off_ms
                pd, reg = regsim.build(s)
                B.run_case(regrun.policy_of(pd), reg, "dict", "accept" if -10000 <= off_ms <= 9000 else "reject", f"safetynet-ts{off_ms:+d}ms TZ={tz}", scn=s)
    if saved_tz is None:
        os.environ.pop("TZ", None)
    else:
        os.environ["TZ"] = saved_tz
    time.tzset()
    # daylight-saving transitions of the process time zone (the repeated and the skipped hour): attestation and verification on opposite sides of a switch are
    # still seconds apart - the window is a difference of epoch instants
    import calendar
    DST = [("CET-1CEST,M3.5.0,M10.5.0/3", [(2024, 3, 31, 1, 0, 0), (2024, 10, 27, 1, 0, 0), (2025, 3, 30, 1, 0, 0)]),
           ("EST5EDT,M3.2.0,M11.1.0", [(2024, 3, 10, 7, 0, 0), (2024, 11, 3, 6, 0, 0)]),
           ("AEST-10AEDT,M10.1.0,M4.1.0/3", [(2024, 4, 6, 16, 0, 0), (2024, 10, 5, 16, 0, 0)]),
           ("LHST-10:30LHDT-11,M10.1.0,M4.1.0", [(2024, 4, 6, 15, 0, 0), (2024, 10, 5, 15, 30, 0)])]
    saved_tz3 = os.environ.get("TZ")
    saved = vst.time
    try:
        for tz, switches in DST:
            os.environ["TZ"] = tz
            time.tzset()
            for sw in switches:
                X = calendar.timegm(sw + (0, 0, 0))
                for T in (X - 5, X - 1, X, X + 1, X + 5, X + 1795, X + 3595, X + 3600, X + 3605):
                    vst.time = impl._FakeTime(T, 0.25)
                    for off in (-9000, -5000, -1000, 0, 5000, 9000, -11000, 11000, -3600000, 3600000, -3605000, 3595000):
                        ts = T * 1000 + 250 + off
                        try:
                            f(ts)
                            ok = True
                        except Exception:
                            ok = False
                        chk.evals += 1
                        must = -10000 <= off <= 9000
                        if ok != must:
                            chk.violation(f"SafetyNet timestamp {off:+d} ms from the clock {'rejected' if must else 'accepted'} around a daylight-saving switch of TZ={tz}", f"ts-window-dst off={off} TZ={tz.split(',')[0]}",
                                          {"entry": "verify_safetynet_timestamp", "TZ": tz, "clock_epoch_s": T + 0.25, "timestamp_ms": ts, "switch_at_epoch_s": X, "accepted": ok})
                        chk.seen(("ts-dst", tz, T - X, off))
    finally:
        vst.time = saved
        if saved_tz3 is None:
            os.environ.pop("TZ", None)
        else:
            os.environ["TZ"] = saved_tz3
        time.tzset()
    # JSON numbers that are no integers: NaN / infinities are outside every window, a fractional timestamp is judged like the number it is
    saved = vst.time
    vst.time = impl._FakeTime(T0, 0.25)
    try:
        for ts, must in ((float("nan"), False), (float("inf"), False), (float("-inf"), False), (1e300, False), (-1e300, False), (T0 * 1000 + 0.5, True), (T0 * 1000 - 9999.5, True),
                         (T0 * 1000 + 10000.5, False), (T0 * 1000 - 11000.5, False),
                         # the member is milliseconds since the epoch - the right instant written in any other unit is another instant
                         (T0, False), (T0 - 2, False), (float(T0) - 1.5, False), (T0 * 10 ** 6, False), (T0 * 10 ** 9, False), (T0 // 60, False), (T0 * 1000 + 2 ** 32, False), (T0 * 1000 - 2 ** 32, False),
                         (-(T0 * 1000), False), (T0 * 1000 + 2 ** 64, False), (0, False), (1, False), (-1, False), (10 ** 11 - 1, False), (10 ** 10, False)) + \
                tuple((n, False) for n in srcdict_numbers(T0)):
            try:
                f(ts)
                ok = True
            except Exception:
                ok = False
            chk.evals += 1
            if ok != must:
                chk.violation(f"SafetyNet timestamp {ts!r} {'accepted' if ok else 'rejected'}", f"ts-window non-integer {ts!r}", {"entry": "verify_safetynet_timestamp", "clock_ms": T0 * 1000 + 250, "timestamp_ms": repr(ts), "accepted": ok})
            chk.seen(("ts-float", repr(ts)))
    finally:
        vst.time = saved
    chk.sample({"subject": "verify_safetynet_timestamp", "clock_ms": T0 * 1000 + 250, "offsets_ms": sorted(offs)[:12]})
    # 2. SafetyNet through verify_registration_response
    for off_ms in (-11001, -10250, -10000, -9000, 0, 9000, 9750, 10001, 11000, 3600000, -3600000):
        s = regsim.RScn("android-safetynet", "ES256-P256")
        s.k["sn_timestamp"] = T0 * 1000 + 250 + off_ms
        pd, reg = regsim.build(s)
        exp = "accept" if -10000 <= off_ms <= 9000 else ("reject" if (off_ms <= -11000 or off_ms > 10000) else None)
        B.run_case(regrun.policy_of(pd), reg, "dict", exp, f"safetynet-ts{off_ms:+d}ms", scn=s)
    from harness import authcat
    while authcat.variants_left("timestamp-in-another-unit", scope="c17:"):
        s = regsim.RScn("android-safetynet", "ES256-P256")
        authcat.apply(regcat.FORMAT_FAULTS["android-safetynet"], "timestamp-in-another-unit", s, scope="c17:")
        pd, reg = regsim.build(s)
        B.run_case(regrun.policy_of(pd), reg, "dict", "reject", "timestamp-in-another-unit/android-safetynet", scn=s)
    # 2b. SafetyNet: the chain is judged at the VERIFIER's clock, not at the attestation's own timestamp (which may differ by up to 10 s);
    #     and the timestamp window applies whatever the other verdict members say
    for what, nb, na, now, ts_off, exp in (("leaf expired 4 s ago, timestamp 8 s ago", T0 - DAY, T0 + 100, T0 + 104, -8, "reject"),
                                           ("leaf expired 1 s ago, timestamp 9 s ago", T0 - DAY, T0 + 100, T0 + 101, -9, "reject"),
                                           ("leaf valid in 5 s, timestamp 8 s ahead", T0 + 5, T0 + DAY, T0, 8, "reject"),
                                           ("leaf valid, timestamp 8 s ago (control)", T0 - DAY, T0 + DAY, T0, -8, "accept")):
        s = regsim.RScn("android-safetynet", "ES256-P256")
        s.n_inter = 1
        s.k["leaf_nb"], s.k["leaf_na"] = nb, na
        s.now = now
        s.k["sn_timestamp"] = (now + ts_off) * 1000
        pd, reg = regsim.build(s)
        B.run_case(regrun.policy_of(pd), reg, "dict", exp, f"safetynet-chain-at-verifier-clock: {what}", scn=s)
    for cts in (True, False, None):
        for basic in (True,):
            for off_ms, exp in ((-2000, "accept"), (-30000, "reject"), (-3600000, "reject"), (3600000, "reject"), (-12 * 3600000, "reject")):
                s = regsim.RScn("android-safetynet", "ES256-P256")
                s.k["sn_cts"] = cts
                s.k["sn_timestamp"] = T0 * 1000 + off_ms
                pd, reg = regsim.build(s)
                B.run_case(regrun.policy_of(pd), reg, "dict", exp, f"safetynet-ts{off_ms:+d}ms ctsProfileMatch={cts}", scn=s)
    # 3. certificate windows: clock dense around each boundary
    sparse = [-400 * DAY, -30 * DAY, 30 * DAY, 2000 * DAY]
    # (the leaf's own window in three variants: ordinary dates; valid since the Unix epoch - what Keymaster writes for "no activation date"; valid until 9999-12-31 -
    #  RFC 5280's "no well-defined expiration": remarkable dates on one certificate change nothing about how each certificate is judged)
    for fmt, (leaf_nb, leaf_na) in [(f, w) for f in regsim.X5C_FORMATS for w in ((T0 - DAY, T0 + 365 * DAY), (0, T0 + 150 * DAY), (T0 - DAY, 253402300799))]:
        ni = 0 if fmt == "fido-u2f" else 1
        s = regsim.RScn(fmt, "ES256-P256")
        s.n_inter = ni
        inter_nb, inter_na = T0 - 5 * DAY, T0 + 300 * DAY
        root_nb, root_na = T0 - 10 * DAY, T0 + 200 * DAY
        s.k["leaf_nb"], s.k["leaf_na"] = leaf_nb, leaf_na
        s.k["pki_kw"] = dict(root_nb=root_nb, root_na=root_na, inter_nb=inter_nb, inter_na=inter_na)
        windows = [("leaf", leaf_nb, leaf_na), ("root", root_nb, root_na)] + ([("intermediate", inter_nb, inter_na)] if ni else [])
        lo = max(w[1] for w in windows)
        hi = min(w[2] for w in windows)
        clocks = set(T0 + d for d in sparse)
        for (_, nb, na) in windows:
            for d in range(-3, 4):
                clocks.add(nb + d)
                clocks.add(na + d)
        clocks = {c for c in clocks if 0 < c < 2 ** 33}
        if quick and (fmt not in ("packed", "apple") or leaf_nb == 0 or leaf_na > T0 + 400 * DAY):
            clocks = set(list(sorted(clocks))[::3]) | {lo - 1, lo, hi - 1, hi}
        for now in sorted(clocks):
            if fmt == "android-safetynet":
                s.k["sn_timestamp"] = now * 1000
            s.now = now
            pd, reg = regsim.build(s)
            exp = "accept" if lo <= now < hi else "reject"
            B.run_case(regrun.policy_of(pd), reg, "dict", exp, f"{fmt}-clock", scn=s)
            chk.seen((fmt, now - T0))
            if now in (lo - 1, lo, hi - 1, hi) or now - T0 in sparse:
                # the same chain with unrecognised extensions on the leaf (PKI profile extensions, every OID the changed source newly mentions):
                # nothing inside a certificate moves its window or the clock it is judged at
                for n in range(regcat.decor_variants()):
                    if quick and fmt not in ("packed", "apple") and n % 3 != (now - lo) % 3:
                        continue
                    s.k["_decor_n"] = n
                    regcat._extension_decor(s, rng)
                    pd, reg = regsim.build(s)
                    B.run_case(regrun.policy_of(pd), reg, "dict", exp, f"{fmt}-clock:leaf-with-unrecognised-extensions", scn=s)
                s.k.pop("leaf_extra_exts", None)
    # ... and at the REAL clock with nothing substituted at all (a store whose time was never set), under several process time zones
    saved_tz2 = os.environ.get("TZ")
    for tz in ("UTC", "XXX-12", "XXX+12"):
        os.environ["TZ"] = tz
        time.tzset()
        realclock.remarkable_dates(chk, tz)
    if saved_tz2 is None:
        os.environ.pop("TZ", None)
    else:
        os.environ["TZ"] = saved_tz2
    time.tzset()
    realclock.boundary_crossed_while_running(chk)
    chk.sample({"subject": "packed chain", "boundaries": "leaf/intermediate/root notBefore/notAfter +-3 s", "rule": "accepted iff notBefore <= now < notAfter for every certificate"})
    # 3a'. every catalogue entry about a certificate outside its validity period (alone, and together with whatever else is wrong or remarkable about the chain: unrecognised
    #      extensions, a path-length violation, a re-dated copy of the root inside x5c, remarkable dates on other certificates, an AKI without key identifier)
    from harness import authcat
    timed = [n for n in regcat.CHAIN_FAULTS if any(w in n for w in ("expired", "not-yet-valid", "valid-until", "valid-since", "redated", "out-of-date"))]
    for fmt in ("packed", "tpm", "apple", "android-key", "android-safetynet", "fido-u2f"):
        for name in timed:
            if fmt == "fido-u2f" and ("intermediate" in name or name in regcat.MULTI_CERT_FAULTS):
                continue
            while True:
                s = regsim.RScn(fmt, "ES256-P256")
                s.n_inter = 0 if fmt == "fido-u2f" else 1
                authcat.apply(regcat.CHAIN_FAULTS, name, s, scope=f"c17:{fmt}:")
                pd, reg = regsim.build(s)
                B.run_case(regrun.policy_of(pd), reg, "dict", "reject", f"{name}/{fmt}", scn=s)
                if not authcat.variants_left(name, scope=f"c17:{fmt}:", cap=4):
                    break
    # 3b. the attestation certificate itself configured as an anchor (alone, or next to its issuer): its own validity still counts
    for fmt in ("packed", "tpm", "fido-u2f", "apple"):
        for mode in ("pin-leaf-and-root", "pin-leaf"):
            s = regsim.RScn(fmt, "ES256-P256")
            s.roots_mode = mode
            s.k["leaf_nb"], s.k["leaf_na"] = T0 - DAY, T0 + DAY
            for d in (0, 2 * DAY, -2 * DAY, DAY, DAY - 1, 0):
                s.now = T0 + d
                pd, reg = regsim.build(s)
                inside = -DAY <= d < DAY
                B.run_case(regrun.policy_of(pd), reg, "dict", None if inside else "reject", f"pinned-attestation-certificate/{mode}/{fmt}", scn=s)
                chk.seen((fmt, mode, d))
    # 3c. android-key: the root certificate PRESENTED in x5c is the one whose validity counts, also when the anchors hold another issuance
    #     of the same root (same subject and key, later validity)
    for ni in (0, 1):
        kw1 = dict(root_nb=T0 - 3000 * DAY, root_na=T0 - 10 * DAY, inter_nb=T0 - 2000 * DAY, inter_na=T0 + 1000 * DAY)
        s = regsim.RScn("android-key", "ES256-P256")
        s.n_inter = ni
        s.k["pki_kw"] = kw1
        v2 = regsim.PKI(s.pki_tag, n_inter=ni, root_nb=T0 - 1000 * DAY, root_na=T0 + 3000 * DAY).root_pem()
        for d, exp in ((-20 * DAY, "accept"), (0, "reject"), (-11 * DAY, "accept"), (-9 * DAY, "reject"), (100 * DAY, "reject")):
            s.now = T0 + d
            s.k["leaf_nb"], s.k["leaf_na"] = T0 - 400 * DAY, T0 + 400 * DAY
            pd, reg = regsim.build(s)
            pd = dict(pd, builtin=dict(pd["builtin"], **{"android-key": list(pd["builtin"]["android-key"]) + [v2]}))
            B.run_case(regrun.policy_of(pd), reg, "dict", exp, f"android-key presented root issuance expired, a later issuance is also an anchor (inter={ni})", scn=s)
    # 3d. SafetyNet with the REAL built-in anchors (nothing substituted but the clock) and no RP roots: a forged chain is refused at every clock,
    #     also after the built-in roots themselves have expired
    for now in (T0, 1830000000, 1840000000, 1930000000, 2000000000):
        s = regsim.RScn("android-safetynet", "ES256-P256")
        s.n_inter = 1
        s.now = now
        s.k["leaf_nb"], s.k["leaf_na"] = now - DAY, now + DAY
        s.k["pki_kw"] = dict(root_nb=now - 1000 * DAY, root_na=now + 1000 * DAY, inter_nb=now - 100 * DAY, inter_na=now + 100 * DAY)
        s.k["sn_timestamp"] = now * 1000 - 1000
        pd, reg = regsim.build(s)
        pd = dict(pd, builtin={}, roots={})
        B.run_case(regrun.policy_of(pd), reg, "dict", "reject", f"safetynet forged chain against the real built-in anchors at clock {now}", scn=s)
    # 4. histories: one response, clock moving between calls
    for fmt in ("packed", "apple", "android-safetynet", "android-key", "tpm"):
        s = regsim.RScn(fmt, "ES256-P256")
        s.n_inter = 1
        pd, reg = regsim.build(s)
        seq = [0, 5, 366 * DAY, 3, -2 * DAY, 0, 12 if fmt == "android-safetynet" else 364 * DAY, 1]
        if not quick:
            seq += [rng.choice([0, 1, 400 * DAY, -3 * DAY, 9, 30]) for _ in range(30)]
        for d in seq:
            if fmt == "android-safetynet":
                ts_off = (T0 + d) * 1000 + 250 - (T0 * 1000 - 2000)
                exp = "accept" if (-DAY < d < 365 * DAY and -9000 <= -ts_off + 0 <= 10000 and ts_off <= 10000) else "reject"
                exp = "accept" if (-DAY <= d < 365 * DAY and 0 <= d * 1000 + 2250 <= 10000) else ("reject" if not (0 <= d * 1000 + 2250 <= 11000) else None)
            else:
                exp = "accept" if (-DAY <= d < 365 * DAY) else "reject"
            B.run_case(regrun.policy_of(dict(pd, now=T0 + d)), reg, "dict", exp, f"history/{fmt}", scn=s)
    # 5. thorough: real clock, no substitution of the time source
    if not quick:
        real_clock_run(chk)
    from harness import chainview
    chainview.cross_check(chk, B.R, B.O.chain_log)
    B.close()
    fw.env_invariance(chk, "auth", "reg")          # the same seeded cases under -O / -OO, warnings-as-errors, other TZ / locale, a private CA bundle
    return fw.finish(chk, ob, br, TRUSTED,
                     ["clock truncation: the code uses int(time.time()); the statement carries the resulting one-second tolerance",
                      "expected verdicts for certificate windows use OpenSSL's rule notBefore <= now < notAfter"],
                     RULE, "coqc -Q . PW Properties/C17.v; thorough: coqchk -o")


def real_clock_run(chk):
    """leaf valid for 3 more seconds, verify, sleep 5 s, verify again (real time.time and real store time)"""
    import webauthn
    now = int(time.time())
    s = regsim.RScn("packed", "ES256-P256")
    s.k["leaf_nb"], s.k["leaf_na"] = now - 100, now + 3
    s.k["pki_kw"] = dict(root_nb=now - 1000, root_na=now + 10 ** 6)
    pd, reg = regsim.build(s)
    P = impl.RegPolicy(**pd)
    r1 = impl.outcome(lambda: webauthn.verify_registration_response(credential=reg.as_dict(), **P.kwargs()), impl.pr_verified_reg)
    time.sleep(5)
    r2 = impl.outcome(lambda: webauthn.verify_registration_response(credential=reg.as_dict(), **P.kwargs()), impl.pr_verified_reg)
    chk.evals += 2
    if not r1.startswith("OK") or r2.startswith("OK"):
        chk.violation("real-clock run: certificate expiring between two verifications", "real-clock", {"first": r1[:80], "second": r2[:80]})


def replay(path):
    print(open(path).read()[:4000])
    return 0
