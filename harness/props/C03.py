"""C03 - attestation statements bind credential, ceremony data and format rules."""
import json, itertools
from harness import authcat, fw, impl, authsim, regsim, regcat, regrun

TRUSTED = [
    "Coq 8.16.1 kernel; per-format soundness theorems hold for arbitrary oracles (no cryptographic hypothesis)",
    "certificate contents reach the model through the abstract `cert` record filled by harness/oracle.py's own X.509 / KeyDescription reading; DER parsing itself is not verified",
    "extraction + driver; built-in anchors substituted in-process for both sides",
]
RULE = ("per-format catalogue: one fault per declared verification step (about 100 entries over packed-self, packed, fido-u2f, tpm, apple, android-key, android-safetynet), "
        "every other step kept valid (re-signed / re-hashed), crossed with credential and attestation key algorithms and all TPM name algorithms; pairs in thorough. "
        "distinct_nontrivial = distinct (label, form, outcome, policy, kind) tuples")
KNOWN = {}


def run(tier, seed):
    chk = fw.Check("C03", tier, seed)
    chk.strict_catalogue = True      # the format rules are stated by the property itself: an accepted entry is a violation even if the model agrees
    br, ob = fw.standard_prelude(chk, with_coqchk=(tier == "thorough"))
    rng = chk.rng
    B = regrun.RegBench(chk, br)
    quick = tier == "quick"
    for fmt, faults in regcat.FORMAT_FAULTS.items():
        kinds = regcat.applicable_kinds(fmt)
        akinds = regcat.att_kinds(fmt)
        # baselines over attestation key algorithms / TPM name algorithms
        combos = []
        for i, ak in enumerate(akinds):
            combos.append((kinds[i % len(kinds)], ak, {}))
        if fmt == "packed":
            combos.append(("ES256-P256", "ES256-P256", {"leaf_no_bc": True}))      # attestation certificate without basicConstraints
        if fmt == "tpm":
            for na in ("SHA1", "SHA256", "SHA384", "SHA512"):
                combos.append(("RS256", "RS256", {"tpm_name_alg": na}))
                combos.append(("ES256-P384", "ES256-P256", {"tpm_name_alg": na}))
        for kind, ak, kk in (combos if not quick else combos[:: 2] + combos[-3:]):
            s = regsim.RScn(fmt, kind, ak)
            s.k.update(kk)
            pd, reg = regsim.build(s)
            il, ml = B.run_case(regrun.policy_of(pd), reg, "dict", "accept", f"baseline/{fmt}/{ak}/{kk.get('tpm_name_alg','')}", scn=s)
        for i, (name, f) in enumerate(faults.items()):
            reps = 1 if quick else 4
            for rep in range(reps):
                kind = kinds[(i + rep) % len(kinds)]
                if regcat.NEEDS_FAMILY.get(name) and authsim.KINDS[kind][0] != regcat.NEEDS_FAMILY[name]:
                    kind = "ES256-P256"
                s = regsim.RScn(fmt, kind, akinds[(i + rep) % len(akinds)])
                if fmt == "tpm" and rep % 2:
                    s.k["tpm_name_alg"] = ("SHA1", "SHA384", "SHA512")[rep % 3]
                authcat.apply(faults, name, s, scope=f"c03:{fmt}:")
                s.faults = [name]
                pd, reg = regsim.build(s)
                B.run_case(regrun.policy_of(pd), reg, rng.choice(("dict", "record")), "reject", f"{name}/{fmt}", scn=s)
            while authcat.variants_left(name, scope=f"c03:{fmt}:", cap=8):          # every variant of the entry at least once
                kind = "ES256-P256" if regcat.NEEDS_FAMILY.get(name) == "ec" else kinds[0]
                s = regsim.RScn(fmt, kind, akinds[0])
                authcat.apply(faults, name, s, scope=f"c03:{fmt}:")
                pd, reg = regsim.build(s)
                B.run_case(regrun.policy_of(pd), reg, "dict", "reject", f"{name}/{fmt}", scn=s)
            if i == 0:
                chk.sample({"label": f"{name}/{fmt}", "scenario": {k: v for k, v in s.describe().items() if k in ("fmt", "kind", "att_kind", "k")}})
        if fmt == "tpm":
            # every manufacturer id that is NOT in the TCG vendor-id registry is refused (one scenario each, not a random pick)
            for vid in ("id:FFFFFFF0", "id:414d4400", "414D4400", "id:414D440", "id:FFFFF1D0", "id:00000000", "id:FFFFFFFF", "id:414D4401", "id:494E5444", "ID:414D4400", "id:FFFFF1D1", ""):
                s = regsim.RScn(fmt, "RS256", "RS256")
                s.k["tpm_manufacturer"] = vid
                pd, reg = regsim.build(s)
                B.run_case(regrun.policy_of(pd), reg, "dict", "reject", f"aik-unknown-vendor {vid!r}/{fmt}", scn=s)
        if not quick:
            pairs = list(itertools.combinations(list(faults), 2))
            rng.shuffle(pairs)
            for n1, n2 in pairs[:80]:
                kind = rng.choice(kinds)
                if any(regcat.NEEDS_FAMILY.get(n) == "ec" for n in (n1, n2)) and authsim.KINDS[kind][0] != "ec":
                    kind = "ES256-P256"
                s = regsim.RScn(fmt, kind, rng.choice(akinds))
                try:
                    faults[n1](s, rng)
                    faults[n2](s, rng)
                    pd, reg = regsim.build(s)
                except Exception:
                    continue            # the two knobs cannot be combined (e.g. an ECC fault on a key replaced by an RSA one)
                B.run_case(regrun.policy_of(pd), reg, "dict", "reject", f"{n1}+{n2}/{fmt}", scn=s)
    B.close()
    chk.notes.append({"oracle_queries": B.O.counts})
    fw.env_invariance(chk, "auth", "reg")          # the same seeded cases under -O / -OO, warnings-as-errors, other TZ / locale, a private CA bundle
    return fw.finish(chk, ob, br, TRUSTED,
                     ["the abstract certificate record (key, version, subject, SAN directoryName attributes, EKU, basicConstraints, Apple nonce extension bytes, "
                      "Android KeyDescription incl. PRESENCE of allApplications) faithfully reflects the DER - validated only by agreement of model and implementation"],
                     RULE, "coqc -Q . PW Properties/C03.v; thorough: coqchk -o")


def replay(path):
    print(open(path).read()[:4000])
    return 0
