"""C20 - loosening RP policy never rejects; credential input form is irrelevant."""
import zlib, json, copy
from harness import jsonmut, fw, impl, authsim, authcat, authrun, regsim, regcat, regrun, allcat

TRUSTED = [
    "Coq 8.16.1 kernel; C20_mono_* (all inputs, valid or not, no oracle hypothesis) and C20_forms_* are theorems over the model",
    "Python's buffer protocol (bytes subclasses, memoryview equality/hash) is only tested; extraction + driver",
]
RULE = ("responses (valid, single-fault, sampled multi-fault) of both ceremonies crossed with ordered policy pairs (uv required->not, up required->waived, origin string -> one-element list -> "
        "superset list, algorithm list -> superset) and input forms text / dict / record with bytes, bytes-subclass and memoryview fields; the SAME dict object is re-verified across policies. "
        "distinct_nontrivial = distinct (label, policy pair, form) tuples")


class MyBytes(bytes):
    pass


class MyStr(str):
    pass


class MyDict(dict):
    def __missing__(self, k):
        raise KeyError(k)


def retyped(kw):
    """the same expectations in other Python types of the same value: str subclasses, tuples instead of lists, plain ints instead of enum members, other mappings"""
    import types, collections
    def walk(v, f_str, f_list):
        if isinstance(v, str):
            return f_str(v)
        if isinstance(v, (list, tuple)):
            return f_list([walk(x, f_str, f_list) for x in v])
        if isinstance(v, dict):
            return {k: walk(x, f_str, f_list) for k, x in v.items()}
        return v
    out = {}
    out["str subclasses"] = {k: walk(v, MyStr, list) for k, v in kw.items()}
    out["tuples for lists"] = {k: walk(v, str, tuple) for k, v in kw.items()}
    if "supported_pub_key_algs" in kw:
        out["plain integers for algorithm ids"] = dict(kw, supported_pub_key_algs=[int(a) for a in kw["supported_pub_key_algs"]])
        out["algorithm ids as enum members in a tuple, reversed"] = dict(kw, supported_pub_key_algs=tuple(reversed(kw["supported_pub_key_algs"])))
    if "pem_root_certs_bytes_by_fmt" in kw:
        m = kw["pem_root_certs_bytes_by_fmt"]
        out["roots in a read-only mapping"] = dict(kw, pem_root_certs_bytes_by_fmt=types.MappingProxyType({k: list(v) for k, v in m.items()}))
        out["roots in an OrderedDict of tuples"] = dict(kw, pem_root_certs_bytes_by_fmt=collections.OrderedDict((k, tuple(v)) for k, v in m.items()))
        out["roots in a dict subclass"] = dict(kw, pem_root_certs_bytes_by_fmt=MyDict({MyStr(k): list(v) for k, v in m.items()}))
    return out


def looser_auth(pol):
    out = []
    if pol.require_uv:
        out.append(("uv-not-required", impl.AuthPolicy(pol.challenge, pol.rp_id, pol.origin, pol.pubkey, pol.count, False)))
    if isinstance(pol.origin, str):
        out.append(("origin-as-list", impl.AuthPolicy(pol.challenge, pol.rp_id, [pol.origin], pol.pubkey, pol.count, pol.require_uv)))
        out.append(("origin-superset", impl.AuthPolicy(pol.challenge, pol.rp_id, ["https://zzz.example", pol.origin, "https://yyy.example"], pol.pubkey, pol.count, pol.require_uv)))
        for n in (18, 70, 1030):
            out.append((f"origin-superset-of-{n}", impl.AuthPolicy(pol.challenge, pol.rp_id, authcat.long_origin_list(pol.origin, n), pol.pubkey, pol.count, pol.require_uv)))
    else:
        out.append(("origin-superset", impl.AuthPolicy(pol.challenge, pol.rp_id, list(pol.origin) + ["https://zzz.example"], pol.pubkey, pol.count, pol.require_uv)))
        out.append(("origin-superset-of-many", impl.AuthPolicy(pol.challenge, pol.rp_id, [o for x in pol.origin for o in authcat.long_origin_list(x, 40)], pol.pubkey, pol.count, pol.require_uv)))
    return out


def looser_reg(pol):
    def mk(**kw):
        d = dict(challenge=pol.challenge, rp_id=pol.rp_id, origin=pol.origin, require_up=pol.require_up, require_uv=pol.require_uv, algs=pol.algs,
                 roots=pol.roots, builtin={f: v for f, v in pol.substitute.items() if v}, now=pol.now)
        d.update(kw)
        return impl.RegPolicy(**d)
    out = []
    if pol.require_uv:
        out.append(("uv-not-required", mk(require_uv=False)))
    if pol.require_up:
        out.append(("up-waived", mk(require_up=False)))
    if isinstance(pol.origin, str):
        out.append(("origin-as-list", mk(origin=[pol.origin])))
        out.append(("origin-superset", mk(origin=["https://zzz.example", pol.origin])))
        out.append(("origin-superset-of-40", mk(origin=authcat.long_origin_list(pol.origin, 40))))
    else:
        out.append(("origin-superset", mk(origin=list(pol.origin) + ["https://zzz.example"])))
        out.append(("origin-superset-of-many", mk(origin=[o for x in pol.origin for o in authcat.long_origin_list(x, 40)])))
    if pol.algs is not None:
        out.append(("algs-superset", mk(algs=list(pol.algs) + [a for a in (-7, -8, -36, -37, -38, -39, -257, -258, -259, -65535) if a not in pol.algs])))
        # a list is a superset of another whatever its order and however often it names an algorithm (settings merged from several sources)
        out.append(("algs-superset-with-repeats", mk(algs=list(pol.algs) + list(pol.algs) + [-7, -8, -36, -37, -38, -39, -257, -258, -259, -65535])))
        out.append(("algs-superset-reordered", mk(algs=[a for a in (-65535, -259, -258, -257, -39, -38, -37, -36, -8, -7) if a not in pol.algs] + list(reversed(list(pol.algs))))))
    return out


def with_algs(pol, algs):
    return impl.RegPolicy(challenge=pol.challenge, rp_id=pol.rp_id, origin=pol.origin, require_up=pol.require_up, require_uv=pol.require_uv, algs=algs,
                          roots=pol.roots, builtin={f: v for f, v in pol.substitute.items() if v}, now=pol.now)


ALG_CHAIN = [[], [-259], [-259, -8], [-259, -8, -7, -257], [-259, -8, -7, -257, -7, -259], [-7, -8, -36, -37, -38, -39, -257, -258, -259, -65535], [-7, -8, -36, -37, -38, -39, -257, -258, -259, -65535] * 2]


def run(tier, seed):
    chk = fw.Check("C20", tier, seed)
    br, ob = fw.standard_prelude(chk, with_coqchk=(tier == "thorough"))
    rng = chk.rng
    quick = tier == "quick"
    A = authrun.AuthBench(chk, br)
    B = regrun.RegBench(chk, br, oracle_obj=A.O)
    import webauthn
    from webauthn.helpers.structs import AuthenticationCredential, AuthenticatorAssertionResponse, RegistrationCredential, AuthenticatorAttestationResponse

    def va(pol, val, wrap=None):
        kw = pol.kwargs()
        if wrap:
            kw["expected_challenge"] = wrap(kw["expected_challenge"])
            kw["credential_public_key"] = wrap(kw["credential_public_key"])
        return impl.outcome(lambda: webauthn.verify_authentication_response(credential=val, **kw), impl.pr_verified_auth)

    def vr(pol, val, wrap=None):
        kw = pol.kwargs()
        if wrap:
            kw["expected_challenge"] = wrap(kw["expected_challenge"])
        with impl.substituted(pol.substitute, pol.now):
            return impl.outcome(lambda: webauthn.verify_registration_response(credential=val, **kw), impl.pr_verified_reg)

    # ---------- authentication ----------
    for n_case, (label, pol, a, form, exp) in enumerate(allcat.auth_cases(rng, quick, kinds=["ES256-P256", "RS256", "EdDSA"] if quick else None)):
        d = a.as_dict()                       # ONE dict object, re-verified under every policy
        d0 = copy.deepcopy(d)
        base = va(pol, d)
        chk.evals += 1
        outs = {"dict": base, "text": va(pol, json.dumps(d0))}
        if a.typ == "public-key":
            rec = lambda w: AuthenticationCredential(id=a.id_text, raw_id=w(a.cred_id), response=AuthenticatorAssertionResponse(
                client_data_json=w(a.cdj), authenticator_data=w(a.ad), signature=w(a.sig), user_handle=a.user_handle))
            outs["record-bytes"] = va(pol, rec(bytes))
            outs["record-subclass"] = va(pol, rec(MyBytes), MyBytes)
            outs["record-memoryview"] = va(pol, rec(memoryview), memoryview)
            wmv = lambda b: memoryview(bytearray(b))            # a writable view, as buffer pools / DB drivers hand out
            outs["record-memoryview-writable"] = va(pol, rec(wmv), wmv)
            win = lambda b: memoryview(b"\x00\x01" + bytes(b) + b"\xff")[2:-1]      # a window into a larger buffer
            outs["record-memoryview-window"] = va(pol, rec(win), win)
            # views that are not contiguous: the reversed buffer read backwards, every second byte of a buffer twice as long - their CONTENT is the field
            rev = lambda b: memoryview(bytes(b)[::-1])[::-1]
            outs["record-memoryview-reversed-stride"] = va(pol, rec(rev), rev)
            strided = lambda b: memoryview(bytes(y for x in bytes(b) for y in (x, 0x5A)))[::2]
            outs["record-memoryview-strided"] = va(pol, rec(strided), strided)
            # pooled buffers: bytearrays that the caller refills as soon as the call has returned - the result must not be reading from them (re-read at the end of the check)
            pool_ = []
            def pooled(b):
                # (raw_id stays bytes: the library hands `credential.raw_id` back as `credential_id` without copying - an echo of the caller's own object, noted in
                #  this check's assumptions; every other field of the result is the library's own)
                if b is a.cred_id:
                    return b
                pool_.append(bytearray(b))
                return pool_[-1]
            outs["record-bytearray"] = va(pol, rec(pooled), pooled)
            for ba in pool_:
                ba[:] = b"\xee" * len(ba)
            # the expected challenge as a non-contiguous view (every second byte of a larger buffer); the other binary inputs stay bytes
            kw_s = pol.kwargs()
            kw_s["expected_challenge"] = memoryview(bytes(b for x in kw_s["expected_challenge"] for b in (x, 0xAA)))[::2]
            outs["challenge-strided-memoryview"] = impl.outcome(lambda: webauthn.verify_authentication_response(credential=rec(bytes), **kw_s), impl.pr_verified_auth)
        for nm, tx in jsonmut.text_spellings(d0)[:: (3 if quick else 1)]:
            outs["text: " + nm] = va(pol, tx)
        if label.startswith("baseline") or n_case % 5 == 0:
            # values json.dumps / json.loads exchange beyond RFC 8259 (Infinity, -Infinity) and long numbers, in a member that is ignored: text and dict are the same credential
            d_num = dict(d0, clientExtensionResults={"n": float("inf"), "m": [-float("inf"), 1e308, 10 ** 400, -0.0], "k": {"deep": [1.5e-300]}})
            outs["dict with non-finite numbers in an ignored member"] = va(pol, copy.deepcopy(d_num))
            outs["text with non-finite numbers in an ignored member"] = va(pol, json.dumps(d_num))
        if label.startswith("baseline"):
            # the text form has no size limit: padding and a large ignored member change nothing
            for n in fw.size_ladder():
                outs[f"text-padded-to-{n}"] = va(pol, json.dumps(d0) + " " * n)
                outs[f"text-with-ignored-member-of-{n}"] = va(pol, json.dumps(dict(d0, clientExtensionResults={"ignored": "x" * n})))
        chk.evals += len(outs)
        ref = outs["dict"]
        for k, v in outs.items():
            same = (v == ref) or (v.startswith("ERR") and ref.startswith("ERR") and a.typ == "public-key")
            if k.startswith("record-memoryview") and ref.startswith("OK") and v.startswith("OK"):
                same = v.split()[2:] == ref.split()[2:]      # credential_id echoes the object it was given
            if not same:
                chk.violation(f"input form {k} gives another outcome than the dict form ({label})", f"forms {k} {label.split('+')[0]}",
                              {"entry": "verify_authentication_response", "label": label, "outcomes": {x: y[:100] for x, y in outs.items()}, "policy": pol.describe(), "credential": d0})
        eqs = impl.equivalent_auth_calls(pol, a)
        for j, (nm, thunk) in enumerate(eqs):
            if not (base.startswith("OK") or j % len(eqs) in (n_case % len(eqs), (n_case + 5) % len(eqs))):
                continue
            o2 = thunk()
            chk.evals += 1
            if o2 != base and not (o2.startswith("ERR") and base.startswith("ERR") and a.typ != "public-key"):
                chk.violation(f"the same call with {nm} gives another outcome ({label}): {o2[:50]} instead of {base[:50]}", f"argument-shape auth {nm} {label.split('+')[0]}",
                              {"entry": "verify_authentication_response", "label": label, "argument_shape": nm, "outcome": o2[:200], "reference": base[:200], "policy": pol.describe(), "credential": d0})
        if n_case % 3 == 0 or label.startswith("baseline"):
            for tname, kw2 in retyped(pol.kwargs()).items():
                o2 = impl.outcome(lambda: webauthn.verify_authentication_response(credential=copy.deepcopy(d0), **kw2), impl.pr_verified_auth)
                chk.evals += 1
                if o2 != base:
                    chk.violation(f"the same expectations given as {tname} give another outcome ({label}): {o2[:50]} instead of {base[:50]}", f"argument-types-auth {tname} {label.split('+')[0]}",
                                  {"entry": "verify_authentication_response", "label": label, "argument_types": tname, "outcome": o2[:200], "reference": base[:200], "policy": pol.describe(), "credential": d0})
        for lname, pol2 in looser_auth(pol):
            o2 = va(pol2, d)
            chk.evals += 1
            if base.startswith("OK") and o2 != base:
                chk.violation(f"accepted under the stricter policy but not (equally) under the looser one: {lname} ({label})", f"mono-auth {lname} {label.split('+')[0]}",
                              {"entry": "verify_authentication_response", "label": label, "strict": pol.describe(), "looser": pol2.describe(), "strict_outcome": base, "looser_outcome": o2, "credential": d0})
            if A.R:
                m1 = A.R.call("verifyauth " + pol.wire() + " D " + impl.json_to_wire(d0))
                m2 = A.R.call("verifyauth " + pol2.wire() + " D " + impl.json_to_wire(d0))
                if not fw.exn_refines(m2, o2):
                    chk.diverge("Model.verify_auth", f"{label}/{lname}: model {m2[:80]} impl {o2[:80]}", {"label": label, "policy": pol2.describe(), "credential": d0})
            chk.seen((label, lname))
        if d != d0:
            chk.violation("verification modified the caller's credential dict", f"dict-mutated {label.split('+')[0]}", {"before": d0, "after": repr(d)[:500]})
        chk.count("auth:" + ("accepted" if base.startswith("OK") else "rejected"))
    chk.sample({"pair": "require_user_verification True -> False", "rule": "accepted under strict => equal result under looser"})
    # ---------- registration ----------
    for label, pol, reg, form, exp, s in allcat.reg_cases(rng, quick):
        if quick and exp == "reject" and not label.startswith(("policy-lattice", "baseline")) and (zlib.crc32(label.encode()) % 2):
            continue            # (a fixed half of the single-fault entries in the quick tier - chosen by label, not by the random stream)
        d = reg.as_dict()
        d0 = copy.deepcopy(d)
        base = vr(pol, d)
        outs = {"dict": base, "text": vr(pol, json.dumps(d0))}
        if reg.typ == "public-key":
            rec = lambda w: RegistrationCredential(id=reg.id_text, raw_id=w(reg.cred_id), response=AuthenticatorAttestationResponse(client_data_json=w(reg.cdj), attestation_object=w(reg.att_obj)))
            outs["record-bytes"] = vr(pol, rec(bytes))
            outs["record-subclass"] = vr(pol, rec(MyBytes), MyBytes)
            outs["record-memoryview"] = vr(pol, rec(memoryview), memoryview)
            wmv = lambda b: memoryview(bytearray(b))
            outs["record-memoryview-writable"] = vr(pol, rec(wmv), wmv)
            win = lambda b: memoryview(b"\x00\x01" + bytes(b) + b"\xff")[2:-1]
            outs["record-memoryview-window"] = vr(pol, rec(win), win)
            rev = lambda b: memoryview(bytes(b)[::-1])[::-1]
            outs["record-memoryview-reversed-stride"] = vr(pol, rec(rev), rev)
            strided = lambda b: memoryview(bytes(y for x in bytes(b) for y in (x, 0x5A)))[::2]
            outs["record-memoryview-strided"] = vr(pol, rec(strided), strided)
            pool_ = []
            def pooled(b):
                if b is reg.cred_id:
                    return b
                pool_.append(bytearray(b))
                return pool_[-1]
            outs["record-bytearray"] = vr(pol, rec(pooled), pooled)
            for ba in pool_:
                ba[:] = b"\xee" * len(ba)
            kw_s = pol.kwargs()
            kw_s["expected_challenge"] = memoryview(bytes(b for x in kw_s["expected_challenge"] for b in (x, 0xAA)))[::2]
            with impl.substituted(pol.substitute, pol.now):
                outs["challenge-strided-memoryview"] = impl.outcome(lambda: webauthn.verify_registration_response(credential=rec(bytes), **kw_s), impl.pr_verified_reg)
        for nm, tx in jsonmut.text_spellings(d0)[:: (3 if quick else 1)]:
            outs["text: " + nm] = vr(pol, tx)
        if label.startswith("baseline") or zlib.crc32(label.encode()) % 5 == 0:
            d_num = dict(d0, clientExtensionResults={"n": float("inf"), "m": [-float("inf"), 1e308, 10 ** 400, -0.0]})
            outs["dict with non-finite numbers in an ignored member"] = vr(pol, copy.deepcopy(d_num))
            outs["text with non-finite numbers in an ignored member"] = vr(pol, json.dumps(d_num))
        if label.startswith("baseline/none") or label.startswith("baseline/packed"):
            for n in fw.size_ladder():
                outs[f"text-padded-to-{n}"] = vr(pol, json.dumps(d0) + " " * n)
                outs[f"text-with-ignored-member-of-{n}"] = vr(pol, json.dumps(dict(d0, clientExtensionResults={"ignored": "x" * n})))
        chk.evals += len(outs)
        for k, v in outs.items():
            same = (v == base) or (v.startswith("ERR") and base.startswith("ERR"))
            if not same:
                chk.violation(f"input form {k} gives another outcome than the dict form ({label})", f"forms-reg {k} {label.split('+')[0].split('/')[0]}",
                              {"entry": "verify_registration_response", "label": label, "outcomes": {x: y[:100] for x, y in outs.items()}, "policy": pol.describe(), "credential": d0})
        eqs = impl.equivalent_reg_calls(pol, reg)
        hsh = zlib.crc32(label.encode())
        for j, (nm, thunk) in enumerate(eqs):
            if not (base.startswith("OK") or j in (hsh % len(eqs), (hsh + 5) % len(eqs))):
                continue
            o2 = thunk()
            chk.evals += 1
            if o2 != base and not (o2.startswith("ERR") and base.startswith("ERR") and reg.typ != "public-key"):
                chk.violation(f"the same call with {nm} gives another outcome ({label}): {o2[:50]} instead of {base[:50]}", f"argument-shape reg {nm} {label.split('+')[0].split('/')[0]}",
                              {"entry": "verify_registration_response", "label": label, "argument_shape": nm, "outcome": o2[:200], "reference": base[:200], "policy": pol.describe(), "credential": d0})
        if zlib.crc32(label.encode()) % 3 == 0 or label.startswith("baseline"):
            for tname, kw2 in retyped(pol.kwargs()).items():
                with impl.substituted(pol.substitute, pol.now):
                    o2 = impl.outcome(lambda: webauthn.verify_registration_response(credential=copy.deepcopy(d0), **kw2), impl.pr_verified_reg)
                chk.evals += 1
                if o2 != base:
                    chk.violation(f"the same expectations given as {tname} give another outcome ({label}): {o2[:50]} instead of {base[:50]}", f"argument-types-reg {tname} {label.split('+')[0].split('/')[0]}",
                                  {"entry": "verify_registration_response", "label": label, "argument_types": tname, "outcome": o2[:200], "reference": base[:200], "policy": pol.describe(), "credential": d0})
        for lname, pol2 in looser_reg(pol):
            o2 = vr(pol2, d)
            chk.evals += 1
            if base.startswith("OK") and o2 != base:
                chk.violation(f"accepted under the stricter policy but not (equally) under the looser one: {lname} ({label})", f"mono-reg {lname} {label.split('+')[0].split('/')[0]}",
                              {"entry": "verify_registration_response", "label": label, "strict": pol.describe(), "looser": pol2.describe(), "strict_outcome": base[:200], "looser_outcome": o2[:200], "credential": d0})
            if B.R and rng.random() < (0.3 if quick else 1.0):
                m2 = B.R.call("verifyreg " + pol2.wire() + " D " + impl.json_to_wire(d0))
                if not fw.exn_refines(m2, o2):
                    chk.diverge("Model.verify_reg", f"{label}/{lname}: model {m2[:80]} impl {o2[:80]}", {"label": label, "policy": pol2.describe(), "credential": d0})
            chk.seen((label, lname))
        # an ascending chain of allowed-algorithm lists, starting from the empty list (which allows nothing)
        if label.startswith(("baseline", "policy-lattice")) or rng.random() < 0.15:
            seen_ok = None
            for algs in ALG_CHAIN:
                o = vr(with_algs(pol, algs), d)
                chk.evals += 1
                if seen_ok is not None and o != seen_ok[1]:
                    chk.violation(f"accepted with allowed algorithms {seen_ok[0]} but not (equally) with the superset {algs} ({label})", f"mono-reg algs-chain {label.split('+')[0].split('/')[0]}",
                                  {"entry": "verify_registration_response", "label": label, "strict_algs": seen_ok[0], "looser_algs": algs, "strict_outcome": seen_ok[1][:200], "looser_outcome": o[:200], "credential": d0})
                    break
                if o.startswith("OK") and seen_ok is None:
                    seen_ok = (algs, o)
        if d != d0:
            chk.violation("verification modified the caller's credential dict", f"dict-mutated-reg {label.split('/')[0]}", {"before": d0, "after": repr(d)[:500]})
        chk.count("reg:" + ("accepted" if base.startswith("OK") else "rejected"))
    A.close(); B.close()
    fw.env_invariance(chk, "auth", "reg")          # the same seeded cases under -O / -OO, warnings-as-errors, other TZ / locale, a private CA bundle
    return fw.finish(chk, ob, br, TRUSTED,
                     ["forms are compared on the outcome line (result fields / exception class bucket); for memoryview inputs the echoed credential_id is the object that was passed",
                      "rejections may differ in exception class between forms only where both are rejections (e.g. record form of a credential whose type member is wrong)"],
                     RULE, "coqc -Q . PW Properties/C20.v; thorough: coqchk -o")


def replay(path):
    print(open(path).read()[:3000])
    return 0
