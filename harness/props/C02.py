"""C02 - registration soundness (RP expectations enforced for every format)."""
import json, itertools
from harness import authcat, fw, impl, authsim, regsim, regcat, regrun

TRUSTED = [
    "Coq 8.16.1 kernel; C02 theorems hold for arbitrary oracles (no cryptographic hypothesis)",
    "harness/gen_constants.py; extraction + ocaml/driver.ml; reference oracles harness/oracle.py (hashlib, cryptography, pyOpenSSL store verification, own X.509 / KeyDescription field extraction)",
    "built-in trust anchors and clocks are substituted in-process for model and implementation alike (harness/impl.py substituted())",
    "modelled not verified: cbor2 (subset), CPython json/base64, X.509 parsing, OpenSSL path validation (oracle)",
]
RULE = ("for each of the 8 statement kinds (seven formats + packed self-attestation): accepted baselines over credential algorithms and policies, every single "
        "ceremony-level fault (17 + non-empty 'none' statement) with the attestation statement regenerated so that it stays valid, fault pairs, text/dict/record forms. "
        "distinct_nontrivial = distinct (label, form, outcome, policy, kind) tuples")


def run(tier, seed):
    chk = fw.Check("C02", tier, seed)
    br, ob = fw.standard_prelude(chk, with_coqchk=(tier == "thorough"))
    rng = chk.rng
    B = regrun.RegBench(chk, br)
    quick = tier == "quick"
    kinds = list(authsim.KINDS)
    for fi, fmt in enumerate(regsim.FORMATS):
        fkinds = regcat.applicable_kinds(fmt)
        # baselines
        for j, kind in enumerate(fkinds if not quick else fkinds[:: 4] + ["RS256"] if fmt != "fido-u2f" else fkinds):
            s = regsim.RScn(fmt, kind)
            s.require_uv = bool(j % 2)
            s.flags = 0x45 | (0x18 if j % 3 == 0 else 0) | (0x80 if j % 4 == 1 else 0)
            if j % 5 == 2:
                s.exp_origin = ["https://other.example", s.origin]
            if j % 3 == 1:
                s.require_up = False
                s.flags &= ~0x01
            pd, reg = regsim.build(s)
            il, ml = B.run_case(regrun.policy_of(pd), reg, ("dict", "record", "text")[j % 3], "accept", f"baseline/{fmt}", scn=s)
        chk.sample({"label": f"baseline/{fmt}", "impl": il[:80]})
        # single ceremony faults
        names = list(regcat.CEREMONY)
        for i, name in enumerate(names):
            reps = 1 if quick else 3
            for rep in range(reps):
                kind = fkinds[(i + rep * 3 + fi) % len(fkinds)]
                for ruv in ((False, True) if name in ("up-clear-required", "no-attested-data", "bs-without-be", "rp-id-other") else ((i + rep) % 2 == 1,)):
                    s = regsim.RScn(fmt, kind)
                    s.require_uv = ruv            # every flag-related fault under both user-verification policies
                    authcat.apply(regcat.CEREMONY, name, s, scope="reg:")
                    s.faults = [name]
                    pd, reg = regsim.build(s)
                    form = "record" if name in regcat.RECORD_ONLY else rng.choice(regrun.FORMS)
                    B.run_case(regrun.policy_of(pd), reg, form, "reject", f"{name}/{fmt}", scn=s)
        if fmt == "none":
            for name in names:           # every variant of every entry at least once
                while authcat.variants_left(name, scope="reg:"):
                    s = regsim.RScn("none", "ES256-P256")
                    authcat.apply(regcat.CEREMONY, name, s, scope="reg:")
                    pd, reg = regsim.build(s)
                    B.run_case(regrun.policy_of(pd), reg, "record" if name in regcat.RECORD_ONLY else "dict", "reject", f"{name}/{fmt}", scn=s)
            for _ in range(24 if quick else 90):
                s = regsim.RScn("none", rng.choice(kinds))
                regcat.none_with_statement(s, rng)
                pd, reg = regsim.build(s)
                B.run_case(regrun.policy_of(pd), reg, "dict", "reject", "none-with-statement/none", scn=s)
        # pairs
        pairs = list(itertools.combinations(names, 2))
        rng.shuffle(pairs)
        for (n1, n2) in pairs[: (6 if quick else 60)]:
            s = regsim.RScn(fmt, rng.choice(fkinds))
            regcat.CEREMONY[n1](s, rng)
            regcat.CEREMONY[n2](s, rng)
            pd, reg = regsim.build(s)
            form = "record" if (n1 in regcat.RECORD_ONLY or n2 in regcat.RECORD_ONLY) else rng.choice(regrun.FORMS)
            B.run_case(regrun.policy_of(pd), reg, form, "reject", f"{n1}+{n2}/{fmt}", scn=s)
    # structural mutation stream on the attestation object (model vs implementation only): members of the CBOR map and of the
    # statement replaced by values of other types / deleted / duplicated
    import cbor2, copy
    from harness import cborgen
    VALS = [None, True, False, 0, 1, -7, b"", b"x", "", "packed", "none", "2.0", [], [b""], {}, {"a": 1}, 2 ** 40, [b"x", 5], b"\x00" * 40]
    for i in range(250 if quick else 4000):
        fmt = rng.choice(regsim.FORMATS)
        s = regsim.RScn(fmt, "ES256-P256")
        pd, reg = regsim.build(s)
        ao = cbor2.loads(reg.att_obj)
        for _ in range(rng.choice([1, 1, 2])):
            where = rng.random()
            if where < 0.25:
                k = rng.choice(["fmt", "authData", "attStmt", "extra"])
                if rng.random() < 0.3:
                    ao.pop(k, None)
                else:
                    ao[k] = copy.deepcopy(rng.choice(VALS))
            elif isinstance(ao.get("attStmt"), dict):
                st = ao["attStmt"]
                k = rng.choice(list(st) + ["sig", "alg", "x5c", "ver", "response", "certInfo", "pubArea", "unknown"])
                if rng.random() < 0.3:
                    st.pop(k, None)
                else:
                    st[k] = copy.deepcopy(rng.choice(VALS))
        try:
            reg.att_obj = cbor2.dumps(ao)
        except Exception:
            continue
        B.run_case(regrun.policy_of(pd), reg, "record", None, f"attobj-mutation/{fmt}", scn=None)
    # a history: a response whose credential key uses CBOR value sharing (tag 28 marks a value, tag 29 refers to it) and then one whose key is nothing but a dangling
    # reference (d8 1d 00): whatever a decoder remembers from the first call, the second one has no attested key and is refused - in every order, on this thread
    import hashlib as _h2
    from harness import authsim as _as
    cdj_n = _as.client_data("webauthn.create", b"\x01\x02challenge", "https://example.com")
    kx = _as.Cred("ES256-P256").cose
    def none_reg(tail):
        ad = _h2.sha256(b"example.com").digest() + b"\x41" + b"\x00\x00\x00\x05" + bytes(16) + b"\x00\x04" + b"cid1" + tail
        return regsim.Registration(_as.Cred("ES256-P256"), b"cid1", cdj_n, cbor2.dumps({"fmt": "none", "attStmt": {}, "authData": ad}))
    pol_n = impl.RegPolicy(b"\x01\x02challenge", "example.com", "https://example.com")
    sharing = none_reg(b"\xa5\x01\x02\x03\x26\x20\x01\x21\xd8\x1c\x58\x20" + kx[-2] + b"\x22\xd8\x1c\x58\x20" + kx[-3])
    sharing_bad = none_reg(b"\xa5\x01\x02\x03\x26\x20\x01\x21\xd8\x1c\x58\x20" + kx[-2] + b"\x22\xd8\x1c\x58\x20" + kx[-3] + b"\x00")
    dangling = [none_reg(b"\xd8\x1d\x00"), none_reg(b"\xd8\x1d\x01"), none_reg(b"\xa5\x01\x02\x03\x26\x20\x01\x21\xd8\x1d\x00\x22\xd8\x1d\x01")]
    refs = [impl.verify_reg(pol_n, d_.as_dict()) for d_ in dangling]
    for first_ in (sharing, sharing_bad, sharing):
        impl.verify_reg(pol_n, first_.as_dict())
        for d_, ref_ in zip(dangling, refs):
            o_ = impl.verify_reg(pol_n, d_.as_dict())
            chk.evals += 1
            if o_.startswith("OK") or o_ != ref_:
                chk.violation("a response whose credential key is only a dangling CBOR shared-value reference is " + ("accepted" if o_.startswith("OK") else "judged differently") + " after a response that used value sharing", "history cbor-shared-reference",
                              {"entry": "verify_registration_response", "history": [first_.as_dict(), d_.as_dict()], "alone": ref_[:200], "after_the_first": o_[:200]})
    # expectations in a form the signature does not promise (several RP IDs as a list / tuple, the RP ID as bytes, several challenges): IF such a call is accepted
    # at all, the response still carries SHA-256 of ONE listed RP ID and ONE listed challenge - never of a combination of them
    import hashlib as _hl
    for fmt in ("none", "packed-self"):
        for ids, signed, what in ((["example.com", "example.org"], "example.comexample.org", "concatenation of the listed ids"), (["example.com", "example.org"], "example.org" + "example.com", "reverse concatenation"),
                                  (["example.com", "example.org"], "example.com,example.org", "comma-joined ids"), (["example.com", "example.org"], "['example.com', 'example.org']", "repr of the list"),
                                  (("example.com", "example.org"), "example.comexample.org", "concatenation (tuple)"), (["example.com", "example.org"], "evil.example", "an unlisted id"),
                                  (["example.com", "example.org"], "example.org", None), (["example.com"], "example.com", None), (["example.com", "example.org", "example.net"], "example.comexample.orgexample.net", "concatenation of three")):
            s = regsim.RScn(fmt, "ES256-P256")
            s.rp_id, s.sign_rp_id = ids[0], signed
            pd, reg = regsim.build(s)
            pol = regrun.policy_of(pd)
            pol.rp_id = ids
            il = impl.verify_reg(pol, reg.as_dict())
            chk.evals += 1
            if il.startswith("OK") and what is not None:
                chk.violation(f"expected_rp_id given as {type(ids).__name__} {list(ids)}: a response whose RP ID hash is SHA-256 of {what} is accepted", f"rp-id-collection {fmt} {what}",
                              {"entry": "verify_registration_response", "expected_rp_id": list(ids), "hashed_string": signed, "credential": reg.as_dict(), "impl": il[:200]})
            chk.seen(("rp-id-collection", fmt, signed))
    B.close()
    chk.notes.append({"oracle_queries": B.O.counts})
    fw.env_invariance(chk, "auth", "reg")          # the same seeded cases under -O / -OO, warnings-as-errors, other TZ / locale, a private CA bundle
    return fw.finish(chk, ob, br, TRUSTED,
                     ["theorems quantify over all oracle behaviours; explored oracle answers are computed by independent reference code",
                      "'empty statement for none' is read as: none of the seven statement members the library knows is set (unknown members are not inspected; see DESIGN F6)"],
                     RULE, "coqc -Q . PW Properties/C02.v; thorough: coqchk -o")


def replay(path):
    print(open(path).read()[:4000])
    return 0
