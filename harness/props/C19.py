"""C19 - rejections stay inside the library's exception hierarchy."""
import collections, json, inspect, cbor2
from harness import fw, impl, authsim, authrun, regrun, allcat, jsonmut, cborgen, oracle

TRUSTED = [
    "Coq 8.16.1 kernel; C19_hierarchy is a finite obligation (vm_compute) over the reflectively exported class list with MROs; C19_semantic_* are inversion theorems over the model: every guard of the verifiers raises a library class",
    "harness/gen_constants.py (exception classes and their MROs); extraction + driver",
]
RULE = ("every fault and sampled fault pair of the C01-C04 catalogues across formats and algorithms (exception class of every rejection evaluated directly), malformed signatures, "
        "arbitrary JSON values into the credential parsers, arbitrary byte strings / values into the CBOR helpers and the authenticator-data parser, reflection over the exceptions module. "
        "distinct_nontrivial = distinct (label, form, outcome) tuples")


def authcat_scn():
    from harness import authcat
    return authcat.Scn("ES256-P256")


def run(tier, seed):
    chk = fw.Check("C19", tier, seed)
    br, ob = fw.standard_prelude(chk, with_coqchk=(tier == "thorough"))
    rng = chk.rng
    quick = tier == "quick"
    # 0. reflection
    from webauthn.helpers import exceptions as X
    classes = [o for n, o in vars(X).items() if inspect.isclass(o) and o.__module__ == X.__name__]
    for c in classes:
        chk.evals += 1
        if not issubclass(c, X.WebAuthnException):
            chk.violation(f"exception class {c.__name__} does not derive from WebAuthnException", f"hierarchy {c.__name__}", {"class": c.__name__, "mro": [k.__name__ for k in c.__mro__]})
        chk.seen(("class", c.__name__))
    chk.sample({"exception_classes": [c.__name__ for c in classes]})
    A = authrun.AuthBench(chk, br)
    B = regrun.RegBench(chk, br, oracle_obj=A.O)

    from harness import regcat
    observed = collections.Counter()

    def judge(il, label, rp):
        if not il.startswith("OK") and not il.startswith("ERR Lib:") and any(part.split("/")[0] in regcat.MALFORMED_STRUCTURE for part in label.split("+")):
            observed[label.split("/")[0] + " -> " + il] += 1          # malformed inner structure: outside the property's "well-formed response"
            return
        if not il.startswith("OK") and not il.startswith("ERR Lib:"):
            chk.violation(f"semantic rejection outside the hierarchy: {il} ({label})", f"nonlib {label.split('+')[0]} {il}", rp)
        if il.startswith("OK") and "unprintable" in il:
            chk.violation("verification returned an incomplete value", f"incomplete-result {label}", rp)

    def spelled(n, d, verify, pol, label, entry):
        """the same credential as JSON text in another spelling (repeated member names, escapes, white space): the text IS that credential"""
        sp = jsonmut.text_spellings(d)
        if not sp:
            return
        ref = verify(pol, d)
        for nm, tx in (sp[n % len(sp)], sp[(n // len(sp) + 1) % len(sp)]):
            got = verify(pol, tx)
            chk.evals += 1
            rp = {"entry": entry, "label": label, "spelling": nm, "text": tx[:1500], "policy": pol.describe(), "impl": got[:200], "dict_form": ref[:200]}
            judge(got, label, rp)
            if got != ref and not (got.startswith("ERR") and ref.startswith("ERR")):
                chk.violation(f"credential text ({nm}) is judged differently from the value it denotes ({label})", f"text-spelling {nm} {label.split('+')[0].split('/')[0]}", rp)

    for n, (label, pol, a, form, exp) in enumerate(allcat.auth_cases(rng, quick)):
        il, ml = A.run_case(pol, a, form, None, label)
        judge(il, label, {"entry": "verify_authentication_response", "label": label, "form": form, "policy": pol.describe(), "credential": a.as_dict(), "impl": il})
        spelled(n, a.as_dict(), impl.verify_auth, pol, label, "verify_authentication_response")
    for n, (label, pol, reg, form, exp, s) in enumerate(allcat.reg_cases(rng, quick)):
        il, ml = B.run_case(pol, reg, form, None, label, scn=s)
        judge(il, label, {"entry": "verify_registration_response", "label": label, "form": form, "policy": pol.describe(), "credential": reg.as_dict(), "scenario": s.describe(), "impl": il[:200]})
        spelled(n, reg.as_dict(), impl.verify_reg, pol, label, "verify_registration_response")
    # parsers named by the property
    from webauthn.helpers import parse_cbor, encode_cbor
    from webauthn.helpers.exceptions import WebAuthnException
    for i in range(300 if quick else 20000):
        b = rng.randbytes(rng.choice([0, 1, 2, 5, 9, 40, 100]))
        for nm, f in (("parse_cbor", lambda: parse_cbor(b)), ("parse_authenticator_data", lambda: __import__("webauthn").helpers.parse_authenticator_data(b))):
            il = impl.outcome(f, lambda r: "v")
            chk.evals += 1
            if not il.startswith("OK") and not il.startswith("ERR Lib:"):
                chk.violation(f"{nm} raised outside the hierarchy: {il}", f"nonlib-parser {nm} {il}", {"entry": nm, "input_hex": b.hex(), "impl": il})
        chk.seen(("bytes", b))
    for item in cborgen.hostile_cbor():
        for nm, b in (("parse_cbor", item), ("parse_authenticator_data", rng.randbytes(32) + b"\x81\x00\x00\x00\x01" + item),
                      ("parse_authenticator_data", rng.randbytes(32) + b"\x41\x00\x00\x00\x01" + bytes(16) + b"\x00\x01x" + item)):
            f = (lambda: parse_cbor(b)) if nm == "parse_cbor" else (lambda: __import__("webauthn").helpers.parse_authenticator_data(b))
            il = impl.outcome(f, lambda r: "v")
            chk.evals += 1
            if not il.startswith("OK") and not il.startswith("ERR Lib:"):
                chk.violation(f"{nm} raised outside the hierarchy on hostile CBOR: {il}", f"nonlib-parser {nm} hostile {il}", {"entry": nm, "input_hex": b.hex()[:400], "impl": il})
        # also as the authenticator data of a complete assertion
        s0 = authcat_scn()
        pol0, a0 = s0.build()
        a0.ad = a0.ad[:32] + b"\x81" + a0.ad[33:37] + item
        il, ml = A.run_case(pol0, a0, "record", None, "hostile-cbor-extension")
        judge(il, "hostile-cbor-extension", {"entry": "verify_authentication_response", "authenticator_data_hex": a0.ad.hex()[:400], "impl": il})
    class Unencodable:
        pass
    for v in [Unencodable(), {"a": Unencodable()}, [1, object()], cborgen.gen_value(rng), lambda: 0, {1: {2: Unencodable}}, 2 ** 70, -2 ** 70, 1.5, float("nan"), (1, 2)]:
        il = impl.outcome(lambda: encode_cbor(v), lambda r: "v")
        chk.evals += 1
        if not il.startswith("OK") and not il.startswith("ERR Lib:"):
            chk.violation(f"encode_cbor raised outside the hierarchy: {il}", f"nonlib-parser encode_cbor {il}", {"entry": "encode_cbor", "value": repr(v)[:80], "impl": il})
    base_a = {"id": "AQ", "rawId": "AQ", "type": "public-key", "response": {"clientDataJSON": "e30", "authenticatorData": "AAAA", "signature": "c2ln", "userHandle": "dWg"}}
    base_r = {"id": "AQ", "rawId": "AQ", "type": "public-key", "response": {"clientDataJSON": "e30", "attestationObject": "o2NmbXQ", "transports": ["usb"]}}
    # systematic: every member replaced by every value of the list (incl. nested arrays / objects inside transports), both parsers
    import copy
    extra_vals = [["usb", {"transport": "nfc"}], [[], {}], [["usb"]], ["usb", None, 5, True, 1.5, ["x"], {"y": []}], {"usb": 1}]
    for kind, base in (("auth", base_a), ("reg", base_r)):
        for pth in [q for q in jsonmut.paths(base) if q]:
            for v in jsonmut.VALUES + extra_vals + ["__absent__"]:
                d = copy.deepcopy(base)
                par = jsonmut.get_parent(d, pth)
                if v == "__absent__":
                    del par[pth[-1]]
                else:
                    par[pth[-1]] = copy.deepcopy(v)
                for val in (d, json.dumps(d)):
                    il = (impl.parse_auth_cred if kind == "auth" else impl.parse_reg_cred)(val)
                    chk.evals += 1
                    if not il.startswith("OK") and not il.startswith("ERR Lib:"):
                        chk.violation(f"credential JSON parser raised outside the hierarchy: {il}", f"nonlib-parser {kind}-json {il}", {"entry": f"parse_{kind}_credential_json", "input": val, "impl": il})
    # credential TEXT that json.loads itself refuses with something other than JSONDecodeError (an integer longer than the interpreter converts by
    # default, lone surrogates are fine, ...) - also when it reaches the parsers through the verification entry points
    s0 = authcat_scn()
    pol0, a0 = s0.build()
    for num in ("1" + "0" * 5000, "-" + "9" * 4301, "[" + "7" * 6000 + "]", "1E400", "NaN"):
        for kind, base in (("auth", base_a), ("reg", base_r)):
            t = json.dumps(base)[:-1] + ', "zz": ' + num + "}"
            il = (impl.parse_auth_cred if kind == "auth" else impl.parse_reg_cred)(t)
            chk.evals += 1
            if not il.startswith("OK") and not il.startswith("ERR Lib:"):
                chk.violation(f"credential JSON parser raised outside the hierarchy: {il}", f"nonlib-parser {kind}-json-number {il}", {"entry": f"parse_{kind}_credential_json", "text": t[:200], "text_length": len(t), "impl": il})
        t = json.dumps(a0.as_dict())[:-1] + ', "zz": ' + num + "}"
        il = impl.verify_auth(pol0, t)
        chk.evals += 1
        judge(il, "credential-text-with-number " + num[:8], {"entry": "verify_authentication_response", "text": t[:300], "text_length": len(t), "impl": il})
    # dict-form credentials with an (ignored) member nested to any depth - a dict is not parsed, so nothing here needs the interpreter's stack; also through verification
    for depth in (50, 400, 700, 990, 1500, 5000):
        for shape in ("list", "dict", "mixed"):
            v = "leaf"
            for i_ in range(depth):
                v = [v] if shape == "list" or (shape == "mixed" and i_ % 2) else {"n": v}
            for kind, base in (("auth", base_a), ("reg", base_r)):
                d = dict(base, clientExtensionResults=v)
                il = (impl.parse_auth_cred if kind == "auth" else impl.parse_reg_cred)(d)
                chk.evals += 1
                if not il.startswith("OK") and not il.startswith("ERR Lib:"):
                    chk.violation(f"credential dict with an ignored member nested {depth} levels deep is refused with a non-library exception: {il}", f"nonlib-parser {kind}-json-depth {il}",
                                  {"entry": f"parse_{kind}_credential_json", "nesting_depth": depth, "shape": shape, "impl": il, "credential_without_the_nested_member": base})
            d = dict(a0.as_dict(), clientExtensionResults=v)
            il = impl.verify_auth(pol0, d)
            chk.evals += 1
            judge(il, f"credential-dict-nested-{depth}", {"entry": "verify_authentication_response", "nesting_depth": depth, "shape": shape, "impl": il})
            del d, v
    for i in range(300 if quick else 20000):
        kind, base = rng.choice((("auth", base_a), ("reg", base_r)))
        d = jsonmut.mutate(base, rng)
        val = json.dumps(d) if rng.random() < 0.4 else d
        if not isinstance(val, (str, dict)):
            continue
        il = (impl.parse_auth_cred if kind == "auth" else impl.parse_reg_cred)(val)
        chk.evals += 1
        if not il.startswith("OK") and not il.startswith("ERR Lib:"):
            chk.violation(f"credential JSON parser raised outside the hierarchy: {il}", f"nonlib-parser {kind}-json {il}", {"entry": f"parse_{kind}_credential_json", "input": val, "impl": il})
        chk.seen(("json", kind, json.dumps(d, sort_keys=True)[:200]))
    # "a single hierarchy": EVERY exception class the package defines, in whichever module (not only helpers/exceptions.py), derives from WebAuthnException - a class
    # defined elsewhere is raised by code paths no generated input may reach (a hash pre-image, a published key), and `except WebAuthnException` would miss it
    import pkgutil, importlib, webauthn as _wpkg
    from webauthn.helpers.exceptions import WebAuthnException as _Base
    for mi in pkgutil.walk_packages(_wpkg.__path__, "webauthn."):
        try:
            mod_ = importlib.import_module(mi.name)
        except Exception:
            continue
        for nm_, obj_ in vars(mod_).items():
            if inspect.isclass(obj_) and issubclass(obj_, BaseException) and getattr(obj_, "__module__", "").startswith("webauthn") and not issubclass(obj_, _Base):
                chk.violation(f"exception class {obj_.__module__}.{obj_.__name__} (bases: {', '.join(b.__name__ for b in obj_.__bases__)}) is defined by the package outside its single hierarchy: whatever raises it escapes `except WebAuthnException`",
                              f"hierarchy-elsewhere {obj_.__name__}", {"class": obj_.__module__ + "." + obj_.__name__, "mro": [k.__name__ for k in obj_.__mro__]})
    chk.notes.append({"malformed_structure_observations": dict(observed)})
    A.close(); B.close()
    fw.env_invariance(chk, "auth", "reg")          # the same seeded cases under -O / -OO, warnings-as-errors, other TZ / locale, a private CA bundle
    return fw.finish(chk, ob, br, TRUSTED,
                     ["'well-formed response' = produced by the ceremony simulator (credential parses, client data is a JSON object, CBOR in the modelled subset, keys acceptable to `cryptography`, certificates parse)"],
                     RULE, "coqc -Q . PW Properties/C19.v; thorough: coqchk -o")


def replay(path):
    print(open(path).read()[:3000])
    return 0
