"""C09 - signatures verified with exactly the declared algorithm; COSE decoding yields exactly that key."""
import json, hashlib, cbor2
from harness import fw, impl, authsim, authcat, authrun, oracle
from cryptography.hazmat.primitives.asymmetric import ec, rsa, ed25519
from cryptography.hazmat.primitives import serialization

TRUSTED = [
    "Coq 8.16.1 kernel; C09_table is proved for ALL integers alg against the regenerated behavioural table (vm_compute on the finite table + lifting lemmas)",
    "harness/gen_constants.py spy keys (what verify_signature hands to the key object)",
    "extraction + driver; reference signature verification with explicitly named hash/padding (harness/oracle.py)",
    "PSS verification accepts any salt length (PSS.MAX_LENGTH on verify) - a fact about `cryptography`, not modelled further",
]
RULE = ("complete matrix: key kind (P-256, P-384, P-521, raw 65-byte P-256, RSA-2048, Ed25519) x declared algorithm (10 known ids, 0, -1, -9, "
        "a seeded random id) x scheme actually used to sign (ECDSA/SHA-1,256,384,512; PKCS1v1.5/SHA-1,256,384,512; PSS/SHA-256,384,512; Ed25519), "
        "through verify_authentication_response; expected verdict from the property's table; plus keys whose coordinates/modulus have leading zero bytes. "
        "distinct_nontrivial = distinct matrix cells")

SPEC = {-7: "ECDSA-SHA256", -36: "ECDSA-SHA512", -8: "ED25519", -257: "PKCS1-SHA256", -258: "PKCS1-SHA384", -259: "PKCS1-SHA512",
        -65535: "PKCS1-SHA1", -37: "PSS-SHA256", -38: "PSS-SHA384", -39: "PSS-SHA512"}
FAM_OF = {"ECDSA": "ec", "PKCS1": "rsa", "PSS": "rsa", "ED25519": "ed"}
SIGN = {"ec": ["ECDSA-SHA1", "ECDSA-SHA256", "ECDSA-SHA384", "ECDSA-SHA512"],
        "rsa": ["PKCS1-SHA1", "PKCS1-SHA256", "PKCS1-SHA384", "PKCS1-SHA512", "PSS-SHA256", "PSS-SHA384", "PSS-SHA512",
                "PSSM-SHA384-SHA256", "PSSM-SHA512-SHA256", "PSSM-SHA256-SHA1", "PSSM-SHA256-SHA512", "PSSM-SHA512-SHA384", "PSSM-SHA384-SHA1"],       # MGF1 over another hash than the digest
        "ed": ["ED25519"]}


def spec_accepts(fam, declared, used):
    s = SPEC.get(declared)
    return s is not None and FAM_OF[s.split("-")[0]] == fam and s == used


def run(tier, seed):
    chk = fw.Check("C09", tier, seed)
    br, ob = fw.standard_prelude(chk, with_coqchk=(tier == "thorough"))
    rng = chk.rng
    B = authrun.AuthBench(chk, br)
    quick = tier == "quick"
    from harness import srcdict
    algs = list(SPEC) + [0, -1, -9, rng.randrange(-2 ** 40, 2 ** 40)] + [a for a in srcdict.alg_ids() if a not in SPEC]
    # the IANA COSE registry around the registered ids (ES384 -35, ES256K -47, ESP256/384/512 -9/-51/-52, Ed25519 -19, Ed448 -53, RS* variants ...): none of them
    # denotes a scheme the property lists
    algs += [a for a in (-35, -47, -19, -51, -52, -53, -9, -10, -40, -41, -42, -260, -261, -262, -65534, -65533, 1, 3, -6, -34) if a not in algs]
    # ... and every id within 8 of a registered one (arithmetic on the registered ids - offsets, negative indices, off-by-one tables - lands there)
    algs += [a + d for a in SPEC for d in range(-8, 9) if a + d not in algs and a + d not in SPEC]
    algs = list(dict.fromkeys(algs))
    keys = [("P-256", "ES256-P256", False), ("P-384", "ES256-P384", False), ("P-521", "ES256-P521", False), ("raw65", "ES256-P256", True),
            ("RSA", "RS256", False), ("Ed25519", "EdDSA", False)]
    nkeys = 1 if quick else 6
    for label, kind, raw in keys:
        for slot in range(nkeys):
            cred = authsim.Cred(kind, slot=slot)
            for declared in (algs if not raw else [None]):
                if raw:
                    n = cred.pk.public_numbers()
                    stored = b"\x04" + n.x.to_bytes(32, "big") + n.y.to_bytes(32, "big")
                    decl = -7
                else:
                    stored = cbor2.dumps(cred.cose_map(alg=declared))
                    decl = declared
                for used in SIGN[cred.fam]:
                    s = authcat.Scn(kind)
                    pol0, a = s.build()
                    sig = cred.sign(a.ad + hashlib.sha256(a.cdj).digest(), used)
                    a.sig = sig
                    pol = impl.AuthPolicy(pol0.challenge, pol0.rp_id, pol0.origin, stored, pol0.count, False)
                    exp = spec_accepts(cred.fam, decl, used)
                    B.run_case(pol, a, "record", "accept" if exp else "reject", f"{label} declared={decl} signed={used}")
    chk.sample({"cell": "P-384 key declaring -7 signed with ECDSA-SHA384", "expected": "reject"})
    # decoding exactness incl. leading zero bytes
    from webauthn.helpers.decode_credential_public_key import decode_credential_public_key
    from webauthn.helpers.decoded_public_key_to_cryptography import decoded_public_key_to_cryptography

    def check_decode(cose_bytes, pk, what):
        chk.evals += 1
        try:
            got = decoded_public_key_to_cryptography(decode_credential_public_key(cose_bytes))
            same = got.public_bytes(serialization.Encoding.DER, serialization.PublicFormat.SubjectPublicKeyInfo) == \
                pk.public_bytes(serialization.Encoding.DER, serialization.PublicFormat.SubjectPublicKeyInfo)
            il = "OK " + oracle.key_to_wire(got)
        except Exception as e:
            same, il = False, "ERR " + fw.classify_exc(e)
        if not same:
            chk.violation(f"COSE decoding does not yield the encoded key ({what})", f"decode {what}", {"cose": cose_bytes.hex(), "impl": il})
        if B.R:
            ml = B.R.call("tocrypto " + fw.wb(cose_bytes))
            if not fw.exn_refines(ml, il):
                chk.diverge("Model.to_crypto", f"{what}: model {ml[:80]} impl {il[:80]}", {"cose": cose_bytes.hex()})
        chk.seen(("decode", what, cose_bytes[:24]))

    for curve, kind in ((ec.SECP256R1, "ES256-P256"), (ec.SECP384R1, "ES256-P384"), (ec.SECP521R1, "ES512-P521")):
        found = 0
        for _ in range(1500 if quick else 6000):
            sk = ec.generate_private_key(curve())
            n = sk.public_key().public_numbers()
            L = authsim.CRV_LEN[curve.name]
            xb, yb = n.x.to_bytes(L, "big"), n.y.to_bytes(L, "big")
            if curve is ec.SECP521R1 or xb[0] == 0 or yb[0] == 0 or found == 0:
                c = authsim.Cred(kind, sk=sk)
                check_decode(c.cose_bytes, c.pk, f"{curve.name} leading-zero={xb[0]==0 or yb[0]==0}")
                found += 1
                if xb[0] == 0 or yb[0] == 0:
                    # and a real ceremony with that key
                    s = authcat.Scn(kind)
                    pol0, a = s.build()
                    a.sig = c.sign(a.ad + hashlib.sha256(a.cdj).digest())
                    pol = impl.AuthPolicy(pol0.challenge, pol0.rp_id, pol0.origin, c.cose_bytes, pol0.count, False)
                    B.run_case(pol, a, "record", "accept", f"{curve.name} leading-zero coordinate")
            if found >= (3 if quick else 12):
                break
    # keys sharing a coordinate with a key seen earlier in the process: the negated point (x, p-y) is a different valid key;
    # (x, y+1) is not on the curve.  Each is presented AFTER a verification under P (a history, in case anything is remembered)
    ORDER = {"secp256r1": 0xFFFFFFFF00000000FFFFFFFFFFFFFFFFBCE6FAADA7179E84F3B9CAC2FC632551,
             "secp384r1": 0xFFFFFFFFFFFFFFFFFFFFFFFFFFFFFFFFFFFFFFFFFFFFFFFFC7634D81F4372DDF581A0DB248B0A77AECEC196ACCC52973,
             "secp521r1": int("1" + "F" * 65 + "A51868783BF2F966B7FCC0148F709A5D03BB5C9B8899C47AEBB6FB71E91386409", 16)}
    for kind in ("ES256-P256", "ES256-P384", "ES512-P521"):
        P = authsim.Cred(kind, slot=3)
        d = P.sk.private_numbers().private_value
        negsk = ec.derive_private_key(ORDER[P.pk.curve.name] - d, P.pk.curve)
        N = authsim.Cred(kind, sk=negsk)
        assert N.cose[-2] == P.cose[-2] and N.cose[-3] != P.cose[-3]
        s = authcat.Scn(kind)
        s.cred_id = b"negated-point-" + kind.encode()
        pol0, a = s.build()
        msg = a.ad + hashlib.sha256(a.cdj).digest()
        for rnd in range(2):
            for (stored, signer, exp, what) in ((P, P, "accept", "P signs, P stored"), (N, P, "reject", "P signs, -P stored"),
                                                (N, N, "accept", "-P signs, -P stored"), (P, N, "reject", "-P signs, P stored")):
                a.sig = signer.sign(msg)
                pol = impl.AuthPolicy(pol0.challenge, pol0.rp_id, pol0.origin, stored.cose_bytes, pol0.count, False)
                B.run_case(pol, a, "record", exp, f"{P.pk.curve.name} negated point: {what}")
                check_decode(stored.cose_bytes, stored.pk, f"{P.pk.curve.name} negated-point history")
        off = dict(P.cose)
        off[-3] = (int.from_bytes(P.cose[-3], "big") ^ 1).to_bytes(len(P.cose[-3]), "big")
        a.sig = P.sign(msg)
        pol = impl.AuthPolicy(pol0.challenge, pol0.rp_id, pol0.origin, cbor2.dumps(off), pol0.count, False)
        B.run_case(pol, a, "record", "reject", f"{P.pk.curve.name} point not on the curve (y^1) after a verification under (x, y)")
    # other spellings of a key member (a CBOR bool carrying the sign of y as in RFC 9053 point compression, the integer value instead of the byte string,
    # a bignum, text, a SEC1 blob): IF such a key is decoded at all it is the key it declares - never its mirror image or another point
    def alt_forms(val, is_y=False, x=None):
        iv = int.from_bytes(val, "big")
        forms = [("integer", iv), ("bignum", cbor2.CBORTag(2, val)), ("hex text", val.hex()), ("array of bytes", list(val)), ("reversed bytes", val[::-1]), ("base64url text", authsim.b64u(val))]
        if is_y:
            forms += [("bool sign bit", bool(iv & 1)), ("int sign bit", iv & 1), ("SEC1 prefix byte", bytes([2 + (iv & 1)])), ("compressed point", bytes([2 + (iv & 1)]) + x)]
        return forms
    for kind in ("ES256-P256", "ES256-P384", "ES512-P521"):
        P = authsim.Cred(kind, slot=3)
        d = P.sk.private_numbers().private_value
        N = authsim.Cred(kind, sk=ec.derive_private_key(ORDER[P.pk.curve.name] - d, P.pk.curve))
        s = authcat.Scn(kind)
        pol0, a = s.build()
        msg = a.ad + hashlib.sha256(a.cdj).digest()
        for decl, other in ((P, N), (N, P)):          # both parities of y
            for member in (-2, -3):
                for what, v in alt_forms(decl.cose[member], is_y=(member == -3), x=decl.cose[-2]):
                    m = dict(decl.cose)
                    m[member] = v
                    try:
                        cb = cbor2.dumps(m)
                    except Exception:
                        continue
                    chk.evals += 1
                    try:
                        got = decoded_public_key_to_cryptography(decode_credential_public_key(cb))
                        gn = got.public_numbers()
                        if (gn.x, gn.y) != (decl.pk.public_numbers().x, decl.pk.public_numbers().y):
                            chk.violation(f"a COSE key whose member {member} is given as {what} decodes to another point than the one it declares ({decl.pk.curve.name})", f"decode-alt-form {member} {what}",
                                          {"entry": "decode_credential_public_key", "cose": cb.hex(), "declared_x": hex(decl.pk.public_numbers().x), "declared_y": hex(decl.pk.public_numbers().y), "decoded_x": hex(gn.x), "decoded_y": hex(gn.y)})
                    except Exception:
                        pass
                    # whoever holds the OTHER private key (n - d) must not be able to authenticate against it
                    a.sig = other.sign(msg)
                    B.run_case(impl.AuthPolicy(pol0.challenge, pol0.rp_id, pol0.origin, cb, pol0.count, False), a, "record", "reject", f"{decl.pk.curve.name} member {member} as {what}: signed by the negated key")
                    chk.seen(("alt-form", kind, member, what))
    # the registry members (kty, alg, crv) in other spellings: as floating-point numbers (integral or not), as their registry NAMES in text, as bignums, booleans:
    # a key is usable only under exactly the integer ids the table lists - nothing near them, nothing that merely reads like them
    NAMES = {1: {1: "OKP", 2: "EC2", 3: "RSA"}, 3: {-7: "ES256", -8: "EdDSA", -36: "ES512", -257: "RS256", -37: "PS256", -65535: "RS1", -258: "RS384", -259: "RS512", -38: "PS384", -39: "PS512"}, -1: {1: "P-256", 2: "P-384", 3: "P-521", 6: "Ed25519"}}
    for kind in ("ES256-P256", "ES512-P521", "RS256", "PS256", "EdDSA", "RS1"):
        cr = authsim.Cred(kind)
        s = authcat.Scn(kind)
        pol0, a = s.build()
        base_map = dict(cr.cose_map())
        for member in (1, 3, -1):
            if member not in base_map or not isinstance(base_map[member], int):
                continue
            v = base_map[member]
            alts = [("float equal to the id", float(v)), ("float just below the id", float(v) - 0.5), ("float just above the id", float(v) + 0.25), ("float that truncates to the id", float(v) + (0.9 if v > 0 else -0.9)),
                    ("the registry name as text", NAMES[member].get(v, "x")), ("the id as text", str(v)), ("a one-element array", [v]), ("a bignum", cbor2.CBORTag(2 if v >= 0 else 3, (v if v >= 0 else -1 - v).to_bytes(2, "big"))),
                    ("a byte string", (v if v >= 0 else -1 - v).to_bytes(2, "big")), ("a boolean", bool(v)), ("null", None), ("the id plus 2^64", v + 2 ** 64), ("the id minus 2^32", v - 2 ** 32)]
            for what, av in alts:
                m = dict(base_map)
                m[member] = av
                try:
                    cb = cbor2.dumps(m)
                except Exception:
                    continue
                # (an integral float decodes to a value that EQUALS the id in Python; the unchanged library's verdict on it is whatever it is - the model decides; every
                #  other spelling is no registered id)
                exp = None if what in ("float equal to the id", "a bignum") else "reject"
                B.run_case(impl.AuthPolicy(pol0.challenge, pol0.rp_id, pol0.origin, cb, pol0.count, False), a, "record", exp, f"{kind} COSE member {member} as {what}")
                chk.seen(("registry-member-form", kind, member, what))
    for slot in range(2):
        c = authsim.Cred("RS256", slot=slot)
        m = c.cose_map()
        check_decode(cbor2.dumps(m), c.pk, "rsa minimal")
        m2 = dict(m); m2[-1] = b"\x00" + m[-1]; m2[-2] = b"\x00\x00" + m[-2]
        check_decode(cbor2.dumps(m2), c.pk, "rsa leading zero bytes")
    # RSA exponents other than 65537 (byte strings that are not palindromes), incl. a real ceremony
    for e in (65539, 3, 0x0103, 17, 0x0100010001, 0x010000000000000001):
        c = authsim.rsa_cred_exponent(e)
        check_decode(c.cose_bytes, c.pk, f"rsa exponent {e}")
        s = authcat.Scn("RS256")
        pol0, a = s.build()
        a.sig = c.sign(a.ad + hashlib.sha256(a.cdj).digest())
        B.run_case(impl.AuthPolicy(pol0.challenge, pol0.rp_id, pol0.origin, c.cose_bytes, pol0.count, False), a, "record", "accept", f"rsa exponent {e}")
    # raw 65-byte P-256 keys whose x (and y) coordinate begins with the 0x04 format byte / with 0x00
    for prefix in (b"\x04", b"\x00"):
        c = authsim.p256_cred_with_x_prefix(prefix)
        n = c.pk.public_numbers()
        raw = b"\x04" + n.x.to_bytes(32, "big") + n.y.to_bytes(32, "big")
        check_decode(raw, c.pk, f"raw uncompressed P-256 key, x starts with {prefix.hex()}")
        check_decode(c.cose_bytes, c.pk, f"COSE P-256 key, x starts with {prefix.hex()}")
        s = authcat.Scn("ES256-P256")
        pol0, a = s.build()
        a.sig = c.sign(a.ad + hashlib.sha256(a.cdj).digest())
        B.run_case(impl.AuthPolicy(pol0.challenge, pol0.rp_id, pol0.origin, raw, pol0.count, False), a, "record", "accept", f"raw key x-prefix {prefix.hex()}")
    c = authsim.Cred("EdDSA")
    check_decode(c.cose_bytes, c.pk, "ed25519")
    # the exported verify_signature on data of every length, in particular lengths that equal a digest size: the data is the MESSAGE - a signature over M
    # verifies for M and for nothing else (not for H(M), not for M with a byte appended), whatever M's length
    from webauthn.helpers.verify_signature import verify_signature
    from cryptography.exceptions import InvalidSignature
    def vs(pk, alg, sig, data):
        try:
            verify_signature(public_key=pk, signature_alg=alg, signature=sig, data=data)
            return "verified"
        except InvalidSignature:
            return "invalid"
        except Exception as e:
            return "ERR " + fw.classify_exc(e)
    for kind in ("ES256-P256", "ES512-P521", "RS256", "RS1", "PS256", "PS384", "PS512", "RS384", "RS512", "EdDSA"):
        if kind not in authsim.KINDS:
            continue
        cr = authsim.Cred(kind)
        for L in (0, 1, 19, 20, 21, 28, 31, 32, 33, 47, 48, 49, 63, 64, 65, 100, 1000):
            M = bytes((i * 37 + L) % 256 for i in range(L))
            sig = cr.sign(M)
            digests = [hashlib.new(h, M).digest() for h in ("sha1", "sha256", "sha384", "sha512")]
            chk.evals += 1
            got = vs(cr.pk, cr.alg, sig, M)
            if got != "verified":
                chk.violation(f"verify_signature refuses a genuine {kind} signature over a {L}-byte message: {got}", f"verify-signature genuine {kind} len={L}", {"entry": "verify_signature", "kind": kind, "alg": cr.alg, "message_hex": M.hex(), "signature_hex": sig.hex(), "outcome": got})
            for what, other in [("H(M) " + str(len(d)), d) for d in digests] + [("M + 00", M + b"\x00"), ("M without its last byte", M[:-1])] + ([("digest-sized other message", bytes(len(M)))] if L in (20, 32, 48, 64) and M != bytes(len(M)) else []):
                if other == M:
                    continue
                chk.evals += 1
                got = vs(cr.pk, cr.alg, sig, other)
                if got == "verified":
                    chk.violation(f"verify_signature accepts a {kind} signature made over M ({L} bytes) for other data ({what})", f"verify-signature other-data {kind} {what.split()[0]} len={L}",
                                  {"entry": "verify_signature", "kind": kind, "alg": cr.alg, "signed_message_hex": M.hex(), "presented_data_hex": other.hex(), "signature_hex": sig.hex()})
            # ... and a signature made over the digest (as a caller holding only the digest would produce with a pre-hashed API) is no signature over M
            chk.seen(("verify-signature", kind, L))
    # attestation statements: the algorithm the STATEMENT declares is the one its signature is verified with - keys of a type no listed algorithm denotes (Ed448), signatures
    # made with another scheme (also when delivered inside a TPMT_SIGNATURE structure that names that other scheme), self attestation whose alg disagrees with the key
    from harness import regsim, regcat, regrun
    RB = regrun.RegBench(chk, br, oracle_obj=B.O)
    for fmt, names in (("packed", ("wrong-scheme", "attestation-key-of-a-type-no-algorithm-denotes")), ("tpm", ("wrong-scheme", "signature-of-another-scheme-than-alg-declares")),
                       ("packed-self", ("wrong-scheme", "alg-disagrees-with-key")), ("android-key", ("signed-by-other-key",))):
        for nm in names:
            if nm not in regcat.FORMAT_FAULTS[fmt]:
                continue
            reps = 0
            while True:
                reps += 1
                s = regsim.RScn(fmt, "ES256-P256" if fmt != "tpm" else "RS256", "RS256" if fmt == "tpm" else "ES256-P256")
                authcat.apply(regcat.FORMAT_FAULTS[fmt], nm, s, scope=f"c09:{fmt}:")
                try:
                    pd, reg = regsim.build(s)
                except Exception:
                    break
                RB.run_case(regrun.policy_of(pd), reg, "dict", "reject", f"statement-scheme/{nm}/{fmt}", scn=s)
                if not authcat.variants_left(nm, scope=f"c09:{fmt}:") or reps > 10:
                    break
    RB.close()
    B.close()
    fw.env_invariance(chk, "auth", "reg")          # the same seeded cases under -O / -OO, warnings-as-errors, other TZ / locale, a private CA bundle
    return fw.finish(chk, ob, br, TRUSTED,
                     ["the scheme table of the model is the regenerated behavioural export; the expected verdict of each matrix cell comes from the property text (harness SPEC table), not from the model"],
                     RULE, "coqc -Q . PW Properties/C09.v; thorough: coqchk -o")


def replay(path):
    print(open(path).read()[:3000])
    return 0
