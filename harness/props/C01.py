"""C01 - authentication soundness."""
import json, itertools
from harness import fw, impl, authsim, authcat, authrun

TRUSTED = [
    "Coq 8.16.1 kernel (coqc; vm_compute for the finite table obligations; no native_compute)",
    "harness/gen_constants.py (reflective export incl. the behavioural scheme table via spy keys)",
    "extraction (ExtrOcamlBasic only) + ocaml/driver.ml; reference oracles harness/oracle.py (hashlib, cryptography, json)",
    "oracles (SHA-256, signature verification, json.loads, key acceptance) are universally quantified in the theorems: no cryptographic hypothesis is used for soundness",
    "modelled not verified: CPython json/base64, cbor2 inside the modelled subset; the ceremony simulator only chooses inputs",
]
RULE = ("signed assertions from the ceremony simulator: every credential kind x legitimate variations (accepted baseline), "
        "every single fault of the 25-entry catalogue (each re-signed so only that fault is present), fault pairs, in text/dict/"
        "record form; plus a structural JSON mutation stream. distinct_nontrivial = distinct (fault label, form, outcome, policy "
        "uv, credential kind) tuples")


def run(tier, seed):
    chk = fw.Check("C01", tier, seed)
    br, ob = fw.standard_prelude(chk, with_coqchk=(tier == "thorough"))
    rng = chk.rng
    B = authrun.AuthBench(chk, br)
    kinds = list(authsim.KINDS)
    quick = tier == "quick"
    # 1. baselines: every kind, a few variations each, all forms
    for kind in kinds:
        for v in range(2 if quick else 8):
            s = authcat.base_variation(authcat.Scn(kind), rng)
            pol, a = s.build()
            for form in authrun.FORMS if v == 0 else (rng.choice(authrun.FORMS),):
                il, ml = B.run_case(pol, a, form, "accept", "baseline")
            if v == 0 and kind == kinds[0]:
                chk.sample({"label": "baseline", "kind": kind, "policy": pol.describe(), "impl": il})
    # 2. single faults: every fault x kinds (quick: rotating kinds)
    names = list(authcat.FAULTS)
    for i, name in enumerate(names):
        ks = kinds if not quick else [kinds[i % len(kinds)], kinds[(i * 5 + 3) % len(kinds)], "ES256-P256"]
        for kind in ks:
            for rep in range(2 if quick else 4):
                s = authcat.Scn(kind)
                if rep > 1:
                    authcat.base_variation(s, rng)
                if rep % 2 == 1:          # same fault under a user-verification-requiring policy
                    s.require_uv = True
                    s.flags |= 0x04
                authcat.apply(authcat.FAULTS, name, s)
                s.faults = [name]
                pol, a = s.build()
                forms = ("record",) if name in authcat.RECORD_ONLY else ((rng.choice(authrun.FORMS),) if quick else authrun.FORMS)
                for form in forms:
                    il, ml = B.run_case(pol, a, form, "reject", name)
        # every variant of the entry at least once (the entry's own generator walks through them)
        while authcat.variants_left(name):
            s = authcat.Scn("ES256-P256")
            authcat.apply(authcat.FAULTS, name, s)
            s.faults = [name]
            pol, a = s.build()
            il, ml = B.run_case(pol, a, "record" if name in authcat.RECORD_ONLY else "dict", "reject", name)
        if i < 3:
            chk.sample({"label": name, "scenario": s.describe(), "impl": il})
    # 3. pairs
    pairs = list(itertools.combinations(names, 2))
    rng.shuffle(pairs)
    for (n1, n2) in (pairs[:120] if quick else pairs):
        s = authcat.Scn(rng.choice(kinds))
        if rng.random() < 0.5:
            s.require_uv = True
            s.flags |= 0x04
        authcat.FAULTS[n1](s, rng)
        authcat.FAULTS[n2](s, rng)
        s.faults = [n1, n2]
        pol, a = s.build()
        form = "record" if (n1 in authcat.RECORD_ONLY or n2 in authcat.RECORD_ONLY) else rng.choice(authrun.FORMS)
        B.run_case(pol, a, form, "reject", n1 + "+" + n2)
    # 4. structural mutation stream on the dict form (model vs implementation only)
    from harness import jsonmut
    s = authcat.Scn("ES256-P256")
    pol, a = s.build()
    base = a.as_dict()
    for i in range(300 if quick else 5000):
        d = jsonmut.mutate(base, rng)
        jsonmut.compare_auth_dict(B, pol, d, rng.random() < 0.3)
    # 5. key histories for one credential id: the key the RP supplies NOW decides, whatever was supplied before
    for kind in (kinds[::4] if quick else kinds):
        cid = b"rotating-" + kind.encode()
        def scn(**kw):
            s = authcat.Scn(kind)
            s.cred_id = cid
            for k, v in kw.items():
                setattr(s, k, v)
            return s
        steps = [("genuine, first key stored", scn(), "accept"),
                 ("signed by the first key, RP now stores a second key", scn(stored_key_kind=kind), "reject"),
                 ("signed by the second key, RP stores the second key", scn(signer_kind=kind, signer_slot=authcat.ALT_CRED_SLOT, stored_key_kind=kind), "accept"),
                 ("signed by the second key, RP stores the first key again", scn(signer_kind=kind, signer_slot=authcat.ALT_CRED_SLOT), "reject"),
                 ("genuine, first key stored (again)", scn(), "accept")]
        for what, s, exp in steps:
            pol, a = s.build()
            B.run_case(pol, a, "record", exp, f"key-history: {what}")
    # 6. ... also when the key supplied now has the same LENGTH and the same cheap checksum (CRC-32, Adler-32 where it can be had) as one supplied before: a key is its bytes
    import cbor2 as _cb, zlib as _z
    for kind in (kinds[::3] if quick else kinds):
        s = authcat.Scn(kind)
        s.cred_id = b"twin-" + kind.encode()
        pol, a = s.build()
        first = authsim.Cred(kind)
        second = authsim.Cred(kind, slot=authcat.ALT_CRED_SLOT)
        m1 = dict(first.cose_map()); m1[-70001] = b"\x00\x01\x02\x03"
        k1 = _cb.dumps(m1)
        m2 = dict(second.cose_map()); m2[-70001] = bytes(4)
        k2_ = _cb.dumps(m2)
        if len(k2_) != len(k1) or k2_[-4:] != bytes(4):
            continue
        for what, fn in (("CRC-32", _z.crc32),):
            sfx = fw.checksum_twin_suffix(k2_[:-4], fn(k1), fn)
            if sfx is None:
                continue
            k2 = k2_[:-4] + sfx
            assert fn(k2) == fn(k1) and k2 != k1 and _cb.dumps(_cb.loads(k2)) == k2
            for rounds in range(2):
                B.run_case(impl.AuthPolicy(pol.challenge, pol.rp_id, pol.origin, k1, pol.count, pol.require_uv), a, "record", "accept", f"checksum-twin keys ({what}): the signer's key stored")
                B.run_case(impl.AuthPolicy(pol.challenge, pol.rp_id, pol.origin, k2, pol.count, pol.require_uv), a, ("record", "dict")[rounds], "reject", f"checksum-twin keys ({what}): another key of the same length and {what} stored")
    B.close()
    chk.notes.append({"oracle_queries": B.O.counts})
    fw.env_invariance(chk, "auth", "reg")          # the same seeded cases under -O / -OO, warnings-as-errors, other TZ / locale, a private CA bundle
    return fw.finish(chk, ob, br, TRUSTED,
                     ["theorems hold for arbitrary oracles; what the oracles answer on explored inputs is computed by independent reference code",
                      "AuthAccepted (coq/Spec/AuthSpec.v) is the formal reading of the property's conjunct list"],
                     RULE, "coqc -Q . PW Properties/C01.v (after make of Model/Spec/Proofs); thorough: coqchk -o")


def replay(path):
    r = json.load(open(path))
    print(json.dumps(r, indent=1)[:3000])
    return 0
