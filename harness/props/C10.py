"""C10 - flag semantics for all 256 flag bytes."""
import json
from harness import fw, impl, authsim, authcat, authrun

TRUSTED = [
    "Coq 8.16.1 kernel; C10_bits / C10_reserved_ignored are finite sweeps over all 256 flag bytes by vm_compute, lifted with forallb_forall (bound in the statement)",
    "extraction + driver; reference oracles",
]
RULE = ("ALL 256 flag bytes x require_user_verification in {F,T} x both ceremonies (registration additionally x require_user_presence), "
        "authenticator data laid out as the flags announce, really signed; verdict and reported fields compared with the table of the property "
        "and with the model. exhaustive. distinct_nontrivial = distinct (ceremony, flags, policy) cells")


def table_auth(f, require_uv):
    up, uv, be, bs = f & 1, f & 4, f & 8, f & 16
    return bool(up) and (not require_uv or bool(uv)) and not (bs and not be)


def run(tier, seed):
    chk = fw.Check("C10", tier, seed)
    br, ob = fw.standard_prelude(chk, with_coqchk=(tier == "thorough"))
    B = authrun.AuthBench(chk, br)
    # the exported helper's own results are the caller's to do with as it likes: whatever an application does to them, later ceremonies report the bits
    from webauthn.helpers import parse_backup_flags
    from webauthn.helpers.structs import AuthenticatorDataFlags
    def helper_sweep(vandalise):
        for f in range(256):
            try:
                fl = AuthenticatorDataFlags(up=bool(f & 1), uv=bool(f & 4), be=bool(f & 8), bs=bool(f & 16), at=bool(f & 64), ed=bool(f & 128))
                r = parse_backup_flags(fl)
                got = (r.credential_device_type.value, bool(r.credential_backed_up))
                ok = True
            except Exception as e:
                got, ok = ("ERR " + fw.classify_exc(e),), False
            chk.evals += 1
            want_ok = not (f & 16 and not f & 8)
            want = ("multi_device" if f & 8 else "single_device", bool(f & 16))
            if ok != want_ok or (ok and got != want):
                chk.violation(f"parse_backup_flags for flags {f:#04x} gives {got}, the bits say {want if want_ok else 'refused'}" + (" (after earlier results were edited by their caller)" if not vandalise else ""),
                              f"backup-flags-helper flags={f:#04x}", {"entry": "parse_backup_flags", "flags": f, "got": list(got), "history": "results of an earlier sweep were overwritten in place by the caller"})
            if ok and vandalise:
                impl.vandalise_any(r)
    helper_sweep(True)
    helper_sweep(False)
    for f in range(256):
        for ruv in (False, True):
            s = authcat.Scn("ES256-P256" if f % 7 else "EdDSA")
            s.flags = f
            s.require_uv = ruv
            if f & 0x40 and (f // 2 + ruv) % 2:
                s.at_cred_id = b"some-other-credential"       # AT in an assertion: attested data follows - whose, is not a flag matter
            if f & 0x80:           # ED: "extension data follows" - any CBOR map, the empty one included
                # (incl. values in their shortest floating-point form, which the parser measures through a longer re-encoding)
                s.ext = (None, b"\xa0", b"\xa1\x68credBlob\x58\x20" + bytes(32), b"\xa1\x63uvm\x81\x83\x02\x04\x02", b"\xa1\x65ratio\xf9\x3e\x00", b"\xa2\x61a\xfa\x3f\xc0\x00\x00\x61b\xf9\x7c\x00")[(f // 4 + ruv) % 6]
            pol, a = s.build()
            a.attachment = (None, "platform", "cross-platform")[(f // 2 + ruv) % 3]        # a client hint: no influence on any reported field
            a.user_handle = (None, b"user-handle", b"")[(f // 8 + ruv) % 3]               # present or not: no influence either
            if f % 7 and (f + ruv) % 2:
                # the stored key in its other admissible form (the raw uncompressed point of a U2F-era credential): which form the RP stores is not a flag matter
                n_ = a.cred.pk.public_numbers()
                pol = impl.AuthPolicy(pol.challenge, pol.rp_id, pol.origin, b"\x04" + n_.x.to_bytes(32, "big") + n_.y.to_bytes(32, "big"), pol.count, pol.require_uv)
            exp = table_auth(f, ruv)
            il, ml = B.run_case(pol, a, "record" if f % 2 else "dict", "accept" if exp else "reject", f"get flags={f:#04x} uv_required={ruv}")
            if il.startswith("OK"):
                t = il.split()
                got = (t[3] == "T", t[4] == "T", t[5] == "T")   # multi_device, backed_up, user_verified
                want = (bool(f & 8), bool(f & 16), bool(f & 4))
                if got != want:
                    chk.violation(f"reported fields {got} != bits {want} for flags {f:#04x}", f"auth-fields flags={f:#04x}", {"flags": f, "impl": il})
    from harness.props import C10reg
    C10reg.run_reg(chk, B, table_auth)
    chk.exhaustive = True
    chk.sample({"ceremony": "get", "flags": "0x15", "require_uv": False, "expected": "reject (BS without BE)"})
    B.close()
    fw.env_invariance(chk, "auth", "reg")          # the same seeded cases under -O / -OO, warnings-as-errors, other TZ / locale, a private CA bundle
    return fw.finish(chk, ob, br, TRUSTED, ["authenticator data is laid out as the flag byte announces (AT -> attested data, ED -> extension map)"],
                     RULE, "coqc -Q . PW Properties/C10.v; thorough: coqchk -o")


def replay(path):
    print(open(path).read()[:3000])
    return 0
