"""C12 - TPM attestation structures decoded field-for-field."""
import json, struct
from harness import fw, impl, oracle, regsim

TRUSTED = [
    "Coq 8.16.1 kernel; identifier tables (TPM_ST, TPM_ALG, TPM_ECC_CURVE) are the regenerated constants, compared with the TCG tables entered in coq/Spec/TpmSpec.v",
    "extraction + driver; harness generators and canonicalisation",
]
RULE = ("structured generator over all structure tags, all algorithm and curve identifiers, both key kinds, attribute words (each single bit, random words), variable-length "
        "fields of sizes {0,1,2,31,32,255,256,hundreds}; direct evaluation of every decoded field against the generator's values; truncations and random bytes (outcome class only). "
        "distinct_nontrivial = distinct inputs")
LENS = [0, 1, 2, 31, 32, 255, 256, 300, 700] + [n for n in fw.size_ladder(cap=65535) if n not in (255, 256, 300, 700)] + [65535]      # every TPM2B size the 16-bit prefix can carry


def tables():
    from webauthn.helpers.tpm import structs as T
    return T


def run(tier, seed):
    chk = fw.Check("C12", tier, seed)
    br, ob = fw.standard_prelude(chk, with_coqchk=(tier == "thorough"))
    rng = chk.rng
    R = fw.Runner(oracle.Oracle()) if br.runner_ok else None
    quick = tier == "quick"
    # independent TCG tables (TPM 2.0 Part 2, 6.3 / 6.4 / 6.9) for direct evaluation
    ST = {0x00C4: "RSP_COMMAND", 0x8000: "NULL", 0x8001: "NO_SESSIONS", 0x8002: "SESSIONS", 0x8014: "ATTEST_NV", 0x8015: "ATTEST_COMMAND_AUDIT",
          0x8016: "ATTEST_SESSION_AUDIT", 0x8017: "ATTEST_CERTIFY", 0x8018: "ATTEST_QUOTE", 0x8019: "ATTEST_TIME", 0x801A: "ATTEST_CREATION", 0x8021: "CREATION",
          0x8022: "VERIFIED", 0x8023: "AUTH_SECRET", 0x8024: "HASHCHECK", 0x8025: "AUTH_SIGNED", 0x8029: "FU_MANIFEST"}
    ALG = {0x0000: "ERROR", 0x0001: "RSA", 0x0004: "SHA1", 0x0005: "HMAC", 0x0006: "AES", 0x0007: "MGF1", 0x0008: "KEYEDHASH", 0x000A: "XOR", 0x000B: "SHA256",
           0x000C: "SHA384", 0x000D: "SHA512", 0x0010: "NULL", 0x0012: "SM3_256", 0x0013: "SM4", 0x0014: "RSASSA", 0x0015: "RSAES", 0x0016: "RSAPSS", 0x0017: "OAEP",
           0x0018: "ECDSA", 0x0019: "ECDH", 0x001A: "ECDAA", 0x001B: "SM2", 0x001C: "ECSCHNORR", 0x001D: "ECMQV", 0x0020: "KDF1_SP800_56A", 0x0021: "KDF2",
           0x0022: "KDF1_SP800_108", 0x0023: "ECC", 0x0025: "SYMCIPHER", 0x0026: "CAMELLIA", 0x0040: "CTR", 0x0041: "OFB", 0x0042: "CBC", 0x0043: "CFB", 0x0044: "ECB"}
    CURVE = {0x0000: "NONE", 0x0001: "NIST_P192", 0x0002: "NIST_P224", 0x0003: "NIST_P256", 0x0004: "NIST_P384", 0x0005: "NIST_P521", 0x0010: "BN_P256",
             0x0011: "BN_P638", 0x0020: "SM2_P256"}
    BITS = [1, 2, 4, 5, 6, 7, 10, 11, 16, 17, 18]

    def both(cmd, b, f_impl, expect=None, kind=""):
        il = f_impl(b)
        chk.evals += 1
        rp = {"entry": cmd, "input_hex": b.hex(), "impl": il[:300], "kind": kind}
        if expect is not None and il != expect:
            chk.violation(f"{cmd}: decoded fields differ from the encoded ones ({kind})", f"{cmd}-unfaithful {kind}", dict(rp, expected=expect[:300]))
        if R:
            ml = R.call(f"{cmd} " + fw.wb(b))
            if not fw.exn_refines(ml, il):
                chk.diverge(f"Model.{cmd}", f"{kind}: model {ml[:100]} impl {il[:100]}", rp)
        chk.seen(b[:300])
        chk.count(f"{cmd}:{kind}:" + ("OK" if il.startswith("OK") else il[4:]))
        return il

    rb = rng.randbytes
    # ---- certInfo ----
    n = 40 if quick else 1500
    cases = []
    for tag in ST:
        cases.append(dict(tag=tag))
    for alg in ALG:
        cases.append(dict(name_alg=alg))
    for L in LENS:
        for fld in ("qs", "ed", "name_tail", "qn"):
            cases.append({fld: L})
    for _ in range(n):
        cases.append(dict(qs=rng.choice(LENS), ed=rng.choice(LENS), name_tail=rng.choice(LENS), qn=rng.choice(LENS), tag=rng.choice([0x8017] * 3 + list(ST)),
                          name_alg=rng.choice(list(ALG))))
    # Names and qualified names as a TPM really computes them: Name = nameAlg || H(pubArea); QN = nameAlg || H(QN(parent) || Name), the QN of a hierarchy being its 4-byte
    # handle (owner, endorsement, platform, NULL) - for primaries and for children two levels down.  The decoder decodes; it does not judge where a key lives.
    import hashlib as _hl
    HN = {0x0004: _hl.sha1, 0x000B: _hl.sha256, 0x000C: _hl.sha384, 0x000D: _hl.sha512}
    for alg_, hf in HN.items():
        for handle in (0x40000001, 0x4000000B, 0x4000000C, 0x40000007, 0x81000001):
            nm_ = struct.pack(">H", alg_) + hf(rb(90)).digest()
            qn1 = struct.pack(">H", alg_) + hf(struct.pack(">I", handle) + nm_).digest()
            cases.append(dict(name_bytes=nm_, qn_bytes=qn1, name_alg=alg_))
            child = struct.pack(">H", alg_) + hf(rb(90)).digest()
            cases.append(dict(name_bytes=child, qn_bytes=struct.pack(">H", alg_) + hf(qn1 + child).digest(), name_alg=alg_, qs_bytes=qn1))
    shared_tail, shared_qs = rb(32), rb(34)
    for ci, c in enumerate(cases):
        tag = c.get("tag", 0x8017)
        magic = (rb(4), b"\xffTCG", b"GCT\xff", b"TCG\xff", b"\xff\xff\xff\xff", b"\x00\x00\x00\x00", b"\x47\x43\x54\xff", b"\xffTCG", b"\xfeTCG", b"\xffTCH")[ci % 10]
        qs, ed, qn = rb(c.get("qs", 34)), rb(c.get("ed", 32)), rb(c.get("qn", 34))
        name_alg = c.get("name_alg", 0x000B)
        name = struct.pack(">H", name_alg) + rb(min(c.get("name_tail", 32), 65533))
        # structures that SHARE a field value with earlier ones (the same attested Name certified again, the same signer) and fields that COINCIDE
        # with one another inside one structure (signer = name, extraData = qualified name, ...): each is decoded on its own, field for field
        if "name_tail" not in c and ci % 3 == 0:
            name = struct.pack(">H", name_alg) + shared_tail
        if "qs" not in c and ci % 4 == 1:
            qs = shared_qs
        if ci % 7 == 2 and "qs" not in c:
            qs = name
        if ci % 7 == 3 and "qn" not in c:
            qn = name
        if ci % 7 == 4 and "ed" not in c and "qn" not in c:
            ed = qn
        if ci % 7 == 5 and "qs" not in c and "qn" not in c:
            qs = qn = name
        if "name_bytes" in c:
            name, qn = c["name_bytes"], c["qn_bytes"]
            qs = c.get("qs_bytes", qs)
        clock, reset, restart, safe, fwv = rb(8), rng.randrange(2 ** 32), rng.randrange(2 ** 32), rng.choice([0, 1, 2, 255]), rb(8)
        b = magic + struct.pack(">H", tag) + struct.pack(">H", len(qs)) + qs + struct.pack(">H", len(ed)) + ed + clock + struct.pack(">II", reset, restart) + bytes([safe]) + fwv \
            + struct.pack(">H", len(name)) + name + struct.pack(">H", len(qn)) + qn
        if tag == 0x8017:
            exp = "OK " + " ".join([fw.wb(magic), fw.ws("ATTEST_CERTIFY"), fw.wb(qs), fw.wb(ed), fw.wb(clock), fw.wi(reset), fw.wi(restart), fw.wbool(safe != 0), fw.wb(fwv),
                                    fw.ws(ALG[name_alg]), fw.wb(name[:2]), fw.wb(name), fw.wb(qn)])
        else:
            exp = "ERR Lib:InvalidTPMCertInfoStructure"
        both("certinfo", b, impl.parse_cert_info, exp, f"tag={tag:#06x}")
    chk.sample({"certinfo_hex": b.hex()[:120], "expected": exp[:120]})
    # ---- pubArea ----
    pcases = []
    for bit in range(32):
        pcases.append(dict(attrs=1 << bit))
        pcases.append(dict(attrs=0xFFFFFFFF ^ (1 << bit)))
    for a1 in ALG:
        pcases.append(dict(name_alg=a1))
        pcases.append(dict(sym=a1))
        pcases.append(dict(scheme=a1, kind="ECC"))
        pcases.append(dict(kdf=a1, kind="ECC"))
    for cv in CURVE:
        pcases.append(dict(curve=cv, kind="ECC"))
    for L in LENS:
        pcases.append(dict(ap=L))
        pcases.append(dict(unique=L))
        pcases.append(dict(unique=L, kind="ECC", uy=LENS[(LENS.index(L) + 3) % len(LENS)]))
    # small structures of every total length (a TPMT_PUBLIC is not length-prefixed: no framing heuristics), and unique fields with leading zero bytes
    for apl in range(0, 25):
        for lx in (0, 1, 4, 7, 8, 32):
            for ly in ((0, 1, 4, 7, 8, 32) if not quick or apl % 3 == 0 else (7, 8)):
                pcases.append(dict(kind="ECC", ap=apl, unique=lx, uy=ly))
        for lu in (0, 1, 2, 3, 5):
            pcases.append(dict(kind="RSA", ap=apl, unique=lu))
    # moduli with arithmetic structure (the decoder decodes; it does not judge keys): ROCA-shaped (65537^a mod the primorial of 3..167, plus a multiple of it), all ones,
    # powers of two and their neighbours, an even number, a perfect square, a product of small primes
    small_primes = [p_ for p_ in range(3, 168, 2) if all(p_ % q for q in range(3, int(p_ ** 0.5) + 1, 2))]
    Mp = 1
    for p_ in small_primes:
        Mp *= p_
    special = [((rng.getrandbits(2048 - Mp.bit_length() - 1) | (1 << (2046 - Mp.bit_length()))) * Mp + pow(65537, a_, Mp)) for a_ in (1, 12345, 2 ** 61 - 1, 987654321987654321)]
    special += [2 ** 2048 - 1, 2 ** 2047, 2 ** 2047 + 1, 2 ** 2047 - 1, (2 ** 1024 - 159) ** 2, 2 * (2 ** 2046 + 7), Mp ** 2 if Mp.bit_length() * 2 <= 2048 else Mp, 65537 ** 128, 3 ** 1292]
    for n_ in special:
        ub_ = n_.to_bytes(256, "big") if n_.bit_length() <= 2048 else n_.to_bytes((n_.bit_length() + 7) // 8, "big")
        pcases.append(dict(kind="RSA", unique_bytes=ub_))
    for ub in (b"\x00" + rb(255), b"\x00\x00" + rb(254), bytes(256), b"\x00", b"\x00\x01", bytes(128) + rb(128)):
        pcases.append(dict(kind="RSA", unique_bytes=ub))
        pcases.append(dict(kind="ECC", unique_bytes=ub[:32] if len(ub) >= 32 else ub, uy_bytes=b"\x00" + rb(31)))
    for _ in range(n):
        pcases.append(dict(attrs=rng.randrange(2 ** 32), kind=rng.choice(["RSA", "ECC"]), ap=rng.choice(LENS), unique=rng.choice(LENS), uy=rng.choice(LENS),
                           name_alg=rng.choice(list(ALG)), sym=rng.choice(list(ALG)), scheme=rng.choice(list(ALG)), curve=rng.choice(list(CURVE)), kdf=rng.choice(list(ALG))))
    # the enumerated members are independent of one another: the full product of (name algorithm) x (scheme) x (curve) x (symmetric) x (kdf) x (attribute profile) for ECC keys,
    # and of (name algorithm) x (scheme) x (symmetric) x (attribute profile) for RSA keys - each member decodes to the value encoded, whatever the others say
    hashes = [0x0004, 0x000B, 0x000C, 0x000D, 0x0012, 0x0010, 0x0000]
    profiles = [0x00040072, 0x00050472, 0x00060072, 0x00000000]      # unrestricted signing key / restricted signing key (AIK) / decryption key / nothing set
    for na_ in hashes:
        for sch_ in ALG:
            for pi_, at_ in enumerate(profiles if not quick else profiles[: 2]):
                for sym_ in (0x0010, 0x0006):
                    pcases.append(dict(kind="RSA", attrs=at_, name_alg=na_, scheme=sch_, sym=sym_, ap=0, unique=2))
                    for cv_ in CURVE:
                        for kdf_ in (0x0010, 0x0020):
                            pcases.append(dict(kind="ECC", attrs=at_, name_alg=na_, scheme=sch_, sym=sym_, curve=cv_, kdf=kdf_, ap=0, unique=2, uy=2))
    # authorization policies that MEAN something to a TPM (the digests of PolicyAuthValue, PolicyPassword, PolicySecret(endorsement) - the default EK policy -, PolicyCommandCode
    # (Certify), the empty policy), under every name algorithm, with userWithAuth / adminWithPolicy set and clear: authPolicy is bytes, the attribute bits are the encoded bits
    import hashlib as _hl2
    for alg_, hf in {0x0004: _hl2.sha1, 0x000B: _hl2.sha256, 0x000C: _hl2.sha384, 0x000D: _hl2.sha512}.items():
        z = bytes(hf().digest_size)
        pols = [hf(z + struct.pack(">I", 0x16B)).digest(), hf(z + struct.pack(">I", 0x18C)).digest(), hf(hf(z + struct.pack(">I", 0x151) + struct.pack(">I", 0x4000000B)).digest()).digest(),
                hf(z + struct.pack(">I", 0x16C) + struct.pack(">I", 0x148)).digest(), z, b""]
        for pol_ in pols:
            for at_ in (0x00050472, 0x00050432, 0x000504F2, 0x00040072, 0x00040032, 0x000400B2):      # (userWithAuth bit 6, adminWithPolicy bit 7 in every combination that occurs)
                for kd_ in ("RSA", "ECC"):
                    pcases.append(dict(kind=kd_, attrs=at_, name_alg=alg_, ap_bytes=pol_, unique=2, uy=2))
    for c in pcases:
        kind = c.get("kind", "RSA")
        attrs = c.get("attrs", 0x00050472)
        ap = c["ap_bytes"] if "ap_bytes" in c else rb(c.get("ap", 32))
        na, sym, sch = c.get("name_alg", 0x000B), c.get("sym", 0x0010), c.get("scheme", 0x0014)
        b = struct.pack(">H", 0x0001 if kind == "RSA" else 0x0023) + struct.pack(">H", na) + struct.pack(">I", attrs) + struct.pack(">H", len(ap)) + ap
        abits = "".join("1" if attrs >> k & 1 else "0" for k in BITS)
        if kind == "RSA":
            kb, ex, u = rb(2), rb(4), c.get("unique_bytes", None) if "unique_bytes" in c else rb(c.get("unique", 256))
            b += struct.pack(">HH", sym, sch) + kb + ex + struct.pack(">H", len(u)) + u
            exp = "OK " + " ".join([fw.ws("RSA"), fw.ws(ALG[na]), abits, fw.wb(ap), "RSA", fw.ws(ALG[sym]), fw.ws(ALG[sch]), fw.wb(kb), fw.wb(ex), fw.wb(u)])
        else:
            cv, kdf = c.get("curve", 0x0003), c.get("kdf", 0x0010)
            x = c["unique_bytes"] if "unique_bytes" in c else rb(c.get("unique", 32))
            y = c["uy_bytes"] if "uy_bytes" in c else rb(c.get("uy", 32))
            b += struct.pack(">HHHH", sym, sch, cv, kdf) + struct.pack(">H", len(x)) + x + struct.pack(">H", len(y)) + y
            exp = "OK " + " ".join([fw.ws("ECC"), fw.ws(ALG[na]), abits, fw.wb(ap), "ECC", fw.ws(ALG[sym]), fw.ws(ALG[sch]), fw.ws(CURVE[cv]), fw.ws(ALG[kdf]), fw.wb(x + y)])
        both("pubarea", b, impl.parse_pub_area, exp, kind)
    chk.sample({"pubarea_hex": b.hex()[:120], "expected": exp[:140]})
    # ---- a decoded structure is a value: parsing other structures later does not change it ----
    from webauthn.helpers.tpm.parse_pub_area import parse_pub_area as ppa
    from webauthn.helpers.tpm.parse_cert_info import parse_cert_info as pci
    def mk_pa(kind, attrs):
        if kind == "RSA":
            return struct.pack(">HHI", 0x0001, 0x000B, attrs) + struct.pack(">H", 0) + struct.pack(">HH", 0x0010, 0x0014) + b"\x08\x00" + bytes(4) + struct.pack(">H", 8) + b"modulus!"
        return struct.pack(">HHI", 0x0023, 0x000C, attrs) + struct.pack(">H", 0) + struct.pack(">HHHH", 0x0010, 0x0018, 0x0003, 0x0010) + struct.pack(">H", 2) + b"xx" + struct.pack(">H", 2) + b"yy"
    def show_pa(o):
        a = o.object_attributes
        return (o.type.name, o.name_alg.name, tuple(bool(getattr(a, n)) for n in impl.ATTR_NAMES), bytes(o.auth_policy), bytes(o.unique.value))
    kept = []
    for kind, attrs in (("RSA", 0x00050072), ("ECC", 0x00040460), ("RSA", 0xFFFFFFFF), ("ECC", 0x00000000), ("RSA", 0x00030472)):
        o = ppa(mk_pa(kind, attrs))
        kept.append((kind, attrs, o, show_pa(o)))
        for (k0, a0, o0, shown0) in kept:
            chk.evals += 1
            now_shown = show_pa(o0)
            if now_shown != shown0:
                chk.violation("an earlier parse_pub_area result changed after a later call", "pubarea-result-not-a-value",
                              {"entry": "parse_pub_area", "first_input": mk_pa(k0, a0).hex(), "later_input": mk_pa(kind, attrs).hex(), "first_result_then": repr(shown0), "first_result_now": repr(now_shown)})
    # ---- other key types, truncations, garbage: outcome class only ----
    for ty in ALG:
        if ty not in (0x0001, 0x0023):
            both("pubarea", struct.pack(">HH", ty, 0x000B) + rb(40), impl.parse_pub_area, "ERR Lib:InvalidTPMPubAreaStructure", "unsupported-type")
    for i in range(300 if quick else 20000):
        b0 = b[: rng.randrange(0, len(b))] if rng.random() < 0.5 else rb(rng.choice([0, 1, 3, 5, 9, 20, 60]))
        both("pubarea", b0, impl.parse_pub_area, None, "garbage")
        both("certinfo", b0, impl.parse_cert_info, None, "garbage")
    if R:
        R.close()
    fw.env_invariance(chk, "codec")          # the same seeded cases under -O / -OO, warnings-as-errors, other TZ / locale, a private CA bundle
    return fw.finish(chk, ob, br, TRUSTED,
                     ["layouts follow TPM 2.0 Part 2 (TPMS_ATTEST with TPMS_CERTIFY_INFO, TPMT_PUBLIC with TPMS_RSA_PARMS / TPMS_ECC_PARMS)"],
                     RULE, "coqc -Q . PW Properties/C12.v; thorough: coqchk -o")


def replay(path):
    r = json.load(open(path))
    print(json.dumps(r, indent=1)[:3000])
    return 0
