"""C06 - integrity of signed material: no single-bit change survives."""
import json, hashlib, cbor2, copy, base64
from harness import fw, impl, authsim, authcat, authrun, regsim, regcat, regrun

TRUSTED = [
    "Coq 8.16.1 kernel; theorem: any change of authenticatorData / clientDataJSON / signature of an accepted assertion is rejected UNDER the hypotheses sig_binds_msg, sig_tight, sha256 collision-freeness (premises, not axioms); the proof content is that the verifier is handed the entire raw authenticator data, the hash of the entire raw client data and the entire signature",
    "bit-level non-malleability of the signature schemes is a cryptographic idealisation: it is TESTED exhaustively over positions here, not proved",
    "extraction + driver; reference oracles",
]
RULE = ("for accepted ceremonies (authentication over the algorithms; registration over the signed statement kinds) EVERY bit position of authenticatorData, clientDataJSON and of the "
        "signature / certInfo / JWS signing input / decoded JWS signature is flipped and the result must be rejected; exhaustive over positions per ceremony. "
        "distinct_nontrivial = distinct (ceremony, part, bit position)")
KNOWN_U2F = "fido-u2f authenticatorData"


def alt_sig_forms(sig):
    import struct
    out = []
    tb = lambda b: struct.pack(">H", len(b)) + b
    is_der_ecdsa = len(sig) < 150 and sig[:1] == b"\x30"
    if is_der_ecdsa:
        try:
            from cryptography.hazmat.primitives.asymmetric.utils import decode_dss_signature
            r, s_ = decode_dss_signature(sig)
            n = 32 if max(r, s_).bit_length() <= 256 else 48 if max(r, s_).bit_length() <= 384 else 66
            rb, sb = r.to_bytes(n, "big"), s_.to_bytes(n, "big")
            for h in (0x000B, 0x000C, 0x0004):
                out.append((f"TPMT_SIGNATURE ecdsa hash={h:#06x}", struct.pack(">HH", 0x0018, h) + tb(rb) + tb(sb)))
            out.append(("fixed-width r||s", rb + sb))
        except Exception:
            pass
    else:
        for alg in (0x0014, 0x0016):
            for h in (0x000B, 0x0004):
                out.append((f"TPMT_SIGNATURE alg={alg:#06x} hash={h:#06x}", struct.pack(">HH", alg, h) + tb(sig)))
    out.append(("TPM2B-prefixed", tb(sig)))
    out.append(("CBOR byte string inside the byte string", cbor2.dumps(sig)))
    out.append(("hex text as bytes", sig.hex().encode()))
    return out


def flips(b):
    for i in range(len(b) * 8):
        x = bytearray(b)
        x[i // 8] ^= 1 << (i % 8)
        yield i, bytes(x)


def run(tier, seed):
    chk = fw.Check("C06", tier, seed)
    chk.strict_catalogue = True
    br, ob = fw.standard_prelude(chk, with_coqchk=(tier == "thorough"))
    rng = chk.rng
    quick = tier == "quick"
    A = authrun.AuthBench(chk, br)
    B = regrun.RegBench(chk, br, oracle_obj=A.O)
    import webauthn
    # ---- authentication ----
    kinds = ["ES256-P256", "RS256", "PS256", "EdDSA"] if quick else list(authsim.KINDS)
    # (credential kind, how the RP stores the key, flags byte): the stored-key encoding and the other flag bits must not matter
    configs = [(k, "cose", 0x05) for k in kinds] + [("ES256-P256", "raw-uncompressed-point", 0x01), ("ES256-P256", "raw-uncompressed-point", 0x05), ("ES256-P256", "cose", 0x01)]
    # other encodings of the stored key: IF the implementation accepts an assertion under one of them at all, every bit must still count
    configs += [("ES256-P256", "spki-der", 0x05), ("RS256", "spki-der", 0x05), ("EdDSA", "spki-der", 0x05), ("ES256-P256", "spki-pem", 0x05), ("ES256-P256", "compressed-point", 0x05)]
    configs = [c + (b"",) for c in configs]
    # client data that starts with a byte order mark / white space (hashed and signed as such): every bit of those bytes counts as well
    configs += [("ES256-P256", "cose", 0x05, b"\xef\xbb\xbf"), ("RS256", "cose", 0x05, b"\xef\xbb\xbf"), ("ES256-P256", "cose", 0x05, b" \n"), ("EdDSA", "cose", 0x01, b"\xef\xbb\xbf")]
    for kind0, stored_form, fl, cdp in configs:
        kind = kind0 if stored_form == "cose" and fl == 0x05 and not cdp else f"{kind0}/{stored_form}/flags={fl:#04x}" + (f"/client-data-prefix={cdp.hex()}" if cdp else "")
        s = authcat.Scn(kind0)
        s.flags = fl
        s.cd_prefix = cdp
        pol, a = s.build()
        if stored_form == "raw-uncompressed-point":
            n = a.cred.pk.public_numbers()
            pol = impl.AuthPolicy(pol.challenge, pol.rp_id, pol.origin, b"\x04" + n.x.to_bytes(32, "big") + n.y.to_bytes(32, "big"), pol.count, pol.require_uv)
        elif stored_form != "cose":
            from cryptography.hazmat.primitives import serialization as ser
            enc = {"spki-der": lambda k: k.public_bytes(ser.Encoding.DER, ser.PublicFormat.SubjectPublicKeyInfo), "spki-pem": lambda k: k.public_bytes(ser.Encoding.PEM, ser.PublicFormat.SubjectPublicKeyInfo),
                   "compressed-point": lambda k: k.public_bytes(ser.Encoding.X962, ser.PublicFormat.CompressedPoint)}[stored_form](a.cred.pk)
            pol = impl.AuthPolicy(pol.challenge, pol.rp_id, pol.origin, enc, pol.count, pol.require_uv)
            probe = impl.verify_auth(pol, a.as_record())
            chk.evals += 1
            chk.count(f"stored-key-form {stored_form}: " + ("accepted" if probe.startswith("OK") else "refused"))
            if not probe.startswith("OK"):
                continue            # this encoding is not a supported stored-key form: nothing to sweep
        il, _ = A.run_case(pol, a, "record", "accept", f"auth-baseline/{kind}")
        for part in ("ad", "cdj", "sig"):
            orig = getattr(a, part)
            for i, v in flips(orig):
                setattr(a, part, v)
                il = impl.verify_auth(pol, a.as_record())
                chk.evals += 1
                if il.startswith("OK"):
                    chk.violation(f"authentication: flipped bit {i} of {part} accepted ({kind})", f"auth-flip {part} {kind} bit={i}",
                                  {"entry": "verify_authentication_response", "kind": kind, "part": part, "bit": i, "policy": pol.describe(), "credential": a.as_dict()})
                elif A.R and (i % (97 if quick else 13) == 0):
                    ml = A.R.call("verifyauth " + pol.wire() + " " + impl.auth_cred_wire("record", a))
                    if not fw.exn_refines(ml, il):
                        chk.diverge("Model.verify_auth(bit flip)", f"{kind} {part} bit {i}: model {ml[:70]} impl {il[:70]}", {"kind": kind, "part": part, "bit": i})
                chk.seen(("auth", kind, part, i))
            setattr(a, part, orig)
            chk.count(f"auth:{part}", len(orig) * 8)
    # one AuthenticationCredential object verified, then one of its fields re-assigned (or the buffer behind its memoryview changed) and verified again
    for kind in ("ES256-P256", "RS256"):
        s = authcat.Scn(kind)
        s.cd_extra = {"crossOrigin": False, "pad": "x" * 20}
        pol, a = s.build()
        for mode in ("reassign", "writable-buffer", "mapped-buffer"):
            bufs = {p: bytearray(getattr(a, p)) for p in ("cdj", "ad", "sig")}
            if mode == "reassign":
                rec = a.as_record()
            elif mode == "mapped-buffer":
                # read-only views of one shared mapping (mmap / shared memory): the exporter is hashable, the views are read-only, the content still changes under them
                import mmap
                from webauthn.helpers.structs import AuthenticationCredential, AuthenticatorAssertionResponse
                mm = mmap.mmap(-1, 8192)
                spans, off = {}, 16
                for p_ in ("cdj", "ad", "sig"):
                    mm[off:off + len(bufs[p_])] = bytes(bufs[p_])
                    spans[p_] = (off, off + len(bufs[p_]))
                    off += len(bufs[p_]) + 7
                whole = memoryview(mm).toreadonly()
                views = {p_: whole[spans[p_][0]:spans[p_][1]] for p_ in spans}
                for v_ in views.values():
                    try:
                        hash(v_)
                    except Exception:
                        pass
                rec = AuthenticationCredential(id=a.id_text, raw_id=a.cred_id, response=AuthenticatorAssertionResponse(
                    client_data_json=views["cdj"], authenticator_data=views["ad"], signature=views["sig"]))

                class _Mapped:
                    def __init__(self, p_):
                        self.p = p_

                    def __getitem__(self, i):
                        return mm[spans[self.p][0] + i]

                    def __setitem__(self, i, v):
                        mm[spans[self.p][0] + i] = v
                orig_bufs = {p_: bytes(bufs[p_]) for p_ in bufs}
                bufs = {p_: _Mapped(p_) for p_ in spans}
            else:
                from webauthn.helpers.structs import AuthenticationCredential, AuthenticatorAssertionResponse
                rec = AuthenticationCredential(id=a.id_text, raw_id=a.cred_id, response=AuthenticatorAssertionResponse(
                    client_data_json=memoryview(bufs["cdj"]), authenticator_data=memoryview(bufs["ad"]), signature=memoryview(bufs["sig"])))
            first = impl.verify_auth(pol, rec)
            chk.evals += 1
            if not first.startswith("OK"):
                chk.violation(f"genuine assertion refused ({kind}, {mode})", f"auth-same-object baseline {kind}", {"impl": first})
                continue
            fields = {"cdj": "client_data_json", "ad": "authenticator_data", "sig": "signature"}
            for part, attr in fields.items():
                orig = bytes(bufs[part]) if mode != "mapped-buffer" else orig_bufs[part]
                for i in range(0, len(orig) * 8, (5 if quick else 1) * (3 if mode == "mapped-buffer" else 1)):
                    if mode == "reassign":
                        setattr(rec.response, attr, bytes(orig[: i // 8]) + bytes([orig[i // 8] ^ (1 << (i % 8))]) + orig[i // 8 + 1:])
                    else:
                        bufs[part][i // 8] ^= 1 << (i % 8)
                    il = impl.verify_auth(pol, rec)
                    chk.evals += 1
                    if il.startswith("OK"):
                        chk.violation(f"authentication: the SAME credential object with bit {i} of {part} changed after an earlier verification was accepted ({kind}, {mode})",
                                      f"auth-flip-same-object {part} {kind} {mode} bit={i}", {"entry": "verify_authentication_response", "kind": kind, "part": part, "bit": i, "mode": mode, "policy": pol.describe(), "credential": a.as_dict()})
                    if mode == "reassign":
                        setattr(rec.response, attr, orig)
                    else:
                        bufs[part][i // 8] ^= 1 << (i % 8)
                    chk.seen(("auth-same-object", kind, mode, part, i))
    chk.sample({"ceremony": "authentication ES256-P256", "parts": {"authenticatorData_bits": len(a.ad) * 8, "clientDataJSON_bits": len(a.cdj) * 8, "signature_bits": len(a.sig) * 8}})
    # ---- registration ----
    fmts = ["packed-self", "tpm", "fido-u2f", "android-safetynet"] if quick else [f for f in regsim.FORMATS if f != "none"]
    for fmt in fmts:
        for kind, ak in ((("ES256-P256", "ES256-P256"),) if quick else (("ES256-P256", "ES256-P256"), ("RS256", "RS256"))):
            if fmt == "fido-u2f" and kind != "ES256-P256":
                continue
            s = regsim.RScn(fmt, kind, ak)
            pd, reg = regsim.build(s)
            pol = regrun.policy_of(pd)
            il, _ = B.run_case(pol, reg, "record", "accept", f"reg-baseline/{fmt}/{kind}", scn=s)
            ao = cbor2.loads(reg.att_obj)
            parts = {"cdj": reg.cdj, "authData": ao["authData"]}
            st = ao["attStmt"]
            if "sig" in st:
                parts["sig"] = st["sig"]
            if "certInfo" in st:
                parts["certInfo"] = st["certInfo"]
            if "sig" in st:
                # other encodings of the statement's signature (the TPMT_SIGNATURE structure the TPM format text speaks of, fixed-width r||s, a
                # one-element CBOR array, ...): IF the implementation accepts one at all, every bit of it must still count
                for nm, alt in alt_sig_forms(st["sig"]):
                    ao2 = {"fmt": ao["fmt"], "attStmt": dict(st, sig=alt), "authData": ao["authData"]}
                    probe = impl.verify_reg(pol, regsim.Registration(reg.cred, reg.cred_id, reg.cdj, cbor2.dumps(ao2)).as_record())
                    chk.evals += 1
                    chk.count(f"signature-form {nm}/{fmt}: " + ("accepted" if probe.startswith("OK") else "refused"))
                    if probe.startswith("OK") and isinstance(alt, bytes):
                        parts[f"sig[{nm}]"] = alt
            if "response" in st:
                h, p, sg = st["response"].split(b".")
                parts["jws-signing-input"] = h + b"." + p
                parts["jws-signature"] = authsim.b64u.__globals__["base64"].urlsafe_b64decode(sg + b"===")
            for part, orig in parts.items():
                for i, v in flips(orig):
                    ao2 = {"fmt": ao["fmt"], "attStmt": dict(st), "authData": ao["authData"]}
                    cdj2 = reg.cdj
                    if part == "cdj":
                        cdj2 = v
                    elif part == "authData":
                        ao2["authData"] = v
                    elif part in ("sig", "certInfo"):
                        ao2["attStmt"][part] = v
                    elif part.startswith("sig["):
                        ao2["attStmt"]["sig"] = v
                    elif part == "jws-signing-input":
                        ao2["attStmt"]["response"] = v + b"." + sg
                    else:
                        ao2["attStmt"]["response"] = h + b"." + p + b"." + authsim.b64u(v).encode()
                    r2 = regsim.Registration(reg.cred, reg.cred_id, cdj2, cbor2.dumps(ao2))
                    il = impl.verify_reg(pol, r2.as_record())
                    chk.evals += 1
                    if il.startswith("OK"):
                        chk.violation(f"registration {fmt}: flipped bit {i} of {part} accepted", f"reg-flip {fmt} {part} bit={i}" + (" " + KNOWN_U2F if fmt == "fido-u2f" and part == "authData" else ""),
                                      {"entry": "verify_registration_response", "fmt": fmt, "kind": kind, "part": part, "bit": i, "byte": i // 8, "credential": r2.as_dict(), "policy": pol.describe()})
                    elif B.R and (i % (211 if quick else 29) == 0):
                        ml = B.R.call("verifyreg " + pol.wire() + " " + impl.reg_cred_wire("record", r2))
                        if not fw.exn_refines(ml, il):
                            chk.diverge("Model.verify_reg(bit flip)", f"{fmt} {part} bit {i}: model {ml[:70]} impl {il[:70]}", {"fmt": fmt, "part": part, "bit": i})
                    chk.seen(("reg", fmt, kind, part, i))
                chk.count(f"reg:{fmt}:{part}", len(orig) * 8)
    # the values that bind the statement to the presented data may not be shortened or emptied either (each genuinely signed / certified)
    from harness import regcat
    # ... nor may the signature cover another arrangement of the same data (part of the authenticator data, the two halves swapped, a hash of the base)
    # ... nor may the client data be hashed with another digest than SHA-256, whatever they announce about themselves ("null": not hashed at all - then NO bit of them would count)
    reps = 0
    while authcat.variants_left("client-data-announce-another-digest-and-are-hashed-with-it", scope="c06:") and reps < 40:
        reps += 1
        s = authcat.Scn(("ES256-P256", "RS256", "EdDSA")[reps % 3])
        authcat.apply(authcat.FAULTS, "client-data-announce-another-digest-and-are-hashed-with-it", s, scope="c06:")
        pol, a = s.build()
        A.run_case(pol, a, ("record", "dict", "text")[reps % 3], "reject", f"client-data-digest/{s.sign_over[1]}/{list(s.cd_extra)[-1]}={list(s.cd_extra.values())[-1]}")
    while authcat.variants_left("signed-over-another-arrangement-of-the-same-data", scope="c06:"):
        for kind in ("ES256-P256", "RS256", "EdDSA"):
            s = authcat.Scn(kind)
            authcat.apply(authcat.FAULTS, "signed-over-another-arrangement-of-the-same-data", s, scope="c06:" if kind == "ES256-P256" else f"c06-{kind}:")
            pol, a = s.build()
            A.run_case(pol, a, "record", "reject", f"signature-base/{s.sign_over}/{kind}")
    for fmt, names in (("tpm", ("extradata-empty", "extradata-truncated", "extradata-part-of-the-digest", "attested-name-empty", "attested-name-only-alg")), ("fido-u2f", ("credential-key-coordinate-longer-than-the-field", "signed-other-public-key")),
                       ("apple", ("nonce-empty", "nonce-truncated")), ("android-key", ("challenge-empty",))):
        for nm in names:
            for kind in (("ES256-P256", "RS256") if fmt != "fido-u2f" else ("ES256-P256",)):
                s = regsim.RScn(fmt, kind, kind if fmt == "tpm" else "ES256-P256")
                reps = 1
                while True:
                    authcat.apply(regcat.FORMAT_FAULTS[fmt], nm, s, scope=f"c06:{fmt}:{kind}:")
                    if not authcat.variants_left(nm, scope=f"c06:{fmt}:{kind}:") or reps > 12:
                        break
                    pd_, reg_ = regsim.build(s)
                    B.run_case(regrun.policy_of(pd_), reg_, "dict", "reject", f"binding-value/{nm}/{fmt}/{kind}", scn=s)
                    s = regsim.RScn(fmt, kind, kind if fmt == "tpm" else "ES256-P256")
                    reps += 1
                pd, reg = regsim.build(s)
                B.run_case(regrun.policy_of(pd), reg, "dict", "reject", f"binding-value/{nm}/{fmt}/{kind}", scn=s)
    # ---- large signed material: client data of 4 MiB + and 8 MiB + (one large member the RP does not read): hashed in full, so the genuine ceremony is accepted and a bit
    #      changed ANYWHERE - also beyond the first 4 / 8 MiB - is refused ----
    import hashlib as _hl
    for kind, size in (("ES256-P256", (1 << 22) + 17), ("RS256", (1 << 23) + 17), ("EdDSA", (1 << 22) + 4099)) if not quick else (("ES256-P256", (1 << 22) + 17), ("EdDSA", (1 << 23) + 17)):
        s = authcat.Scn(kind)
        s.cd_extra = {"pad": "x" * size}
        pol, a = s.build()
        il = impl.verify_auth(pol, a.as_record())
        chk.evals += 1
        if not il.startswith("OK"):
            chk.violation(f"a genuine assertion whose clientDataJSON is {len(a.cdj)} bytes long is refused: {il}", f"auth-rejects-valid large-client-data {kind}", {"entry": "verify_authentication_response", "kind": kind, "client_data_length": len(a.cdj), "impl": il,
                                                                                                                                                                       "how_to_build": "authcat.Scn(kind) with cd_extra={'pad': 'x' * size}"})
            continue
        orig = a.cdj
        for off in (len(orig) - 40, (1 << 22) + 5, (1 << 22) - 3, len(orig) // 2, (1 << 23) + 9, 200):
            if off >= len(orig) - 2:
                continue
            a.cdj = orig[:off] + bytes([orig[off] ^ 0x01]) + orig[off + 1:]
            o2 = impl.verify_auth(pol, a.as_record())
            chk.evals += 1
            if o2.startswith("OK"):
                chk.violation(f"authentication: bit 0 of byte {off} of a {len(orig)}-byte clientDataJSON changed, still accepted ({kind})", f"auth-flip large-client-data {kind} offset>={off >> 20}MiB",
                              {"entry": "verify_authentication_response", "kind": kind, "client_data_length": len(orig), "byte_offset": off, "how_to_build": "authcat.Scn(kind) with cd_extra={'pad': 'x' * size}; flip bit 0 of that byte"})
        a.cdj = orig
        chk.seen(("large-client-data", kind, size))
    for fmt in ("packed-self",) if quick else ("packed-self", "packed", "tpm"):
        s = regsim.RScn(fmt, "ES256-P256")
        s.cd_extra = {"pad": "y" * ((1 << 22) + 33)}
        pd, reg = regsim.build(s)
        P_ = regrun.policy_of(pd)
        il = impl.verify_reg(P_, reg.as_record())
        chk.evals += 1
        if not il.startswith("OK"):
            chk.violation(f"a genuine {fmt} registration whose clientDataJSON is {len(reg.cdj)} bytes long is refused: {il[:80]}", f"reg-rejects-valid large-client-data {fmt}", {"entry": "verify_registration_response", "fmt": fmt, "client_data_length": len(reg.cdj), "impl": il[:200]})
            continue
        orig = reg.cdj
        for off in (len(orig) - 40, (1 << 22) + 5, len(orig) // 2):
            reg.cdj = orig[:off] + bytes([orig[off] ^ 0x01]) + orig[off + 1:]
            o2 = impl.verify_reg(P_, reg.as_record())
            chk.evals += 1
            if o2.startswith("OK"):
                chk.violation(f"registration ({fmt}): bit 0 of byte {off} of a {len(orig)}-byte clientDataJSON changed, still accepted", f"reg-flip large-client-data {fmt}", {"entry": "verify_registration_response", "fmt": fmt, "client_data_length": len(orig), "byte_offset": off})
        reg.cdj = orig
    # ---- degenerate keys: Ed25519 public keys of SMALL ORDER (the eight points whose order divides 8, in every encoding of them) ----
    # For such a key A the verification equation S*B = R + H(R,A,M)*A loses (most of) its dependence on the message: with A the identity, the signature (R = identity, S = 0)
    # verifies for EVERY message.  A credential that registered such a key (fmt none accepts any well-formed key) therefore authenticates with one fixed signature whatever
    # the authenticator data and client data say - the statement of C06 fails for it.  Finding F12 (known_findings.json: listed by key encoding; any OTHER key is still reported).
    import cbor2 as _cb
    P_ = 2 ** 255 - 19
    ys = [0, 1, 2707385501144840649318225287225658788936804267575313519463743609750303402022, 55188659117513257062467267217118295137698188065244968500265048394206261417927, P_ - 1, P_, P_ + 1]
    small_order = [(y | (sgn << 255)).to_bytes(32, "little") for y in ys for sgn in (0, 1)]
    # a key that is NOT of small order, for contrast (the base point): with it no (R, 0) signature verifies, and nothing below may report it
    probe_keys = small_order + [bytes.fromhex("5866666666666666666666666666666666666666666666666666666666666666")]
    s = authcat.Scn("EdDSA")
    s.cd_extra = {"pad": "x" * 12}
    pol0, a0 = s.build()
    weak_hits = 0
    for K in probe_keys:
        stored = _cb.dumps({1: 1, 3: -8, -1: 6, -2: K})
        polK = impl.AuthPolicy(pol0.challenge, pol0.rp_id, pol0.origin, stored, pol0.count, pol0.require_uv)
        sig_ok = None
        for R_ in small_order:
            a0.sig = R_ + bytes(32)
            chk.evals += 1
            if impl.verify_auth(polK, a0.as_record()).startswith("OK"):
                sig_ok = a0.sig
                break
        if sig_ok is None:
            continue
        weak_hits += 1
        reported_ = False
        for part in ("cdj", "ad"):
            orig = getattr(a0, part)
            for i in range(0, len(orig) * 8, 3 if quick else 1):
                setattr(a0, part, orig[: i // 8] + bytes([orig[i // 8] ^ (1 << (i % 8))]) + orig[i // 8 + 1:])
                il = impl.verify_auth(polK, a0.as_record())
                chk.evals += 1
                if il.startswith("OK") and not reported_:
                    reported_ = True
                    chk.violation(f"authentication under the stored Ed25519 key {K.hex()} (a point of small order): the fixed signature {sig_ok.hex()[:16]}...00 is accepted, and still accepted with bit {i} of {part} changed",
                                  f"auth-flip small-order-ed25519-key key={K.hex()} {part}", {"entry": "verify_authentication_response", "policy": polK.describe(), "credential": a0.as_dict(), "part": part, "bit": i})
            setattr(a0, part, orig)
    chk.notes.append({"ed25519_small_order_keys_under_which_a_fixed_signature_verifies": weak_hits, "of": len(small_order)})
    chk.exhaustive = True
    A.close(); B.close()
    fw.env_invariance(chk, "auth", "reg")          # the same seeded cases under -O / -OO, warnings-as-errors, other TZ / locale, a private CA bundle
    return fw.finish(chk, ob, br, TRUSTED,
                     ["for android-safetynet the flipped objects are the JWS signing input (header.payload text) and the DECODED signature bytes; the base64url text of the signature part is "
                      "decoded leniently by design (unused trailing bits), which is outside the signed material",
                      "fido-u2f: the U2F signature base of the WebAuthn specification covers rpIdHash, clientDataHash, credentialId and the public key only - see known findings"],
                     RULE, "coqc -Q . PW Properties/C06.v; thorough: coqchk -o")


def replay(path):
    print(open(path).read()[:3000])
    return 0
