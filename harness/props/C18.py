"""C18 - stateless API: no history, aliasing or thread interference."""
import contextlib
import json, copy, hashlib, threading, random as pyrandom
from harness import fw, impl, authsim, authcat, authrun, regsim, regcat, regrun, oracle

TRUSTED = [
    "Coq 8.16.1 kernel; the model's verifiers are pure functions (history-free by construction); Heap.v states the list-aliasing discipline (fresh root list per call, fresh default-parameter list per call) and proves the frame / history-freedom theorems by induction over histories",
    "thread interleavings inside C extensions and the GIL are NOT modelled: the 16-thread run is a test",
    "extraction + driver; reference oracles",
]
RULE = ("random histories of mixed valid / invalid registration, authentication and option-generation calls drawn from a pool (every call spec recurs at several positions), results of earlier "
        "calls mutated in place between calls, argument objects deep-compared before/after each call, each outcome compared with the first outcome of the same call spec and with the model; "
        "16 threads executing shuffled copies of the call set. distinct_nontrivial = distinct (call spec, position class) pairs")
T0 = regsim.T0


def deep(o):
    return copy.deepcopy(o)


def build_pool(rng, quick):
    """-> list of (key, kind, make_args) ; make_args() returns fresh (callable, argobjects dict, model_cmd or None)"""
    pool = []
    import webauthn
    # authentication specs
    for kind in (["ES256-P256", "RS256", "EdDSA"] if quick else list(authsim.KINDS)):
        for fault in (None, "challenge-other", "counter-equal", "signed-by-other-key"):
            s = authcat.Scn(kind)
            if fault:
                authcat.FAULTS[fault](s, rng)
            pol, a = s.build()
            pool.append((f"auth/{kind}/{fault}", "auth", pol, a))
            if fault in (None, "signed-by-other-key"):
                # the RP's list of expected origins is long, shared between calls, and the match sits deep inside it
                s2 = authcat.Scn(kind)
                if fault:
                    authcat.FAULTS[fault](s2, rng)
                s2.exp_origin = authcat.long_origin_list(s2.origin, 40 if kind != "RS256" else 300)
                pol2, a2 = s2.build()
                pool.append((f"auth/{kind}/{fault}/long-origin-list", "auth", pol2, a2))
        # corrupt stored keys, assertion genuinely signed
        s = authcat.Scn(kind)
        pol, a = s.build()
        for nm, bad in (("kty9", b"\xa2\x01\x09\x03\x26"), ("truncated", pol.pubkey[:-3]), ("empty-map", b"\xa0")):
            p2 = impl.AuthPolicy(pol.challenge, pol.rp_id, pol.origin, bad, pol.count, False)
            pool.append((f"auth/{kind}/badkey-{nm}", "auth", p2, a))
    ok_built = {}
    # registration specs (incl. RP-supplied roots for the built-in-root formats: argument aliasing)
    for fmt in regsim.FORMATS:
        for variant in ("ok", "rp-only", "untrusted", "other-fmt", "fault", "ok-later", "expired"):
            s = regsim.RScn(fmt, "ES256-P256")
            s.n_inter = 0 if fmt == "fido-u2f" else 1
            if variant == "rp-only":
                if fmt not in ("apple", "android-key", "android-safetynet"):
                    continue
                s.roots_mode = "rp-only"
            if variant == "other-fmt":
                # the RP's mapping has entries for ANOTHER format only (and is a defaultdict / plain dict alternately): it must come back untouched
                if fmt not in regsim.X5C_FORMATS:
                    continue
                s.roots_mode = "other-fmt"
            if variant == "untrusted":
                # the very response of "rp-only", presented without the RP root that carried its trust: whatever an earlier call was given must not linger
                if fmt not in regsim.X5C_FORMATS:
                    continue
                s.roots_mode = "none"
            if variant in ("ok-later", "expired"):
                # the very response of "ok" (same bytes, same anchors) presented at another clock, inside / outside the certificates'
                # validity: the verdict follows the clock of THIS call whatever an earlier call established
                if fmt not in regsim.X5C_FORMATS or fmt == "android-safetynet":
                    continue
                pd_ok, reg_ok = ok_built[fmt]
                pool.append((f"reg/{fmt}/{variant}", "reg", regrun.policy_of(dict(pd_ok, now=T0 + (3 * regsim.DAY if variant == "ok-later" else 400 * regsim.DAY))), reg_ok))
                continue
            if variant == "fault":
                regcat.c_challenge_other(s, rng)
            if fmt in ("packed", "tpm", "fido-u2f") and variant in ("ok", "ok-later", "expired"):
                s.roots_mode = "several"
            s.exp_origin = [s.origin, "https://second.example"] if fmt not in ("none", "packed", "apple") else authcat.long_origin_list(s.origin, 40)
            s.algs = [-7, -257, -8]
            pd, reg = regsim.build(s)
            if variant == "ok":
                ok_built[fmt] = (pd, reg)
            pool.append((f"reg/{fmt}/{variant}", "reg", regrun.policy_of(pd), reg))
    # genuine recorded attestations that chain to the REAL built-in anchors (no substitution), inside and outside their validity
    import os
    V = json.load(open(os.path.join(os.path.dirname(os.path.dirname(os.path.abspath(__file__))), "realvec.json")))
    class RealCred:
        def __init__(self, d): self.d = d
        def as_dict(self): return copy.deepcopy(self.d)
    for fmt, v in V.items():
        for variant, dt in (("ok", 0), ("expired", 400 * regsim.DAY)):
            pool.append((f"real/{fmt}/{variant}", "reg", impl.RegPolicy(bytes.fromhex(v["challenge"]), v["rp_id"], v["origin"], now=v["now"] + dt), RealCred(v["credential"])))
    # responses whose CBOR uses shareable values / shared references (tags 28, 29): state inside a decoder must not link one call to another
    import cbor2
    cdj_n = authsim.client_data("webauthn.create", b"\x01\x02challenge", "https://example.com")
    def none_reg(authdata_tail):
        ad = hashlib.sha256(b"example.com").digest() + b"\x41" + b"\x00\x00\x00\x05" + bytes(16) + b"\x00\x04" + b"cid1" + authdata_tail
        ao = cbor2.dumps({"fmt": "none", "attStmt": {}, "authData": ad})
        return regsim.Registration(authsim.Cred("ES256-P256"), b"cid1", cdj_n, ao)
    kx = authsim.Cred("ES256-P256").cose
    pol_n = impl.RegPolicy(b"\x01\x02challenge", "example.com", "https://example.com")
    pool.append(("reg/cbor-shareable-x-coordinate", "reg", pol_n, none_reg(b"\xa5\x01\x02\x03\x26\x20\x01\x21\xd8\x1c\x58\x20" + kx[-2] + b"\x22\xd8\x1c\x58\x20" + kx[-3])))
    pool.append(("reg/cbor-dangling-shared-references", "reg", pol_n, none_reg(b"\xa5\x01\x02\x03\x26\x20\x01\x21\xd8\x1d\x00\x22\xd8\x1d\x01")))
    pool.append(("reg/cbor-key-is-a-shared-reference", "reg", pol_n, none_reg(b"\xd8\x1d\x00")))
    # credential RECORDS whose binary fields are memoryviews, the same objects presented again and again
    from webauthn.helpers.structs import AuthenticationCredential, AuthenticatorAssertionResponse, RegistrationCredential, AuthenticatorAttestationResponse
    s = authcat.Scn("ES256-P256")
    pol, a = s.build()
    pool.append(("auth-record-memoryviews/ok", "auth-mv", pol, AuthenticationCredential(id=a.id_text, raw_id=memoryview(a.cred_id), response=AuthenticatorAssertionResponse(
        client_data_json=memoryview(a.cdj), authenticator_data=memoryview(a.ad), signature=memoryview(a.sig)))))
    rs = regsim.RScn("packed-self", "ES256-P256")
    pd, reg = regsim.build(rs)
    pool.append(("reg-record-memoryviews/ok", "reg-mv", regrun.policy_of(pd), RegistrationCredential(id=reg.id_text, raw_id=memoryview(reg.cred_id), response=AuthenticatorAttestationResponse(
        client_data_json=memoryview(reg.cdj), attestation_object=memoryview(reg.att_obj)))))
    for j in range(3):
        pool.append((f"genreg/{j}", "genreg", None, None))
        pool.append((f"genauth/{j}", "genauth", None, None))
    return pool


def run_spec(spec, O=None, R=None):
    """Execute one call; returns (outcome_line, violations:list[str], result_object)"""
    import webauthn
    from webauthn.helpers.structs import AuthenticatorSelectionCriteria, PublicKeyCredentialDescriptor, ResidentKeyRequirement, AuthenticatorTransport
    key, kind, pol, obj = spec
    viol = []
    res = None
    if kind == "auth":
        cred = obj.as_dict()
        kw = pol.kwargs()
        if not isinstance(kw["expected_origin"], str):
            kw["expected_origin"] = list(kw["expected_origin"])
        before = deep((cred, kw))
        try:
            res = webauthn.verify_authentication_response(credential=cred, **kw)
            out = "OK " + impl.pr_verified_auth(res)
        except Exception as e:
            out = "ERR " + fw.classify_exc(e)
        if (cred, kw) != before:
            viol.append("verify_authentication_response modified its arguments")
    elif kind == "reg":
        cred = obj.as_dict()
        kw = pol.kwargs()
        if kw.get("pem_root_certs_bytes_by_fmt") is not None and (len(key) % 2 or key.endswith("/other-fmt")):
            # mapping types an RP may well use: the mapping must be left alone whatever its type
            import collections
            m = collections.defaultdict(list)
            m.update(kw["pem_root_certs_bytes_by_fmt"])
            kw["pem_root_certs_bytes_by_fmt"] = m
        before = deep((cred, kw))
        before_keys = None if kw.get("pem_root_certs_bytes_by_fmt") is None else sorted(map(str, kw["pem_root_certs_bytes_by_fmt"].keys()))
        try:
            res = webauthn.verify_registration_response(credential=cred, **kw)
            out = "OK " + impl.pr_verified_reg(res)
        except Exception as e:
            out = "ERR " + fw.classify_exc(e)
        if (cred, kw) != before or (before_keys is not None and sorted(map(str, kw["pem_root_certs_bytes_by_fmt"].keys())) != before_keys):
            viol.append("verify_registration_response modified the expectations / allowed algorithms / trust-anchor mapping it was passed")
    elif kind in ("auth-mv", "reg-mv"):
        kw = pol.kwargs()
        fields = [obj.raw_id, obj.response.client_data_json] + ([obj.response.authenticator_data, obj.response.signature] if kind == "auth-mv" else [obj.response.attestation_object])
        def snap():
            try:
                return [bytes(f) for f in fields]
            except Exception as e:
                return "unreadable: " + type(e).__name__
        before = snap()
        try:
            res = (webauthn.verify_authentication_response if kind == "auth-mv" else webauthn.verify_registration_response)(credential=obj, **kw)
            out = "OK " + (impl.pr_verified_auth(res) if kind == "auth-mv" else impl.pr_verified_reg(res))
        except Exception as e:
            out = "ERR " + fw.classify_exc(e)
        if snap() != before:
            viol.append("verification modified (or released) the credential record it was passed")
        res = None
    elif kind == "genreg":
        j = int(key.split("/")[1])
        kw = dict(rp_id="example.com", rp_name="Example", user_name=f"user{j}", challenge=b"c" * 16, user_id=b"u" * 8)
        if j == 1:
            kw["exclude_credentials"] = [PublicKeyCredentialDescriptor(id=b"x" * 8, transports=[AuthenticatorTransport.USB])]
        if j == 2:
            kw["supported_pub_key_algs"] = [webauthn.helpers.cose.COSEAlgorithmIdentifier.ECDSA_SHA_256]
        try:
            res = webauthn.generate_registration_options(**kw)
            out = "OK " + json.dumps(json.loads(webauthn.options_to_json(res)), sort_keys=True)
        except Exception as e:
            out = "ERR " + fw.classify_exc(e)
    else:
        j = int(key.split("/")[1])
        kw = dict(rp_id="example.com", challenge=b"d" * 16)
        if j == 1:
            kw["allow_credentials"] = [PublicKeyCredentialDescriptor(id=b"y" * 8)]
        try:
            res = webauthn.generate_authentication_options(**kw)
            out = "OK " + json.dumps(json.loads(webauthn.options_to_json(res)), sort_keys=True)
        except Exception as e:
            out = "ERR " + fw.classify_exc(e)
    return out, viol, res


def vandalise(res, rng):
    """what an earlier caller may do to the object it was given back: every kind of in-place edit, every time"""
    try:
        if hasattr(res, "pub_key_cred_params"):
            for p in list(res.pub_key_cred_params):           # element-level edits (shared elements would carry them into later results)
                try:
                    p.alg = -65535
                    p.type = "vandalised"
                except Exception:
                    pass
            if res.pub_key_cred_params and rng.random() < 0.5:
                res.pub_key_cred_params.pop()
            else:
                res.pub_key_cred_params.clear()
            res.exclude_credentials.append("junk")
            if getattr(res, "hints", None) is not None:
                res.hints.append("junk")
            if getattr(res, "authenticator_selection", None) is not None:
                res.authenticator_selection.require_resident_key = "vandalised"
            res.rp.name = "vandalised"
            res.user.name = "vandalised"
        elif hasattr(res, "allow_credentials"):
            for d in list(res.allow_credentials or []):
                try:
                    d.id = b"vandalised"
                    if d.transports:
                        d.transports.append("junk")
                except Exception:
                    pass
            res.allow_credentials.append("junk")
            res.rp_id = "vandalised"
        elif hasattr(res, "credential_id"):
            res.credential_id = b"vandalised"
            if hasattr(res, "fmt"):
                res.fmt = "vandalised"
    except Exception:
        pass


def run(tier, seed):
    chk = fw.Check("C18", tier, seed)
    br, ob = fw.standard_prelude(chk, with_coqchk=(tier == "thorough"))
    rng = chk.rng
    impl.KEEP_ENABLED = False          # this check edits the objects it is handed (on purpose) and checks value semantics itself
    quick = tier == "quick"
    pool = build_pool(rng, quick)
    spy = fw.GlobalStateSpy()
    spy.__enter__()
    O = oracle.Oracle()
    R = fw.Runner(O) if br.runner_ok else None
    # all registration specs share the substituted anchors of PKI "A" and the clock T0
    builtin = {"apple": [regsim.PKI("A", n_inter=1).root_pem()], "android-key": [regsim.PKI("A", n_inter=1).root_pem()], "android-safetynet": [regsim.PKI("A", n_inter=1).root_pem()]}
    first = {}

    def model_of(spec):
        key, kind, pol, obj = spec
        if not R or kind not in ("auth", "reg"):
            return None
        if kind == "auth":
            return R.call("verifyauth " + pol.wire() + " D " + impl.json_to_wire(obj.as_dict()))
        return R.call("verifyreg " + pol.wire() + " D " + impl.json_to_wire(obj.as_dict()))

    def one(spec, pos, hist):
        key, kind, pol, obj = spec
        sub = pol.substitute if kind in ("reg", "reg-mv") else None
        with impl.substituted(sub, pol.now if kind in ("reg", "reg-mv") else T0):
            out, viol, res = run_spec(spec)
        chk.evals += 1
        for v in viol:
            chk.violation(v, f"args-modified {key}", {"call": key, "history": hist[-12:]})
        if key in first and first[key] != out:
            chk.violation(f"call {key} gave another outcome at position {pos} of a history than before", f"history-dependent {key.split('/')[0]}/{key.split('/')[-1]}",
                          {"call": key, "first_outcome": first[key][:200], "this_outcome": out[:200], "history": hist[-12:]})
        if key not in first:
            first[key] = out
            ml = model_of(spec)
            if ml is not None and not fw.exn_refines(ml, out):
                chk.diverge("Model (history position 0)", f"{key}: model {ml[:80]} impl {out[:80]}", {"call": key})
        chk.seen((key, min(pos, 3)))
        chk.count(kind + ":" + ("OK" if out.startswith("OK") else out[4:]))
        return res

    # reference outcome of every call spec in a PRISTINE process state: each is executed in a forked child of this
    # process before any call has been made here, so that no earlier call can have influenced it
    import os
    for spec in pool:
        key, kind, pol, obj = spec
        if kind not in ("auth", "reg", "auth-mv", "reg-mv"):
            continue
        rfd, wfd = os.pipe()
        pid = os.fork()
        if pid == 0:
            try:
                os.close(rfd)
                with impl.substituted(pol.substitute if kind in ("reg", "reg-mv") else None, pol.now if kind in ("reg", "reg-mv") else T0):
                    out = run_spec(spec)[0]
                os.write(wfd, out.encode("utf-8", "replace"))
            finally:
                os._exit(0)
        os.close(wfd)
        buf = b""
        while True:
            b = os.read(rfd, 65536)
            if not b:
                break
            buf += b
        os.close(rfd)
        os.waitpid(pid, 0)
        if buf:
            first[key] = buf.decode("utf-8", "replace")
            ml = model_of(spec)
            if ml is not None and not fw.exn_refines(ml, first[key]):
                chk.diverge("Model (pristine process)", f"{key}: model {ml[:80]} impl {first[key][:80]}", {"call": key})
    # first use of each format in a process, with a second thread making the same call between every two lines of the first (lazy initialisation races):
    # executed in a forked child of this still pristine process; both threads must see the pristine single-threaded outcome
    for spec in pool:
        key, kind, pol, obj = spec
        if kind != "reg" or not key.endswith(("/ok", "/untrusted", "/fault")) or key not in first:
            continue
        rfd, wfd = os.pipe()
        pid = os.fork()
        if pid == 0:
            try:
                os.close(rfd)
                import signal
                signal.alarm(120)          # (a child that cannot finish is killed and reported by the parent as "did not report")
                with impl.substituted(pol.substitute, pol.now):
                    oa, obs, n = fw.interleaved(lambda: run_spec(spec)[0], lambda: run_spec(spec)[0])
                os.write(wfd, json.dumps([oa, sorted(set(obs)), n]).encode())
            finally:
                os._exit(0)
        os.close(wfd)
        buf = b""
        while True:
            b = os.read(rfd, 65536)
            if not b:
                break
            buf += b
        os.close(rfd)
        os.waitpid(pid, 0)
        chk.evals += 1
        try:
            oa, obs, n = json.loads(buf.decode())
        except Exception:
            chk.diverge("interleaved first use (forked child)", f"{key}: the child did not report ({buf[:100]!r})", {"call": key})
            continue
        bad = [o for o in [oa] + obs if o != first[key]]
        if bad:
            chk.violation(f"first use of {key} in a process, with a second thread making the same call in between: outcome {bad[0][:60]} instead of {first[key][:60]}", f"interleaved-first-use {key.split('/')[1]}/{key.split('/')[-1]}",
                          {"call": key, "schedule": "thread B runs the complete call at a line boundary of thread A's call (all boundaries tried in one run)", "switch_points": n, "outcomes": [oa] + obs, "single_threaded": first[key]})
        chk.seen(("interleaved-first-use", key))
    nh, L = (25, 30) if quick else (300, 100)
    for h in range(nh):
        hist = []
        for pos in range(L):
            spec = pool[rng.randrange(len(pool))]
            if rng.random() < 0.25 and hist:
                spec = next(s for s in pool if s[0] == hist[-1])      # immediate repetition of the previous call
            hist.append(spec[0])
            res = one(spec, pos, hist)
            if res is not None:
                vandalise(res, rng)
        if h == 0:
            chk.sample({"history": hist[:12]})
    # ONE credential record object verified, then its fields re-assigned to those of another ceremony and verified again (and back): every verification reads the record as
    # it is NOW - the outcome equals that of a freshly built record with the same fields
    import copy as _copy
    from webauthn.helpers.structs import AuthenticationCredential as _AC, AuthenticatorAssertionResponse as _AAR, RegistrationCredential as _RC, AuthenticatorAttestationResponse as _ATR
    import webauthn as _w
    for kind in ("auth", "reg"):
        mk = []
        for i in range(2):
            if kind == "auth":
                s_ = authcat.Scn("ES256-P256"); s_.challenge = b"record-reuse-challenge-%d" % i
                pol_, a_ = s_.build()
                mk.append((pol_, a_, lambda a_=a_: _AC(id=a_.id_text, raw_id=a_.cred_id, response=_AAR(client_data_json=a_.cdj, authenticator_data=a_.ad, signature=a_.sig))))
            else:
                s_ = regsim.RScn("none", "ES256-P256"); s_.challenge = b"record-reuse-challenge-%d" % i
                pd_, r_ = regsim.build(s_)
                mk.append((regrun.policy_of(pd_), r_, lambda r_=r_: _RC(id=r_.id_text, raw_id=r_.cred_id, response=_ATR(client_data_json=r_.cdj, attestation_object=r_.att_obj))))
        def ver(pol_, rec_):
            try:
                if kind == "auth":
                    return "OK " + impl.pr_verified_auth(_w.verify_authentication_response(credential=rec_, **pol_.kwargs()))
                with impl.substituted(pol_.substitute, pol_.now):
                    return "OK " + impl.pr_verified_reg(_w.verify_registration_response(credential=rec_, **pol_.kwargs()))
            except Exception as e:
                return "ERR " + fw.classify_exc(e)
        rec = mk[0][2]()
        trace = []
        for step, (src, polx) in enumerate(((0, 0), (1, 0), (1, 1), (0, 1), (0, 0))):
            fresh = mk[src][2]()
            for f_ in ("client_data_json", "authenticator_data", "signature", "attestation_object"):
                if hasattr(fresh.response, f_):
                    setattr(rec.response, f_, getattr(fresh.response, f_))
            got, want = ver(mk[polx][0], rec), ver(mk[polx][0], fresh)
            trace.append((src, polx, got[:40]))
            chk.evals += 2
            if got != want:
                chk.violation(f"a {kind} credential record that was verified before and then given the fields of another ceremony is judged differently from a fresh record with the same fields: {got[:50]} instead of {want[:50]}",
                              f"record-object-reuse {kind}", {"history": trace, "reused_record_outcome": got, "fresh_record_outcome": want})
                break
    # the RP's policy kept in long-lived lists which it edits IN PLACE when the policy changes (same object, same length): every call reads the lists as they are now
    for kind in ("auth", "reg"):
        for i in range(3):
            if kind == "auth":
                s_ = authcat.Scn(("ES256-P256", "EdDSA", "RS256")[i]); s_.challenge = b"policy-reuse-challenge-%d" % i
                s_.exp_origin = [s_.origin, "https://second.example", "https://third.example"][: i + 1] if i else s_.origin
                pol_, a_ = s_.build()
                val_, cdj_, entry_, pr_ = a_.as_record(), a_.cdj, _w.verify_authentication_response, impl.pr_verified_auth
            else:
                s_ = regsim.RScn("none", ("ES256-P256", "EdDSA", "RS256")[i]); s_.challenge = b"policy-reuse-challenge-%d" % i
                pd_, r_ = regsim.build(s_)
                pol_ = regrun.policy_of(pd_)
                if i:
                    pol_.origin = [pol_.origin, "https://second.example", "https://third.example"][: i + 1]
                val_, cdj_, entry_, pr_ = r_.as_dict(), r_.cdj, _w.verify_registration_response, impl.pr_verified_reg
            with impl.substituted(getattr(pol_, "substitute", {}), getattr(pol_, "now", None)) if kind == "reg" else contextlib.nullcontext():
                base = impl.outcome(lambda: entry_(credential=val_, **pol_.kwargs()), pr_)
                # the policy that is in force now does NOT include this response's origin any more (it did a moment ago, in the same list object)
                import copy as _cp
                pol2 = _cp.copy(pol_)
                pol2.origin = ["https://new-tenant.example"] + (list(pol_.origin[1:]) if isinstance(pol_.origin, list) else [])
                fresh = impl.outcome(lambda: entry_(credential=val_, **pol2.kwargs()), pr_)
                reused = impl.reused_policy_containers(entry_, pol2, val_, cdj_, pr_)
                reused_same = impl.reused_policy_containers(entry_, pol_, val_, cdj_, pr_)
            chk.evals += 6
            if reused != fresh or reused_same != base:
                chk.violation(f"a {kind} call made with the RP's long-lived expected-origin list, edited in place since an earlier call, is judged by the list's EARLIER content: {str(reused)[:50]} / {str(reused_same)[:50]} instead of {fresh[:50]} / {base[:50]}",
                              f"policy-list-edited-in-place {kind}", {"kind": kind, "outcome_with_reused_list": reused, "outcome_with_fresh_list": fresh, "expected_origin_now": pol2.origin})
                break
    # what registration RETURNED, used the way an RP uses it - helpers called on the returned objects, the helpers' results edited, and then the returned objects THEMSELVES (not
    # copies of them) handed to authentication: the outcome is that of equal plain values
    from webauthn.helpers import decode_credential_public_key as _dcpk, parse_attestation_object as _pao
    for i, kindk in enumerate(("ES256-P256", "EdDSA", "RS256")):
        s_ = regsim.RScn(("none", "packed", "none")[i], kindk); s_.challenge = b"returned-object-challenge-%d" % i
        pd_, r_ = regsim.build(s_)
        polr = regrun.policy_of(pd_)
        try:
            with impl.substituted(polr.substitute, polr.now):
                vr = _w.verify_registration_response(credential=r_.as_dict(), **polr.kwargs())
        except Exception:
            continue
        key_obj, id_obj = vr.credential_public_key, vr.credential_id
        plain_key, plain_id = bytes(bytearray(key_obj)), bytes(bytearray(id_obj))
        for helper, arg in ((_dcpk, key_obj), (_pao, vr.attestation_object)):
            try:
                impl.vandalise_any(helper(arg))
                impl.vandalise_any(helper(arg))
            except Exception:
                pass
        for attr_owner in (key_obj, id_obj, vr.attestation_object):
            try:
                for v_ in list(vars(attr_owner).values()):
                    impl.vandalise_any(v_)
            except TypeError:
                pass
        cred = authsim.Cred(kindk, slot=getattr(s_, "cred_slot", 0))
        s2 = authcat.Scn(kindk); s2.challenge = b"returned-object-auth-%d" % i; s2.rp_id = s_.rp_id; s2.cred_id = plain_id
        pol_a, a_ = s2.build()
        if cred.cose_bytes != plain_key:
            continue
        outs = []
        for key_arg, id_arg in ((key_obj, id_obj), (plain_key, plain_id)):
            from webauthn.helpers.structs import AuthenticationCredential as _AC2, AuthenticatorAssertionResponse as _AAR2
            rec_ = _AC2(id=a_.id_text, raw_id=id_arg, response=_AAR2(client_data_json=a_.cdj, authenticator_data=a_.ad, signature=a_.sig))
            kw_ = dict(pol_a.kwargs(), credential_public_key=key_arg)
            outs.append(impl.outcome(lambda: _w.verify_authentication_response(credential=rec_, **kw_), impl.pr_verified_auth))
        chk.evals += 3
        if outs[0] != outs[1] or not outs[1].startswith("OK"):
            chk.violation(f"authentication with the very objects registration returned (after helper results obtained from them were edited) differs from authentication with equal plain bytes: {outs[0][:60]} instead of {outs[1][:60]}",
                          f"returned-objects-fed-back {kindk}", {"kind": kindk, "with_returned_objects": outs[0], "with_plain_bytes": outs[1], "stored_key": plain_key.hex()})
    # "the clock" is the clock at the time of the call - not at import, first use or any earlier call: a certificate that becomes valid (another that expires) while this
    # process runs changes verdict accordingly (real clock, nothing substituted)
    from harness import realclock
    realclock.boundary_crossed_while_running(chk)
    # new public API of the changed source (if any), used or abused, must not change what the existing entry points do
    probe_specs = [s_ for s_ in pool if s_[1] in ("auth", "reg") and s_[0].endswith(("/None", "/ok", "/signed-by-other-key", "/fault", "/challenge-other"))][:14]
    def _probe():
        out = []
        for s_ in probe_specs:
            key_, kind_, pol_, obj_ = s_
            with impl.substituted(pol_.substitute if kind_ == "reg" else None, pol_.now if kind_ == "reg" else T0):
                out.append((key_, run_spec(s_)[0]))
        return out
    def _inside():
        import webauthn as _w3
        for s_ in probe_specs:
            key_, kind_, pol_, obj_ = s_
            if key_.endswith(("/signed-by-other-key", "/fault", "/challenge-other")):
                with impl.substituted(pol_.substitute if kind_ == "reg" else None, pol_.now if kind_ == "reg" else T0):
                    (_w3.verify_authentication_response if kind_ == "auth" else _w3.verify_registration_response)(credential=obj_.as_dict(), **pol_.kwargs())      # raises: on purpose
    fw.exercise_new_api(chk, _probe, _inside)
    # long runs: many DISTINCT ceremonies (more than any small cache holds: 300, plus every count the changed source newly mentions), then the first ones again and
    # tampered copies of them; and the same accepted / refused pair repeated that often
    from harness import srcdict
    runs = [300] + [n + 2 for n in srcdict.thresholds() if n <= 5000][:3]
    for total in runs:
        firsts = []
        for i in range(total):
            s_ = authcat.Scn(("ES256-P256", "EdDSA")[i % 2])
            s_.challenge = b"long-run-" + i.to_bytes(4, "big") + bytes(12)
            s_.cred_id = b"cred-" + (i % 7).to_bytes(2, "big")
            s_.count, s_.stored = i + 1, i
            pol_, a_ = s_.build()
            out_ = impl.verify_auth(pol_, a_.as_record())
            chk.evals += 1
            if i < 6 or i % 97 == 0:
                firsts.append((pol_, a_, out_))
            if not out_.startswith("OK"):
                chk.violation(f"conformant assertion number {i + 1} of a long run refused: {out_[:60]}", f"long-run refused-valid", {"position": i + 1, "outcome": out_})
                break
        for pol_, a_, out_ in firsts:
            again = impl.verify_auth(pol_, a_.as_record())
            ad0 = a_.ad
            a_.ad = ad0[:36] + bytes([ad0[36] ^ 1])
            tampered = impl.verify_auth(pol_, a_.as_record())
            a_.ad = ad0
            chk.evals += 2
            if again != out_ or tampered.startswith("OK"):
                chk.violation(f"after a run of {total} distinct ceremonies: " + (f"an earlier call gives {again[:50]} instead of {out_[:50]}" if again != out_ else "a tampered copy of an earlier accepted assertion is accepted"),
                              "long-run history", {"run_length": total, "first_outcome": out_, "again": again, "tampered_copy": tampered})
                break
        ok_spec = next(s for s in pool if s[0] == "auth/ES256-P256/None")
        bad_spec = next(s for s in pool if s[0] == "auth/ES256-P256/signed-by-other-key")
        for i in range(total):
            for sp in (ok_spec, bad_spec):
                o_ = run_spec(sp)[0]
                if o_ != first[sp[0]]:
                    chk.violation(f"repetition {i + 1} of call {sp[0]} gives {o_[:50]} instead of {first[sp[0]][:50]}", f"repetition-dependent {sp[0].split('/')[-1]}", {"call": sp[0], "repetition": i + 1, "outcome": o_, "first": first[sp[0]]})
                    break
            else:
                continue
            break
        chk.evals += 2 * total
    # pooled request buffers: the binary fields of a credential record are bytearrays which the caller refills as soon as the call has returned - results handed out
    # earlier must not read from them (raw_id excepted: `credential.raw_id` is echoed as `credential_id`, the caller's own object)
    from webauthn.helpers.structs import AuthenticationCredential as _AC, AuthenticatorAssertionResponse as _AAR, RegistrationCredential as _RC, AuthenticatorAttestationResponse as _ATR
    import webauthn as _w
    for spec in pool:
        key, kind, pol, obj = spec
        if kind not in ("auth", "reg") or not key.endswith(("/ok", "/None")):
            continue
        bufs = []
        def pooled(b):
            bufs.append(bytearray(b))
            return bufs[-1]
        try:
            with impl.substituted(pol.substitute if kind == "reg" else None, pol.now if kind == "reg" else T0):
                if kind == "auth":
                    a = obj
                    cred = _AC(id=a.id_text, raw_id=a.cred_id, response=_AAR(client_data_json=pooled(a.cdj), authenticator_data=pooled(a.ad), signature=pooled(a.sig), user_handle=a.user_handle))
                    res = _w.verify_authentication_response(credential=cred, **pol.kwargs())
                else:
                    r_ = obj
                    cred = _RC(id=r_.id_text, raw_id=r_.cred_id, response=_ATR(client_data_json=pooled(r_.cdj), attestation_object=pooled(r_.att_obj)))
                    res = _w.verify_registration_response(credential=cred, **pol.kwargs())
        except Exception:
            continue
        before = impl.dump(res)
        for ba in bufs:
            ba[:] = b"\xee" * len(ba)
        after = impl.dump(res)
        chk.evals += 1
        if before != after:
            chk.violation(f"the result of {key} changed when the caller refilled the buffers it had passed in (the result shares memory with the caller's input)", f"result-aliases-input {key.split('/')[0]}/{key.split('/')[1]}",
                          {"call": key, "history": "verify with bytearray fields; overwrite those bytearrays; read the result again", "before": before[:500], "after": after[:500]})
    # 16 threads, shuffled copies of the same call set (fixed clock and anchors for all)
    calls = [s for s in pool if s[1] in ("auth", "reg")]
    errors = []

    def worker(tid):
        r = pyrandom.Random(seed * 100 + tid)
        mine = calls[:]
        r.shuffle(mine)
        for spec in mine[: (40 if quick else len(mine))]:
            out, viol, res = run_spec(spec)
            if out != first.get(spec[0], out) or viol:
                errors.append((tid, spec[0], out[:160], first.get(spec[0], "")[:160], viol))

    sub_all = {"apple": builtin["apple"], "android-key": builtin["android-key"], "android-safetynet": builtin["android-safetynet"]}
    with impl.substituted(sub_all, T0):
        # make sure every call has a single-threaded reference outcome under this very substitution
        for spec in calls:
            if spec[0] not in first:
                first[spec[0]] = run_spec(spec)[0]
        # rp-only / untrusted specs of the built-in-root formats substitute an UNRELATED built-in anchor: exclude them from the threaded run (different module-global substitution)
        calls = [s for s in calls if "rp-only" not in s[0] and not s[0].startswith("real/") and not s[0].endswith(("/ok-later", "/expired")) and not (s[0].endswith(("/untrusted", "/other-fmt")) and s[0].split("/")[1] in ("apple", "android-key", "android-safetynet"))]
        ths = [threading.Thread(target=worker, args=(t,)) for t in range(16)]
        for t in ths:
            t.start()
        for t in ths:
            t.join()
        # ... and the schedules a stress run only hits by luck: call A on this thread, and between every two lines A executes inside the library a
        # complete call B on another thread (fw.interleaved) - every pair (A, B) must give A's and B's single-threaded outcomes
        npairs = 0
        for i, A_ in enumerate(calls):
            partners = [calls[(i * 7 + 3) % len(calls)], calls[(i * 11 + 5) % len(calls)]] if not quick else [calls[(i * 7 + 3) % len(calls)]]
            if quick and i % 2 and A_[1] == "reg":
                continue
            for B_ in partners:
                oa, obs, n = fw.interleaved(lambda: run_spec(A_)[0], lambda: run_spec(B_)[0])
                npairs += 1
                wrongb = [o for o in obs if o != first[B_[0]]]
                if oa != first[A_[0]] or wrongb:
                    chk.violation(f"call {A_[0]} interleaved at line boundaries with call {B_[0]} on another thread: " +
                                  (f"A gave {oa[:50]} instead of {first[A_[0]][:50]}" if oa != first[A_[0]] else f"B gave {wrongb[0][:50]} instead of {first[B_[0]][:50]}"),
                                  f"interleaved {A_[0].split('/')[0]}/{A_[0].split('/')[-1]} with {B_[0].split('/')[0]}/{B_[0].split('/')[-1]}",
                                  {"A": A_[0], "B": B_[0], "schedule": "B runs to completion between two consecutive lines of A inside the library; all such points in one run", "switch_points": n,
                                   "A_outcome": oa, "A_single_threaded": first[A_[0]], "B_outcomes": sorted(set(obs)), "B_single_threaded": first[B_[0]]})
                chk.seen(("interleaved", A_[0], B_[0]))
        chk.evals += npairs
        chk.count("interleaved-pairs", npairs)
        # ... with a BURST on the other thread: between every two lines of one valid authentication, hundreds of complete calls for RP IDs / origins / keys never seen
        # before (more than any bounded cache holds: 300, or the largest count the changed source newly mentions plus 90) - evictions and clear()s then fall INTO the window
        from harness import srcdict as _sd2
        # (three kinds of calls alternate - see below -, so the burst is three times the largest count the changed source mentions, plus a margin: each kind alone overflows it)
        burst = 390 if not _sd2.thresholds() else min(4000, 3 * (max(t for t in _sd2.thresholds() if t <= 1200) + 90)) if any(t <= 1200 for t in _sd2.thresholds()) else 390
        s_b = authcat.Scn("ES256-P256"); s_b.challenge = b"burst-window-challenge"
        pol_b, a_b = s_b.build()
        rec_b = a_b.as_record()
        single = impl.verify_auth(pol_b, rec_b)
        tenant = [0]

        def burst_calls():
            for _ in range(burst):
                tenant[0] += 1
                # (one expectation is new per call, the others are A's: the call gets past the earlier checks and reaches the step that looks the new value up)
                k3 = tenant[0] % 3
                p2 = impl.AuthPolicy(pol_b.challenge if k3 != 2 else b"burst-%d" % tenant[0], f"tenant-{tenant[0]}.example" if k3 == 0 else pol_b.rp_id,
                                     f"https://tenant-{tenant[0]}.example" if k3 == 1 else pol_b.origin, pol_b.pubkey, pol_b.count, False)
                impl.verify_auth(p2, rec_b)
            return "burst"
        oa, obs, n = fw.interleaved(lambda: impl.verify_auth(pol_b, rec_b), burst_calls, max_events=120)
        chk.evals += burst * n
        if oa != single:
            chk.violation(f"a valid authentication gives {oa[:60]} instead of {single[:60]} when, between two of its lines, another thread completes {burst} calls for RP IDs never seen before",
                          "interleaved burst-of-new-tenants", {"schedule": f"between every two consecutive lines of the call inside the library another thread runs {burst} complete verify_authentication_response calls, each with a new expected_rp_id / origin",
                                                               "switch_points": n, "outcome": oa, "single_threaded": single})
        # the RP's expectation objects (one list of origins, one list of algorithms, one mapping of roots) SHARED by the requests of two threads, switch points at every
        # bytecode instruction (sys.monitoring): a call that touches them - even to put things back a moment later - shows in the other thread's outcome
        nshared = 0
        for A_ in calls:
            key, kind, pol, obj = A_
            if not (key.endswith("long-origin-list") or (kind == "reg" and key.endswith("/ok") and key.split("/")[1] in ("none", "packed", "apple"))):
                continue
            kw = pol.kwargs()            # ONE set of argument objects for both threads
            import webauthn as _w2
            def call(kw=kw, kind=kind, obj=obj):
                try:
                    if kind == "auth":
                        return "OK " + impl.pr_verified_auth(_w2.verify_authentication_response(credential=obj.as_dict(), **kw))
                    return "OK " + impl.pr_verified_reg(_w2.verify_registration_response(credential=obj.as_dict(), **kw))
                except Exception as e:
                    return "ERR " + fw.classify_exc(e)
            before = deep(kw)
            ref = call()
            oa, obs, n = fw.interleaved(call, call, opcodes=True, max_events=1500)
            nshared += 1
            wrong = [o for o in [oa] + obs if o != ref]
            if wrong or kw != before:
                chk.violation(f"call {key} with the RP's expectation objects shared between two threads, switched at every bytecode instruction: " + (f"outcome {wrong[0][:50]} instead of {ref[:50]}" if wrong else "the shared objects were modified"),
                              f"interleaved-shared-arguments {key.split('/')[0]}/{key.split('/')[-1]}", {"call": key, "switch_points": n, "single_threaded": ref, "outcomes": sorted(set([oa] + obs)), "arguments_changed": kw != before})
            chk.seen(("interleaved-shared", key))
        chk.evals += nshared
    chk.evals += 16 * min(40 if quick else len(calls), len(calls))
    for (tid, key, out, ref, viol) in errors[:5]:
        chk.violation(f"thread {tid}: call {key} gave another outcome than single-threaded", f"thread-interference {key.split('/')[0]}", {"call": key, "threaded": out, "single": ref, "arg_violations": viol})
    if R:
        R.close()
    spy.__exit__(None, None, None)
    spy.report(chk)
    chk.notes.append({"global_state_spy": {"functions_watched": len(spy.saved), "calls_from_library_code": len(spy.calls)}})
    fw.env_invariance(chk, "auth", "reg")          # the same seeded cases under -O / -OO, warnings-as-errors, other TZ / locale, a private CA bundle
    return fw.finish(chk, ob, br, TRUSTED,
                     ["outcome = result fields or exception class bucket; option-generation outcomes are compared through options_to_json with caller-supplied challenge / user id (no randomness)"],
                     RULE, "coqc -Q . PW Properties/C18.v; thorough: coqchk -o")


def replay(path):
    print(open(path).read()[:3000])
    return 0
