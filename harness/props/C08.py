"""C08 - what registration returns is exactly what authenticates; nothing else does."""
import cbor2, json, hashlib
from harness import srcdict, fw, impl, authsim, authcat, authrun, regsim, regcat, regrun

TRUSTED = [
    "Coq 8.16.1 kernel; C08_key_bytes: canonical COSE key bytes survive parse/re-encode unchanged (CBOR round-trip theorem, all well-formed values); chain/cross theorems under explicit oracle hypotheses (signature completeness / key separation)",
    "extraction + driver; reference oracles; ceremony simulator",
]
RULE = ("register -> authenticate k times with advancing counters for every algorithm x attestation format, feeding authentication ONLY with what registration returned; then all ordered "
        "pairs of distinct credentials registered in the run: A's assertion against B's stored key, and an assertion carrying A's id but signed by B against A's key. "
        "distinct_nontrivial = distinct (format, kind) chains + distinct ordered pairs")


def run(tier, seed):
    chk = fw.Check("C08", tier, seed)
    br, ob = fw.standard_prelude(chk, with_coqchk=(tier == "thorough"))
    rng = chk.rng
    quick = tier == "quick"
    A = authrun.AuthBench(chk, br)
    B = regrun.RegBench(chk, br, oracle_obj=A.O)
    import webauthn
    registered = []     # (label, cred, cred_id, stored_key_bytes, count)
    combos = []
    for fmt in regsim.FORMATS:
        kinds = regcat.applicable_kinds(fmt)
        for j, kind in enumerate(kinds):
            if quick and not (j % 4 == regsim.FORMATS.index(fmt) % 4 or kind in ("ES512-P521",) and fmt in ("none", "packed-self")):
                continue
            combos.append((fmt, kind))
    slot = 0
    for fmt, kind in combos:
        s = regsim.RScn(fmt, kind)
        s.cred_slot = slot % 3
        slot += 1
        s.cred_id = hashlib.sha256(f"{fmt}/{kind}/{s.cred_slot}".encode()).digest()[: rng.choice([16, 32])]
        if slot % 3 == 1:
            # ids are opaque: byte patterns that mean something elsewhere in authenticator data mean nothing inside an id
            pats = [bytes.fromhex("a301634f4b500327206745643235353139"), bytes.fromhex("a5010203262001"), b"\xef\xbb\xbf"] + srcdict.blobs()
            s.cred_id = s.cred_id[: (0, 1, 7)[(slot // 3) % 3]] + pats[(slot // 3) % len(pats)] + s.cred_id[:2]
        s.count = rng.choice([0, 1, 100])
        s.flags = (0x45, 0x4D, 0x5D, 0x45)[slot % 4]          # not backup eligible / eligible, not backed up / eligible and backed up
        registered_key = authsim.Cred(kind, slot=s.cred_slot).cose_bytes
        if slot % 2 == 0:
            # a COSE key may carry members beyond the ones its type requires (kid 2, key_ops 4 - whatever they list -, Base IV 5, private labels): they are part of the
            # key bytes registration returns, and mean nothing to verification
            import cbor2 as _cb
            extras = [{4: [1]}, {4: ["sign"]}, {2: b"kid-1"}, {4: [1, 2]}, {5: bytes(8)}, {4: [2]}, {"x": 1}, {-70000: b""}, {4: [1, 9], 2: b"k"}, {4: []}][(slot // 2) % 10]
            cm_ = dict(authsim.Cred(kind, slot=s.cred_slot).cose_map())
            cm_.update(extras)
            registered_key = _cb.dumps(cm_)
            s.k["cose_bytes"] = registered_key
        pd, reg = regsim.build(s)
        pol = regrun.policy_of(pd)
        il, ml = B.run_case(pol, reg, regrun.FORMS[slot % 3], "accept", f"register/{fmt}", scn=s)
        if not il.startswith("OK"):
            continue
        with impl.substituted(pol.substitute, pol.now):
            vr = webauthn.verify_registration_response(credential=reg.as_dict(), **pol.kwargs())
        cred = authsim.Cred(kind, slot=s.cred_slot)
        stored_id, stored_key, stored_count = vr.credential_id, vr.credential_public_key, vr.sign_count
        if stored_key != registered_key or stored_id != s.cred_id:
            chk.violation("registration did not return the credential id / public key bytes that were registered", f"returned-key {fmt} {kind}",
                          {"fmt": fmt, "kind": kind, "returned_key": stored_key.hex(), "registered_key": registered_key.hex()})
        # authenticate k times with advancing counters, fed only with what registration returned
        for step in range(2 if quick else 5):
            a_s = authcat.Scn(kind)
            a_s.rp_id, a_s.cred_id = s.rp_id, stored_id
            a_s.count = stored_count + 1 + step * rng.choice([1, 7])
            a_s.stored = stored_count
            a_s.challenge = rng.randbytes(32)
            # sign with THIS credential's key (Scn.build uses slot 0; rebuild with the right slot)
            cdj = (b"", b"\xef\xbb\xbf", b" ")[(slot + step) % 3] + authsim.client_data("webauthn.get", a_s.challenge, a_s.origin) + (b"", b"\n")[step % 2]      # what the client serialised is what was hashed
            if (slot + step) % 4 == 1:
                # an assertion MAY carry an attested-credential-data block (AT): whatever id and key it names, the credential that authenticated is the one
                # presented as rawId, verified with the key the RP stored for it
                other = authsim.Cred("ES256-P256", slot=5)
                ad = authsim.authdata(a_s.rp_id, 0x45, a_s.count, aaguid=bytes(16), cred_id=(b"somebody-else's-credential", b"", stored_id + b"x")[step % 3], cose_bytes=(other.cose_bytes, cred.cose_bytes)[step % 2])
            else:
                ad = authsim.authdata(a_s.rp_id, 0x05, a_s.count)
            sig = cred.sign(ad + hashlib.sha256(cdj).digest())
            a = authsim.Assertion(cred, stored_id, cdj, ad, sig)
            apol = impl.AuthPolicy(a_s.challenge, a_s.rp_id, a_s.origin, stored_key, stored_count, False)
            il2, _ = A.run_case(apol, a, authrun.FORMS[step % 3], "accept", f"authenticate-after/{fmt}")
            # if authentication has grown parameters named like fields of the registration result, an RP supplies back what registration reported: still this credential
            from harness import srcdict as _sd
            back = {pn: getattr(vr, pn) for pn, _ann in _sd.new_parameters().get("verify_authentication_response", []) if hasattr(vr, pn)}
            if back and (slot + step) % 4 != 1:
                for bits in ((0x05,) if not s.flags & 0x08 else (0x0D, 0x1D)):
                    ad_b = authsim.authdata(a_s.rp_id, bits, a_s.count)
                    a_b = authsim.Assertion(cred, stored_id, cdj, ad_b, cred.sign(ad_b + hashlib.sha256(cdj).digest()))
                    kwb = dict(apol.kwargs(), **back)
                    o_b = impl.outcome(lambda: webauthn.verify_authentication_response(credential=a_b.as_record(), **kwb), impl.pr_verified_auth)
                    ref_b = impl.verify_auth(apol, a_b.as_record())
                    chk.evals += 2
                    if ref_b.startswith("OK") and not o_b.startswith("OK"):
                        chk.violation(f"an assertion of the registered credential is refused once the RP supplies back what registration reported ({', '.join(back)})", f"supplied-back {fmt} {'+'.join(back)}",
                                      {"entry": "verify_authentication_response", "supplied_back": {k: repr(v) for k, v in back.items()}, "flags": bits, "outcome": o_b, "without_them": ref_b})
            if il2.startswith("OK"):
                stored_count = fw.rd_i(il2.split()[2])
                if fw.rd_b(il2.split()[1]) != stored_id:
                    chk.violation("authentication reports another credential id than the one that was presented and verified", f"reported-id authenticate-after/{fmt}",
                                  {"entry": "verify_authentication_response", "presented_raw_id": stored_id.hex(), "reported": il2.split()[1], "authenticator_data_hex": ad.hex(), "credential": a.as_dict()})
        registered.append((f"{fmt}/{kind}", cred, stored_id, stored_key, stored_count))
    # rare but conformant shapes: Ed25519 key whose encoding starts with 0x00; short DER ECDSA signatures
    edz = authsim.ed_cred_leading_zero()
    for fmt in ("none", "packed-self"):
        s = regsim.RScn(fmt, "EdDSA")
        s.k["cose_bytes"] = edz.cose_bytes
        if fmt == "packed-self":
            s.k["signer"] = edz
        pd, reg = regsim.build(s)
        reg.cred = edz
        pol = regrun.policy_of(pd)
        il, ml = B.run_case(pol, reg, "dict", "accept", f"register/{fmt}/ed25519-leading-zero-key", scn=s)
        cdj = authsim.client_data("webauthn.get", b"c" * 16, "https://example.com")
        ad = authsim.authdata("example.com", 0x05, 9)
        a = authsim.Assertion(edz, s.cred_id, cdj, ad, edz.sign(ad + hashlib.sha256(cdj).digest()))
        A.run_case(impl.AuthPolicy(b"c" * 16, "example.com", "https://example.com", edz.cose_bytes, 0, False), a, "record", "accept", "authenticate-after/ed25519-leading-zero-key")
    # the id registration returns is the ATTESTED credential id (inside the signed authenticator data), whatever outer rawId / id the
    # client put around it: that is the id the authenticator will present when it authenticates
    for fmt in ("none", "packed-self"):
        s = regsim.RScn(fmt, "ES256-P256")
        s.cred_id = b"attested-credential-id-" + fmt.encode()
        s.k["outer_raw_id"] = b"some-other-credential's-id"
        pd, reg = regsim.build(s)
        pol = regrun.policy_of(pd)
        il, ml = B.run_case(pol, reg, "dict", None, f"register/{fmt}/outer-rawid-differs-from-attested-id", scn=s)
        if il.startswith("OK"):
            with impl.substituted(pol.substitute, pol.now):
                vr = webauthn.verify_registration_response(credential=reg.as_dict(), **pol.kwargs())
            if vr.credential_id != s.cred_id:
                chk.violation("registration returned a credential id other than the attested one", f"returned-id {fmt} outer-rawid",
                              {"fmt": fmt, "returned": vr.credential_id.hex(), "attested": s.cred_id.hex(), "outer_raw_id": s.k["outer_raw_id"].hex(), "credential": reg.as_dict()})
    # a COSE key whose y member is given in another form (a CBOR bool carrying the sign bit as in point compression, the bare SEC1 prefix, an integer): IF such a key gets
    # registered at all, the key that authenticates against what registration returned is the one the form denotes - never its mirror image (x, p - y), the key of n - d
    from cryptography.hazmat.primitives.asymmetric import ec as _ec
    ORDER = {"secp256r1": 0xFFFFFFFF00000000FFFFFFFFFFFFFFFFBCE6FAADA7179E84F3B9CAC2FC632551,
             "secp384r1": 0xFFFFFFFFFFFFFFFFFFFFFFFFFFFFFFFFFFFFFFFFFFFFFFFFC7634D81F4372DDF581A0DB248B0A77AECEC196ACCC52973,
             "secp521r1": int("1" + "F" * 65 + "A51868783BF2F966B7FCC0148F709A5D03BB5C9B8899C47AEBB6FB71E91386409", 16)}
    for kind in ("ES256-P256", "ES256-P384", "ES512-P521"):
        P = authsim.Cred(kind, slot=3)
        N = authsim.Cred(kind, sk=_ec.derive_private_key(ORDER[P.pk.curve.name] - P.sk.private_numbers().private_value, P.pk.curve))
        for owner, other in ((P, N), (N, P)):
            ybit = owner.pk.public_numbers().y & 1
            for what, yform in (("bool sign bit", bool(ybit)), ("integer sign bit", ybit), ("SEC1 prefix byte", bytes([2 + ybit])), ("compressed point in x, y absent", None)):
                cm = dict(owner.cose)
                if yform is None:
                    cm[-2] = bytes([2 + ybit]) + owner.cose[-2]
                    del cm[-3]
                else:
                    cm[-3] = yform
                s = regsim.RScn("none", kind)
                s.k["cose_bytes"] = cbor2.dumps(cm)
                s.cred_id = b"compressed-" + kind.encode() + bytes([ybit])
                pd, reg = regsim.build(s)
                pol = regrun.policy_of(pd)
                il, ml = B.run_case(pol, reg, "dict", None, f"register/none/{kind} y as {what}", scn=s)
                if not il.startswith("OK"):
                    continue
                with impl.substituted(pol.substitute, pol.now):
                    vr = webauthn.verify_registration_response(credential=reg.as_dict(), **pol.kwargs())
                cdj = authsim.client_data("webauthn.get", b"k" * 16, "https://example.com")
                ad = authsim.authdata("example.com", 0x05, vr.sign_count + 1)
                a = authsim.Assertion(other, vr.credential_id, cdj, ad, other.sign(ad + hashlib.sha256(cdj).digest()))
                A.run_case(impl.AuthPolicy(b"k" * 16, "example.com", "https://example.com", vr.credential_public_key, vr.sign_count, False), a, "record", "reject",
                           f"authenticate-after/{kind} y as {what}: signed by the mirror key")
    # RSA credential with a public exponent other than 65537: register (no signature by the credential key involved), then authenticate
    for e in (65539, 3):
        rc = authsim.rsa_cred_exponent(e)
        s = regsim.RScn("none", "RS256")
        s.k["cose_bytes"] = rc.cose_bytes
        pd, reg = regsim.build(s)
        reg.cred = rc
        pol = regrun.policy_of(pd)
        il, ml = B.run_case(pol, reg, "dict", "accept", f"register/none/rsa-exponent-{e}", scn=s)
        with impl.substituted(pol.substitute, pol.now):
            vr = webauthn.verify_registration_response(credential=reg.as_dict(), **pol.kwargs())
        if vr.credential_public_key != rc.cose_bytes:
            chk.violation("registration did not return the registered key bytes", f"returned-key none rsa-exponent-{e}", {"returned_key": vr.credential_public_key.hex()})
        cdj = authsim.client_data("webauthn.get", b"e" * 16, "https://example.com")
        ad = authsim.authdata("example.com", 0x05, vr.sign_count + 1)
        a = authsim.Assertion(rc, vr.credential_id, cdj, ad, rc.sign(ad + hashlib.sha256(cdj).digest()))
        A.run_case(impl.AuthPolicy(b"e" * 16, "example.com", "https://example.com", vr.credential_public_key, vr.sign_count, False), a, "record", "accept", f"authenticate-after/rsa-exponent-{e}")
        registered.append((f"none/RS256-e{e}", rc, vr.credential_id + bytes([e % 251]), vr.credential_public_key, vr.sign_count))
    # RSA credentials whose PRIMES have arithmetic structure (the shape ROCA detectors fingerprint, primes close to one another): registered, then authenticated with
    for structure in ("roca", "close-primes"):
        rc = authsim.rsa_cred_structured(structure)
        for fmt in ("none", "packed-self"):
            s = regsim.RScn(fmt, "RS256")
            s.k["cose_bytes"] = rc.cose_bytes
            if fmt == "packed-self":
                s.k["signer"] = rc
            pd, reg = regsim.build(s)
            reg.cred = rc
            pol = regrun.policy_of(pd)
            il, ml = B.run_case(pol, reg, "dict", "accept", f"register/{fmt}/rsa-primes-{structure}", scn=s)
            if not il.startswith("OK"):
                continue
            cdj = authsim.client_data("webauthn.get", b"g" * 16, "https://example.com")
            ad = authsim.authdata("example.com", 0x05, 9)
            a = authsim.Assertion(rc, s.cred_id, cdj, ad, rc.sign(ad + hashlib.sha256(cdj).digest()))
            A.run_case(impl.AuthPolicy(b"g" * 16, "example.com", "https://example.com", rc.cose_bytes, 3, False), a, ("record", "dict")[fmt == "none"], "accept", f"authenticate-after/rsa-primes-{structure}")
    # Ed25519 signatures whose per-signature nonce is unusual (0: R is the neutral element; 1: R is the base point; L-1): valid signatures of the registered key all the same
    edc = authsim.Cred("EdDSA", slot=2)
    s = regsim.RScn("none", "EdDSA"); s.cred_slot = 2
    pd, reg = regsim.build(s)
    pol = regrun.policy_of(pd)
    il, ml = B.run_case(pol, reg, "dict", "accept", "register/none/ed25519-for-chosen-nonces", scn=s)
    if il.startswith("OK"):
        for step, r_ in enumerate((0, 1, authsim._L25519 - 1, 8, 2 ** 200)):
            cdj = authsim.client_data("webauthn.get", b"n" * 16, "https://example.com")
            ad = authsim.authdata("example.com", 0x05, 10 + step)
            a = authsim.Assertion(edc, s.cred_id, cdj, ad, authsim.ed25519_sign_with_nonce(edc.sk, ad + hashlib.sha256(cdj).digest(), r_))
            A.run_case(impl.AuthPolicy(b"n" * 16, "example.com", "https://example.com", edc.cose_bytes, 9 + step, False), a, authrun.FORMS[step % 3], "accept", f"authenticate-after/ed25519-signature-with-nonce-{r_ if r_ < 10 else 'large'}")
    # RSA moduli that are large or not a multiple of 8 bits, PKCS#1 v1.5 and PSS, in every input form (long signatures travel as long base64url members)
    for bits, kinds2 in ((1025, ("RS256", "PS256")), (1033, ("PS256", "PS384")), (3072, ("RS256",)), (4096, ("RS256", "PS384"))) if not quick else ((1025, ("PS256",)), (1033, ("PS256",)), (4096, ("RS256",))):
        for kind2 in kinds2:
            rc = authsim.rsa_cred_bits(bits, kind2)
            s = regsim.RScn("none", kind2)
            s.k["cose_bytes"] = rc.cose_bytes
            pd, reg = regsim.build(s)
            reg.cred = rc
            pol = regrun.policy_of(pd)
            il, ml = B.run_case(pol, reg, "dict", "accept", f"register/none/rsa-{bits}-bit/{kind2}", scn=s)
            for form in authrun.FORMS:
                cdj = authsim.client_data("webauthn.get", b"f" * 16, "https://example.com")
                ad = authsim.authdata("example.com", 0x05, 4)
                a = authsim.Assertion(rc, s.cred_id, cdj, ad, rc.sign(ad + hashlib.sha256(cdj).digest()))
                A.run_case(impl.AuthPolicy(b"f" * 16, "example.com", "https://example.com", rc.cose_bytes, 3, False), a, form, "accept", f"authenticate-after/rsa-{bits}-bit/{kind2}")
    for kind in ("ES256-P256", "ES256-P384", "ES512-P521"):
        c = authsim.Cred(kind)
        cdj = authsim.client_data("webauthn.get", b"d" * 16, "https://example.com")
        ad = authsim.authdata("example.com", 0x05, 3)
        sig = authsim.short_ecdsa_signature(c, ad + hashlib.sha256(cdj).digest(), tries=(3000 if quick else 20000))
        a = authsim.Assertion(c, b"short-sig", cdj, ad, sig)
        A.run_case(impl.AuthPolicy(b"d" * 16, "example.com", "https://example.com", c.cose_bytes, 0, False), a, "record", "accept", f"authenticate/short-der-signature-{len(sig)}B/{kind}")
    chk.sample({"chain": "register(packed, RS256) -> authenticate x2 with returned id/key/count", "registered": len(registered)})
    # cross-credential confusion over ordered pairs (after the successful logins above)
    pairs = [(x, y) for x in registered for y in registered if x is not y and x[3] != y[3]]
    rng.shuffle(pairs)
    for (la, ca, ida, ka, na), (lb, cb, idb, kb, nb) in (pairs[:60] if quick else pairs[:1500]):
        ch = rng.randbytes(16)
        cdj = authsim.client_data("webauthn.get", ch, "https://example.com")
        ad = authsim.authdata("example.com", 0x05, max(na, nb) + 10)
        # (1) A's genuine assertion verified against B's stored key
        a1 = authsim.Assertion(ca, ida, cdj, ad, ca.sign(ad + hashlib.sha256(cdj).digest()))
        A.run_case(impl.AuthPolicy(ch, "example.com", "https://example.com", kb, 0, False), a1, "record", "reject", "A-assertion-vs-B-key")
        # (2) assertion carrying A's id but signed by B, verified against A's stored key
        a2 = authsim.Assertion(ca, ida, cdj, ad, cb.sign(ad + hashlib.sha256(cdj).digest()))
        A.run_case(impl.AuthPolicy(ch, "example.com", "https://example.com", ka, 0, False), a2, "record", "reject", "signed-by-B-vs-A-key")
        # (3) control: A against A
        A.run_case(impl.AuthPolicy(ch, "example.com", "https://example.com", ka, 0, False), a1, "record", "accept", "A-assertion-vs-A-key")
    A.close(); B.close()
    fw.env_invariance(chk, "auth", "reg")          # the same seeded cases under -O / -OO, warnings-as-errors, other TZ / locale, a private CA bundle
    return fw.finish(chk, ob, br, TRUSTED,
                     ["two credentials of the run are 'distinct' when their public key bytes differ"],
                     RULE, "coqc -Q . PW Properties/C08.v; thorough: coqchk -o")


def replay(path):
    print(open(path).read()[:3000])
    return 0
