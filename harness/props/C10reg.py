def run_reg(chk, B, table_auth):
    """registration half of C10 (filled in once the registration model exists)"""
    return
