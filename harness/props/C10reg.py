"""registration half of C10: all 256 flag bytes x require_uv x require_up, authenticator data laid out as the flags announce"""
from harness import fw, impl, regsim, regrun, authsim


def run_reg(chk, A, table_auth):
    B = regrun.RegBench(chk, type("BR", (), {"runner_ok": A.R is not None})(), oracle_obj=A.O)
    from harness import srcdict
    AAGUIDS = [None] + srcdict.aaguids() + [bytes(16), bytes.fromhex("d548826e79b4db40a3d811116f7e8349"), bytes.fromhex("ea9b8d664d011d213ce4b6b48cb575d4"), bytes.fromhex("adce000235bcc60a648b0b25f1f05503"),
                        bytes.fromhex("08987058cadc4b81b6e130de50dcbe96"), bytes.fromhex("fbfc3007154e4ecc8c0b6e020557d7bd"), b"\xff" * 16]
    for f in range(256):
        for ruv in (False, True):
            for rup in (False, True):
                s = regsim.RScn("none" if f % 5 else "packed-self", "ES256-P256" if f % 3 else "EdDSA")
                s.flags, s.require_uv, s.require_up = f, ruv, rup
                ag = AAGUIDS[(f + 3 * ruv + 5 * rup) % len(AAGUIDS)]        # the authenticator model is not a flag matter
                if ag is not None:
                    s.aaguid = ag
                if f & 0x80:
                    s.ext = (None, b"\xa0", b"\xa1\x68credBlob\x58\x20" + bytes(32), b"\xa1\x63uvm\x81\x83\x02\x04\x02", b"\xa1\x65ratio\xf9\x3e\x00", b"\xa2\x61a\xfa\x3f\xc0\x00\x00\x61b\xf9\x7c\x00")[(f // 4 + ruv + rup) % 6]
                pd, reg = regsim.build(s)
                reg.attachment = (None, "platform", "cross-platform")[(f // 2 + ruv + 2 * rup) % 3]      # a client hint: no influence on any reported field
                # the unauthenticated convenience copies of PublicKeyCredential.toJSON() (Level 3) claim other flags: only the SIGNED authenticator
                # data inside the attestation object counts
                import cbor2
                real_ad = cbor2.loads(reg.att_obj)["authData"]
                reg.extra_response_members = {"authenticatorData": authsim.b64u(real_ad[:32] + bytes([0x5D]) + real_ad[33:]), "publicKeyAlgorithm": -7,
                                              "publicKey": authsim.b64u(b"not-the-key"), "transports": ["internal"]}
                up, uv, be, bs, at = f & 1, f & 4, f & 8, f & 16, f & 64
                exp = (bool(up) or not rup) and (bool(uv) or not ruv) and bool(at) and not (bs and not be)
                il, ml = B.run_case(regrun.policy_of(pd), reg, "record" if f % 2 else "dict", "accept" if exp else "reject", f"create flags={f:#04x} uv_required={ruv} up_required={rup}", scn=s)
                if il.startswith("OK"):
                    t = il.split()
                    got = (t[9] == "T", t[10] == "T", t[7] == "T")     # multi_device, backed_up, user_verified
                    want = (bool(be), bool(bs), bool(uv))
                    if got != want:
                        chk.violation(f"registration: reported fields {got} != bits {want} for flags {f:#04x}", f"reg-fields flags={f:#04x}", {"flags": f, "impl": il[:300]})
    # the other formats, with what their statements may legitimately vary (TPM object attributes and auth policy, certificate chain length, attestation key kind):
    # none of it is consulted for the flag rules
    TPM_ATTRS = [0x00050472, 0x00060472, 0, 0xFFFFFFFF, 0x00000040, 0x00000080, 0x000000C0, 0x00040072, 0x00020472, 0x00050432, 0x00010000, 0x00000002]
    n = 0
    for fmt in ("tpm", "packed", "android-key", "apple", "fido-u2f", "android-safetynet"):
        for f in (0x41, 0x45, 0x44, 0x4D, 0x5D, 0x55, 0x40, 0xC5, 0x47, 0x65):
            for ruv in (False, True):
                for rup in (True, False):
                    n += 1
                    if fmt not in ("tpm", "android-key") and (n % 3):
                        continue
                    s = regsim.RScn(fmt, "ES256-P256" if (fmt != "tpm" or n % 2) else "RS256", "RS256" if fmt == "tpm" and n % 4 < 2 else "ES256-P256")
                    s.flags, s.require_uv, s.require_up = f, ruv, rup
                    if fmt == "tpm":
                        s.k["tpm_attrs"] = TPM_ATTRS[n % len(TPM_ATTRS)]
                        s.k["tpm_auth_policy"] = (b"", bytes(32), b"\x01" * 32)[n % 3]
                    if fmt == "android-key":
                        # whatever else the attested key's authorization lists say (no auth required, auth timeout, user-presence requirements ...): not flag rules
                        s.k["ak_tee_tags"] = regsim.AK_TAG_SETS[n % len(regsim.AK_TAG_SETS)]
                        s.k["ak_sw_tags"] = regsim.AK_TAG_SETS[(n // 2 + 3) % len(regsim.AK_TAG_SETS)] if n % 2 else ()
                    s.n_inter = 0 if fmt == "fido-u2f" else n % 2
                    try:
                        pd, reg = regsim.build(s)
                    except Exception:
                        continue
                    up, uv, be, bs, at = f & 1, f & 4, f & 8, f & 16, f & 64
                    exp = (bool(up) or not rup) and (bool(uv) or not ruv) and bool(at) and not (bs and not be)
                    il, ml = B.run_case(regrun.policy_of(pd), reg, "dict", "accept" if exp else "reject", f"create/{fmt} flags={f:#04x} uv_required={ruv} up_required={rup}", scn=s)
                    if il.startswith("OK"):
                        t = il.split()
                        got = (t[9] == "T", t[10] == "T", t[7] == "T")
                        want = (bool(be), bool(bs), bool(uv))
                        if got != want:
                            chk.violation(f"registration ({fmt}): reported fields {got} != bits {want} for flags {f:#04x}", f"reg-fields {fmt} flags={f:#04x}", {"flags": f, "fmt": fmt, "impl": il[:300]})
    B.close()
