"""C14 - base64url codec: proof (Properties/C14.v) + correspondence of Model/Base64.v with the code."""
import json
from harness import fw

TRUSTED = [
    "Coq 8.16.1 kernel (coqc, vm_compute; no native_compute)",
    "extraction (ExtrOcamlBasic only, no Extract Constant) + ocaml/driver.ml + OCaml 4.13.1",
    "correspondence harness harness/props/C14.py (generators, canonicalisation)",
    "CPython base64/binascii are modelled exactly (Model/Base64.v) and validated differentially, not verified",
]
RULE = ("exhaustive: all byte strings of length 0-2 x paddings 0..3; seeded random byte strings in every length class mod 3 "
        "up to 12 KiB; malformed/arbitrary text stream for the decoder. distinct_nontrivial = distinct (length class, padding, "
        "outcome kind) x distinct inputs of length >= 1")


def impl_enc_raw(b):
    from webauthn.helpers.bytes_to_base64url import bytes_to_base64url
    return bytes_to_base64url(b)


def impl_enc(b):
    """the encoding, or an 'ERR ...' text when the encoder raises (call sites that need the exception itself use impl_enc_raw)"""
    try:
        return impl_enc_raw(b)
    except Exception as e:
        return "ERR " + fw.classify_exc(e)


def impl_dec(s):
    from webauthn.helpers.base64url_to_bytes import base64url_to_bytes
    try:
        return "OK " + fw.wb(base64url_to_bytes(s))
    except Exception as e:
        return "ERR " + fw.classify_exc(e)


def impl_dec_raising(s):
    from webauthn.helpers.base64url_to_bytes import base64url_to_bytes
    return base64url_to_bytes(s)          # (exceptions propagate: that is the point)


ALPHA = set("ABCDEFGHIJKLMNOPQRSTUVWXYZabcdefghijklmnopqrstuvwxyz0123456789-_")


def direct_eval(chk, b, enc, decs):
    """The property itself, evaluated on the implementation's answers."""
    if not isinstance(enc, str) or not set(enc) <= ALPHA:
        chk.violation("encoding leaves the base64url alphabet / is padded", f"charset len={len(b)}", {"op": "enc", "input": b.hex(), "impl": repr(enc)})
        return
    for k, d in decs:
        if d != "OK " + fw.wb(b):
            chk.violation("decode(encode(b) + '='*k) != b", f"roundtrip len%3={len(b)%3} pad={k}", {"op": "roundtrip", "input": b.hex(), "padding": k, "impl_enc": enc, "impl_dec": d})
            return


def run(tier, seed):
    chk = fw.Check("C14", tier, seed)
    br, ob = fw.standard_prelude(chk, with_coqchk=(tier == "thorough"))
    rng = chk.rng
    R = fw.Runner() if br.runner_ok else None
    encs = {}

    def one(b, pads=(0, 1, 2, 3)):
        try:
            enc = impl_enc_raw(b)
        except Exception as e:
            chk.violation("encoder raised", f"enc-raise {type(e).__name__}", {"op": "enc", "input": b.hex(), "exc": repr(e)})
            return
        decs = [(k, impl_dec(enc + "=" * k)) for k in pads] if isinstance(enc, str) else []
        chk.evals += 1 + len(decs)
        direct_eval(chk, b, enc, decs)
        if isinstance(enc, str):
            prev = encs.setdefault(enc, b)
            if prev != b:
                chk.violation("two byte strings share an encoding", "injectivity", {"op": "inj", "a": prev.hex(), "b": b.hex(), "enc": enc})
        if R:
            m = R.call("b64enc " + fw.wb(b))
            if not isinstance(enc, str) or m != fw.ws(enc):
                chk.diverge("Model.b64url_enc", f"input {b.hex()[:80]} model {m[:80]} impl {enc!r:.80}", {"op": "enc", "input": b.hex()})
            for k, d in decs:
                md = R.call("b64dec " + fw.ws(enc + "=" * k))
                if md != d:
                    chk.diverge("Model.b64url_dec", f"text {enc[:60]!r}+{k}= model {md[:80]} impl {d[:80]}", {"op": "dec", "text": enc + "=" * k})
        if len(b) >= 1:
            chk.seen((len(b) if len(b) < 3 else "n", len(b) % 3, b[:3]))
        chk.count(f"len%3={len(b)%3}")

    # exhaustive part
    one(b"")
    for a in range(256):
        one(bytes([a]))
    n2 = 65536 if True else 0
    step = 1
    for v in range(0, 65536, step):
        one(bytes([v >> 8, v & 255]), pads=(0, 1, 2, 3) if (v % 16 == 0 or tier == "thorough") else (0, 2))
    chk.exhaustive = True
    chk.sample({"input": "00ff", "impl_enc": impl_enc(b"\x00\xff") if True else None})
    # random strings incl. sizes around block boundaries and several KiB
    nrand = 600 if tier == "quick" else 6000
    sizes = [3, 4, 5, 31, 32, 33, 255, 256, 257, 1023, 1024, 1025, 3071, 3072, 3073, 4095, 4096, 4097, 4098, 4099, 8191, 8192, 8193, 12287, 12288, 12289,
             16383, 16384, 16385, 24577, 49153, 65535, 65536, 65537] + ([100001, 262145, 1048577] if tier == "thorough" else [])
    for i in range(nrand):
        n = sizes[i % len(sizes)] if i < 3 * len(sizes) else rng.choice([rng.randrange(3, 64), rng.randrange(64, 2048), rng.randrange(2048, 12300)])
        b = rng.randbytes(n)
        if i % 7 == 0:
            b = bytes(rng.choice([0, 255, 251, 239, 62, 63]) for _ in range(n))   # bias to '-' and '_' producing bytes
        one(b)
        if i < 3:
            chk.sample({"input_len": n, "impl_enc_prefix": impl_enc(b)[:24]})
    # byte strings whose CONTENT looks like an encoding of something (padded / unpadded base64 text, hex text, JSON text, CBOR, nested once or twice): they are
    # just bytes - one decode undoes exactly one encode
    import base64 as _b64, json as _json
    looks = []
    for inner in (b"", b"A", b"AB", b"ABC", b"ABCD", b"\x00", b"\xff\xfe", bytes(16), bytes(range(32)), b"credential-id"):
        for lvl in (1, 2):
            v = inner
            for _ in range(lvl):
                v = _b64.urlsafe_b64encode(v)
            looks += [v, v.rstrip(b"="), _b64.b64encode(inner), inner.hex().encode(), _json.dumps(inner.hex()).encode(), _json.dumps({"id": inner.hex()}).encode()]
    looks += [b"QUJDRA==", b"AA==", b"AAA=", b"AAAA", b"deadbeef" * 4, b"=" * 4, b"====", b"A===", b"[" * 40, b"{" * 40, b"null", b"true", b"0", b"-1", b'""', b"\xa0", b"\x40", b"\x80" * 3]
    looks += [bytes.fromhex(("deadbeef" * 4)[i:] + ("deadbeef" * 4)[:i]) for i in (0, 2)] + [_b64.urlsafe_b64decode("deadbeef" * 4), _b64.urlsafe_b64decode("0123456789abcdef" * 2), _b64.urlsafe_b64decode("a" * 32)]
    for b in looks:
        one(b)
    # the argument may be any bytes-like object, and what counts is what it holds WHEN the call is made: a buffer that is refilled between two calls (same view
    # object), and bytes subclasses with an equality of their own, encode to the encoding of their current contents
    import mmap
    mm = mmap.mmap(-1, 48)
    views = {"read-only view of an mmap block": memoryview(mm).toreadonly(), "writable view of an mmap block": memoryview(mm), "bytearray": bytearray(48)}
    for what, v in views.items():
        for fill in (b"\x11" * 48, b"\x22" * 48, bytes(range(48)), b"\x11" * 48):
            if isinstance(v, bytearray):
                v[:] = fill
            else:
                mm[:] = fill
            try:
                enc = impl_enc(v)
            except Exception as e:
                enc = "ERR " + fw.classify_exc(e)
            chk.evals += 1
            want = _b64.urlsafe_b64encode(fill).decode().rstrip("=")
            if enc != want and not str(enc).startswith("ERR"):
                chk.violation(f"encoding of a {what} does not follow the buffer's current contents", f"enc-buffer-refilled {what}", {"op": "enc", "form": what, "contents_hex": fill.hex(), "impl": enc, "expected": want,
                                                                                                                             "history": "the same view object was encoded before with other contents"})
    for v in views.values():
        if isinstance(v, memoryview):
            v.release()
    mm.close()
    # ... and a buffer is its BYTES, however its items are laid out: multi-byte items, several dimensions, array.array (len() counts items there, not bytes)
    import array as _array
    for raw in (bytes(range(48)), b"\xfb\xff\xfe\x01" * 6, bytes(8), rng.randbytes(64), rng.randbytes(16)):
        shapes_ = {"items of 2 bytes": lambda r: memoryview(r).cast("H"), "items of 4 bytes": lambda r: memoryview(r).cast("I"), "items of 8 bytes": lambda r: memoryview(r).cast("Q"),
                   "two dimensions": lambda r: memoryview(r).cast("B", (len(r) // 8, 8)), "signed items": lambda r: memoryview(r).cast("b"), "char items": lambda r: memoryview(r).cast("c"),
                   "array of 16-bit items": lambda r: _array.array("H", r), "array of 32-bit items": lambda r: _array.array("I", r), "array of doubles": lambda r: _array.array("d", r)}
        want = _b64.urlsafe_b64encode(raw).decode().rstrip("=")
        for what, mk in shapes_.items():
            try:
                v = mk(raw)
            except Exception:
                continue
            enc = impl_enc(v)
            chk.evals += 1
            if enc != want and not str(enc).startswith("ERR"):
                chk.violation(f"a buffer with {what} is not encoded by the bytes it holds", f"enc-buffer-layout {what}", {"op": "enc", "form": what, "contents_hex": raw.hex(), "impl": enc, "expected": want})
            chk.seen(("layout", what, len(raw)))
    class AllEqual(bytes):
        def __eq__(self, other): return True
        def __hash__(self): return 1
    class NeverEqual(bytes):
        def __eq__(self, other): return False
        def __hash__(self): return 2
    for cls in (AllEqual, NeverEqual):
        for raw in (b"first value", b"second value!", b"", b"first value"):
            enc = impl_enc(cls(raw))
            chk.evals += 1
            want = _b64.urlsafe_b64encode(raw).decode().rstrip("=")
            if enc != want:
                chk.violation(f"a bytes subclass with its own equality / hash ({cls.__name__}) is not encoded by its contents", f"enc-bytes-subclass {cls.__name__}", {"op": "enc", "class": cls.__name__, "contents_hex": raw.hex(), "impl": enc, "expected": want})
    # new public API of the changed source must not change what the codec does
    def _probe():
        out = []
        for b in (b"", b"\x00", b"ab", b"\xfb\xff\xfe\x01", bytes(range(20))):
            e = impl_enc(b)
            out.append((f"enc {b.hex()}", str(e)))
            for k in range(4):
                out.append((f"dec {b.hex()} pad={k}", impl_dec(str(e) + "=" * k)))
        for t in ("A", "AAAAA", "AA.A", "\u00e9", "AA AA", "!!!!"):
            out.append((f"dec text {t!r}", impl_dec(t)))
        return out
    fw.exercise_new_api(chk, _probe, lambda: [_probe(), impl_dec_raising("AQ=="), impl_dec_raising("A")])
    # texts that are words elsewhere but plain base64url here: decode(text) is what the model says, and re-encoding gives the text back when it is canonical
    from harness import srcdict
    import base64 as _b64
    # ... and texts that follow the grammar of ANOTHER notation while being plain base64url: GUIDs, hex digests, decimal numbers, dates, ULIDs, JWT segments, MAC addresses ...
    import uuid as _uuid
    other_notations = []
    for _ in range(12 if tier == "quick" else 200):
        u = str(_uuid.UUID(bytes=rng.randbytes(16)))
        other_notations += [u, u.upper(), u.replace("-", ""), "urn-uuid-" + u]
    other_notations += [rng.randbytes(n).hex() for n in (1, 2, 3, 4, 8, 16, 20, 32)] + [str(rng.randrange(10 ** k)) for k in (1, 2, 3, 6, 9, 12, 19, 20)] + ["2026-10-01", "2026-10-01T12-00-00Z", "1-2-3", "----", "____", "-", "_",
        "00000000-0000-0000-0000-000000000000", "ffffffff-ffff-ffff-ffff-ffffffffffff", "01ARZ3NDEKTSV4RRFFQ69G5FAV", "eyJhbGciOiJIUzI1NiJ9", "eyJhbGciOiJub25lIn0", "aa-bb-cc-dd-ee-ff", "555-0100", "MFRGGZDF", "0x1234", "0b0101", "1e10", "-1", "-0",
        "1_000_000", "v1", "id-1", "user_1", "0o17", "a" * 36, "-" * 36, "0" * 36, "12345678-1234-1234-1234-1234567890ab", "12345678-1234-5678-1234-567812345678"]
    for w in ["null", "true", "false", "None", "NaN", "undefined", "Infinity", "nullnull", "AAAA", "data", "self", "test", "json", "0000", "1234", "this", "eval", "void"] + srcdict.words() + other_notations:
        if not w or not set(w) <= ALPHA:
            continue
        if len(w) % 4 != 1:
            for pad_ in range(1, 4):
                chk.evals += 1
                if (-len(w) % 4) == pad_ % 4 and impl_dec(w + "=" * pad_) != impl_dec(w):
                    chk.violation(f"the base64url text {w!r} decodes differently with and without its padding", f"decode-padding-matters {w[:12]}", {"op": "dec", "text": w, "padded": w + "=" * pad_, "impl_dec": impl_dec(w), "impl_dec_padded": impl_dec(w + "=" * pad_)})
        d = impl_dec(w)
        chk.evals += 1
        try:
            want = "OK " + fw.wb(_b64.urlsafe_b64decode(w + "=" * (-len(w) % 4))) if len(w) % 4 != 1 else None
        except Exception:
            want = None
        if want is not None and d != want:
            chk.violation(f"the base64url text {w!r} does not decode to the bytes it encodes", f"decode-special-text {w}", {"op": "dec", "text": w, "impl_dec": d, "expected": want})
        if R:
            md = R.call("b64dec " + fw.ws(w))
            if md != d and not (md.startswith("ERR Py") and d.startswith("ERR")):
                chk.diverge("Model.b64url_dec", f"text {w!r} model {md[:80]} impl {d[:80]}", {"op": "dec", "text": w})
        chk.seen(("word", w))
    # good texts with Unicode white space / separators / format characters at their ends (what str.strip() or a normalising reader would drop): no base64url
    for good_ in ("AQID", "AQ", "", "-_-_", "Y3JlZC0x"):
        for ch_ in ("\u00a0", "\u0085", "\u2028", "\u2029", "\u3000", "\u1680", "\u2003", "\u200b", "\ufeff", "\u001c", "\u180e", "\u00ad"):
            for w in (good_ + ch_, ch_ + good_, ch_ + good_ + ch_):
                d = impl_dec(w)
                chk.evals += 1
                if d.startswith("OK") and not ch_.isascii():
                    chk.violation(f"text {w!r} (a base64url text with a non-ASCII character at an end) decodes: {d[:40]}", f"decode-unicode-edge U+{ord(ch_):04X}", {"op": "dec", "text": w, "impl_dec": d})
                if R:
                    md = R.call("b64dec " + fw.ws(w))
                    if md != d and not (md.startswith("ERR Py") and d.startswith("ERR")):
                        chk.diverge("Model.b64url_dec", f"text {w!r} model {md[:80]} impl {d[:80]}", {"op": "dec", "text": w})
    # the id of a credential is compared with THE encoding of its raw id (anchor sites in verify_*): every other spelling that merely
    # decodes to the same bytes is refused
    from harness import impl, authcat, authsim, regsim, regrun
    for cid in (b"\xfb\xff\xfe", b"\xfb\xff\xfe\x01", b"\xfb\xff\xfe\x01\x02", rng.randbytes(16), rng.randbytes(32), b"\xff\xff\xff", b"\xfb\xef\xbe", b"\xff" * 18, b"\xfb\xef\xbe" * 7,
                b"\x00", b"\x00" * 3, b"\xd3\x4d\x34", b"i\xb7\x1d"):
        good = authsim.b64u(cid)
        # THE encoding of the raw id is accepted - also when it consists only of '-' / '_' / digits / 'A's
        sc = authcat.Scn("ES256-P256"); sc.cred_id = cid
        pol, a = sc.build()
        rs = regsim.RScn("none", "ES256-P256"); rs.cred_id = cid
        pd, reg = regsim.build(rs)
        for cer, o in (("authentication", impl.verify_auth(pol, a.as_record())), ("registration", impl.verify_reg(regrun.policy_of(pd), reg.as_record()))):
            chk.evals += 1
            if not o.startswith("OK"):
                chk.violation(f"{cer}: credential whose id {good!r} IS the base64url encoding of its raw id refused", f"id-canonical-refused {cer} {good[:8]}", {"op": "id", "ceremony": cer, "raw_id": cid.hex(), "id": good, "impl": o[:120]})
        twin = good[:-1] + "ABCDEFGHIJKLMNOPQRSTUVWXYZabcdefghijklmnopqrstuvwxyz0123456789-_"[("ABCDEFGHIJKLMNOPQRSTUVWXYZabcdefghijklmnopqrstuvwxyz0123456789-_".index(good[-1])) ^ 1]
        spell = {"padded-1": good + "=", "padded-2": good + "==", "dot-inserted": good[:2] + "." + good[2:], "newline-appended": good + "\n",
                 "standard-alphabet": good.replace("-", "+").replace("_", "/"), "last-char-spare-bits": twin, "space-prefixed": " " + good,
                 # THE encoding with characters added that are no base64url characters at all (any script, invisible ones, lone surrogates, NUL) - in front, behind, inside
                 "non-ascii-appended": good + "\u00e9", "zero-width-space-inside": good[:1] + "\u200b" + good[1:], "fullwidth-prefixed": "\uff21" + good, "cjk-appended": good + "\u65e5",
                 "lone-surrogate-appended": good + "\ud800", "nul-appended": good + "\x00", "combining-mark-appended": good + "\u0301", "rtl-mark-prefixed": "\u202e" + good, "bom-prefixed": "\ufeff" + good,
                 "tab-inside": good[:2] + "\t" + good[2:], "percent-encoded": "".join("%%%02X" % ord(c) for c in good), "quoted": '"' + good + '"'}
        for nm, idt in spell.items():
            if idt == good or (nm == "last-char-spare-bits" and len(cid) % 3 == 0):
                continue
            sc = authcat.Scn("ES256-P256"); sc.cred_id = cid; sc.id_text = idt
            pol, a = sc.build()
            il = impl.verify_auth(pol, a.as_record())
            rs = regsim.RScn("none", "ES256-P256"); rs.cred_id = cid; rs.id_text = idt
            pd, reg = regsim.build(rs)
            il2 = impl.verify_reg(regrun.policy_of(pd), reg.as_record())
            chk.evals += 2
            for cer, o in (("authentication", il), ("registration", il2)):
                if o.startswith("OK"):
                    chk.violation(f"{cer}: id {idt!r} accepted although it is not the base64url encoding {good!r} of the raw id", f"id-noncanonical {cer} {nm}",
                                  {"op": "id", "ceremony": cer, "raw_id": cid.hex(), "id": idt, "canonical": good, "impl": o[:120]})
            chk.seen(("id", nm, len(cid) % 3))
    # malformed / arbitrary text into the decoder: model is exact, so outcomes must agree
    nmal = 3000 if tier == "quick" else 40000
    pool = "ABCDwxyz0189-_+/=== \n!.é€"
    for i in range(nmal):
        n = rng.randrange(0, 24)
        s = "".join(rng.choice(pool) for _ in range(n))
        d = impl_dec(s)
        chk.evals += 1
        chk.count("malformed:" + d.split()[0] + (":" + d.split()[1] if d.startswith("ERR") else ""))
        chk.seen(("mal", s))
        if R:
            md = R.call("b64dec " + fw.ws(s))
            if md != d and not (md.startswith("ERR Py") and d.startswith("ERR")):
                chk.diverge("Model.b64url_dec", f"text {s!r} model {md[:80]} impl {d[:80]}", {"op": "dec", "text": s})
        if i < 2:
            chk.sample({"text": s, "impl_dec": d})
    if R:
        R.close()
    fw.env_invariance(chk, "codec")          # the same seeded cases under -O / -OO, warnings-as-errors, other TZ / locale, a private CA bundle
    return fw.finish(chk, ob, br, TRUSTED,
                     ["bytes are list Z with bytes_ok; Python str is a list of code points",
                      "the theorems are about Model/Base64.v; its agreement with CPython's codec as called by the library is what the correspondence run tests"],
                     RULE, "coqc -Q . PW Properties/C14.v (after make of Model/Proofs); thorough: coqchk -o")


def replay(path):
    r = json.load(open(path))
    rp = r.get("replay") or {}
    print("replay:", json.dumps(rp)[:400])
    if rp.get("op") in ("enc", "roundtrip"):
        b = bytes.fromhex(rp["input"])
        enc = impl_enc(b)
        print("impl enc:", enc[:200])
        print("impl dec:", impl_dec(enc + "=" * rp.get("padding", 0))[:200])
    elif rp.get("op") == "dec":
        print("impl dec:", impl_dec(rp["text"]))
    return 0
