"""C07 - signature counter rule over every history."""
import json, itertools
from harness import fw, impl, authsim, authcat, authrun

TRUSTED = [
    "Coq 8.16.1 kernel; theorems C07_* hold for arbitrary oracles and histories of any length (induction over the presentation list)",
    "extraction (ExtrOcamlBasic only) + ocaml/driver.ml; reference oracles harness/oracle.py",
    "modelled not verified: CPython json/base64, cbor2 (subset); the simulator only chooses inputs",
]
RULE = ("(s,c) over the boundary grid {0,1,2,2^31-1,2^31,2^32-2,2^32-1}^2 plus seeded random pairs, each c really signed; "
        "presentation histories over pre-signed assertions with distinct and repeated counters (quick: random histories of length <= 12; "
        "thorough: ALL sequences of length <= 5 over 6 assertions + random long ones) driven through verify_authentication_response with "
        "the stored counter updated from the returned record, compared step by step with the model. distinct_nontrivial = distinct (s,c,outcome) "
        "pairs + distinct histories")
B31, B32 = 2 ** 31, 2 ** 32
GRID = [0, 1, 2, B31 - 1, B31, B32 - 2, B32 - 1]


def run(tier, seed):
    chk = fw.Check("C07", tier, seed)
    br, ob = fw.standard_prelude(chk, with_coqchk=(tier == "thorough"))
    rng = chk.rng
    B = authrun.AuthBench(chk, br)
    quick = tier == "quick"
    made = {}

    def assertion(c, kind="ES256-P256", flags=0x05):
        if (c, kind, flags) not in made:
            s = authcat.Scn(kind)
            s.count = c
            s.flags = flags
            made[(c, kind, flags)] = s.build()
        return made[(c, kind, flags)]

    # the rule is independent of every other field of the authenticator data: flag bytes with/without UV, BE, BS, ED, reserved bits
    FLAGS = [0x05, 0x01, 0x0D, 0x1D, 0x09, 0x85, 0x27, 0x19]

    def present(s_stored, c, kind="ES256-P256", form=None, flags=0x05, ruv=None, attachment=None):
        pol, a = assertion(c, kind, flags)
        a.attachment = attachment
        if form is None:
            form = ("dict", "record", "text")[(s_stored + c) % 3]
        if ruv is None:
            ruv = bool(flags & 0x04) and (s_stored + c) % 2 == 1          # the counter rule does not depend on the user-verification policy
        pol = impl.AuthPolicy(pol.challenge, pol.rp_id, pol.origin, pol.pubkey, s_stored, ruv)
        should = (c > s_stored) or (c == 0 and s_stored == 0)
        # the counter that counts is the SIGNED one: unsigned response members carrying authenticator data with a counter above the stored one (an `attestationObject`
        # as registration responses have one, bare copies) change nothing - in the dict / text forms, where such members can be expressed
        import cbor2 as _cbor2
        lure = authsim.authdata(pol.rp_id, 0x45, min(max(s_stored, 0) + 1, 2 ** 32 - 1), aaguid=bytes(16), cred_id=a.cred_id, cose_bytes=a.cred.cose_bytes)
        a.extra_response = {"attestationObject": authsim.b64u(_cbor2.dumps({"fmt": "none", "attStmt": {}, "authData": lure})), "authData": authsim.b64u(lure), "signCount": s_stored + 1}
        il, ml = B.run_case(pol, a, form, "accept" if should else "reject", f"counter s={s_stored} c={c}" + ("" if flags == 0x05 else f" flags={flags:#x}") + (" uv-required" if ruv else "") + (f" attachment={attachment}" if attachment else ""))
        if il.startswith("OK"):
            new = fw.rd_i(il.split()[2])
            if new != c:
                chk.violation(f"reported new counter {new} != c={c}", f"new-count s={s_stored} c={c}", {"stored": s_stored, "c": c, "impl": il})
            return True, new
        return False, s_stored

    # 1. boundary grid + random pairs
    pairs = [(s, c) for s in GRID for c in GRID]
    for _ in range(60 if quick else 600):
        a, b = rng.randrange(B32), rng.randrange(B32)
        pairs += [(a, b), (a, a), (a, min(B32 - 1, a + 1))]
    # counters that happen to look like something else: the Unix time of this very moment (some authenticators count seconds), years, the new
    # integer literals of the changed source (harness/srcdict.py) as values and as distances
    import time as _time
    from harness import srcdict
    now = int(_time.time())
    for base in [now, now // 60, now * 1000 % B32, 20261001] + [n for n in srcdict.big_numbers() if n < B32]:
        for d in [0, 1, 5, 60, 299, 300, 301, 3600] + [n for n in srcdict.thresholds()][:4]:
            if base - d >= 0 and base + d < B32:
                pairs += [(base, base - d), (base + d, base - d), (base - d, base - d), (base + d, base), (base - d, base)]
    pairs = list(dict.fromkeys(pairs))
    for i, (s, c) in enumerate(pairs):
        present(s, c, kind=("ES256-P256" if i % 5 else "EdDSA"), form=("record" if i % 3 else "dict"), flags=FLAGS[i % 7 % len(FLAGS)] if i % 2 else 0x05)
    for fl in FLAGS[1:]:
        for (s, c) in [(0, 0), (5, 5), (5, 4), (4, 5), (B31, 1), (B32 - 1, 0), (0, B32 - 1)]:
            present(s, c, flags=fl)
            if fl & 0x04:
                present(s, c, flags=fl, ruv=True)
            # ... and of the UNSIGNED members of the response (the attachment hint)
            for att in ("platform", "cross-platform"):
                present(s, c, flags=fl, attachment=att, form=("dict", "record", "text")[(s + c + len(att)) % 3])
    # assertions carrying extension data that is valid but non-canonical CBOR: whatever the parser makes of them, an ACCEPTED one obeys the rule
    for ext in (b"\xbf\x6bcredProtect\x02\xff", b"\xb8\x01\x6bcredProtect\x02", b"\xa1\x78\x0bcredProtect\x18\x02", b"\xa1\x6bcredProtect\x19\x00\x02", b"\xbf\xff", b"\xa1\x6bcredProtect\x02\x00"):
        for (st, c) in [(0, 0), (10, 5), (5, 5), (4, 5), (B31, 1), (B32 - 1, 0), (0, B32 - 1), (1, 2)]:
            sc = authcat.Scn("ES256-P256")
            sc.flags, sc.ext, sc.count = 0x85, ext, c
            pol, a = sc.build()
            pol = impl.AuthPolicy(pol.challenge, pol.rp_id, pol.origin, pol.pubkey, st, False)
            il, ml = B.run_case(pol, a, "record", None, f"counter s={st} c={c} non-canonical-extension-cbor")
            if il.startswith("OK"):
                new = fw.rd_i(il.split()[2])
                if not ((c > st) or (c == 0 and st == 0)) or new != c:
                    chk.violation(f"assertion with non-canonical extension CBOR accepted against the counter rule (s={st}, c={c}, reported {new})", f"counter-noncanonical-ext s={st} c={c}",
                                  {"stored": st, "c": c, "extension_hex": ext.hex(), "impl": il, "credential": a.as_dict()})
    chk.sample({"grid": GRID, "example_pair": pairs[8]})
    # 2. histories
    ctrs = [0, 1, 1, 2, B31, B32 - 1]          # six pre-signed assertions (one counter repeated: two distinct assertions)
    hists = []
    if quick:
        for _ in range(150):
            hists.append([rng.randrange(6) for _ in range(rng.randrange(1, 13))])
    else:
        for L in range(1, 6):
            hists += [list(t) for t in itertools.product(range(6), repeat=L)]
        for _ in range(1500):
            hists.append([rng.randrange(6) for _ in range(rng.randrange(6, 40))])
        chk.exhaustive = True
    hflags = [0x05, 0x0D, 0x01, 0x1D, 0x05, 0x09]
    for h in hists:
        stored = 0
        accepted_nonzero = set()
        trace = []
        for idx in h:
            c = ctrs[idx]
            ok, new = present(stored, c, flags=hflags[idx], ruv=(bool(hflags[idx] & 0x04) and len(h) % 2 == 0))
            trace.append((idx, c, ok, new))
            if ok:
                if new < stored:
                    chk.violation("stored counter decreased", f"history-decrease", {"history": h, "counters": ctrs, "trace": trace})
                if c != 0:
                    if idx in accepted_nonzero:
                        chk.violation("assertion with non-zero counter accepted twice", "history-replay", {"history": h, "counters": ctrs, "trace": trace})
                    accepted_nonzero.add(idx)
                stored = new
        chk.seen(("hist", tuple(h)))
    chk.sample({"history_of_assertion_indices": hists[0], "counters_of_assertions": ctrs})
    # counters whose four bytes, together with what follows them in the authenticator data (the AAGUID of an attested block), spell a byte pattern that means something
    # elsewhere (the known-malformed EdDSA key header; CBOR map headers): the counter is bytes 33-36, whatever they look like
    import hashlib as _hl
    MARK = bytes.fromhex("a301634f4b500327206745643235353139")
    for lead in (MARK, bytes.fromhex("a401634f4b500327206745643235353139"), bytes.fromhex("a5010203262001215820") + bytes(7)):
        c = int.from_bytes(lead[:4], "big")
        cr = authsim.Cred("ES256-P256")
        for flags in (0x45, 0xC5):
            ad = authsim.authdata("example.com", flags, c, aaguid=lead[4:17] + bytes(3), cred_id=b"credential-id-1", cose_bytes=cr.cose_bytes, ext=(b"\xa0" if flags & 0x80 else None))
            cdj = authsim.client_data("webauthn.get", b"marker-counter-challenge", "https://example.com")
            a = authsim.Assertion(cr, b"credential-id-1", cdj, ad, cr.sign(ad + _hl.sha256(cdj).digest()))
            for s_stored in (c - 1, c, c + 1, c + 2 ** 24 - 1, c + 2 ** 24, 0, c - 2 ** 24):
                if not 0 <= s_stored < 2 ** 32:
                    continue
                pol = impl.AuthPolicy(b"marker-counter-challenge", "example.com", "https://example.com", cr.cose_bytes, s_stored, False)
                il, ml = B.run_case(pol, a, ("record", "dict")[s_stored % 2], "accept" if c > s_stored else "reject", f"counter s={s_stored} c={c} (bytes 33.. spell {lead[:4].hex()}...) flags={flags:#x}")
                if il.startswith("OK") and fw.rd_i(il.split()[2]) != c:
                    chk.violation(f"reported new counter {fw.rd_i(il.split()[2])} != c={c}", f"new-count pattern-counter s={s_stored}", {"stored": s_stored, "c": c, "impl": il, "authenticator_data_hex": ad.hex()})
    # two ceremonies on two threads, one running to completion between every two lines of the other (fw.interleaved): the rule is applied to each ceremony's OWN pair (s, c)
    pairs_ab = [((5, 5), (0, 1)), ((0, 1), (5, 5)), ((9, 3), (3, 9)), ((3, 9), (9, 3)), ((0, 0), (7, 7)), ((7, 7), (0, 0)), ((2 ** 32 - 1, 0), (0, 2 ** 32 - 1)), ((1, 2), (2, 1))]
    for (sa, ca), (sb, cb) in pairs_ab:
        for kind_a, kind_b in (("ES256-P256", "ES256-P256"), ("ES256-P256", "EdDSA")):
            pa, aa = assertion(ca, kind_a)
            pb, ab = assertion(cb, kind_b)
            pa = impl.AuthPolicy(pa.challenge, pa.rp_id, pa.origin, pa.pubkey, sa, False)
            pb = impl.AuthPolicy(pb.challenge, pb.rp_id, pb.origin, pb.pubkey, sb, False)
            ra, rb = impl.verify_auth(pa, aa.as_record()), impl.verify_auth(pb, ab.as_record())
            oa, obs, n = fw.interleaved(lambda: impl.verify_auth(pa, aa.as_record()), lambda: impl.verify_auth(pb, ab.as_record()))
            chk.evals += 1 + len(obs)
            wrong = [o for o in obs if o != rb]
            if oa != ra or wrong:
                chk.violation(f"counter rule under interleaving: ceremony (s={sa}, c={ca}) with ceremony (s={sb}, c={cb}) running between its lines gives " + (f"{oa[:50]} instead of {ra[:50]}" if oa != ra else f"the other one {wrong[0][:50]} instead of {rb[:50]}"),
                              f"interleaved-counter s={sa} c={ca} with s={sb} c={cb}", {"A": {"stored": sa, "c": ca, "alone": ra, "interleaved": oa}, "B": {"stored": sb, "c": cb, "alone": rb, "interleaved": sorted(set(obs))}, "switch_points": n,
                                                                                         "schedule": "B runs to completion on another thread between every two consecutive lines A executes inside the library"})
            chk.seen(("interleaved", sa, ca, sb, cb, kind_b))
    B.close()
    fw.env_invariance(chk, "auth", "reg")          # the same seeded cases under -O / -OO, warnings-as-errors, other TZ / locale, a private CA bundle
    return fw.finish(chk, ob, br, TRUSTED,
                     ["raw record inputs consist of bytes (cred_wf); the RP stores exactly the reported counter after each success"],
                     RULE, "coqc -Q . PW Properties/C07.v; thorough: coqchk -o")


def replay(path):
    print(open(path).read()[:3000])
    return 0
