"""C13 - client-supplied JSON decoded faithfully, never partially."""
import json, copy
from harness import fw, impl, oracle, authsim, jsonmut
from harness.oracle import json_to_wire

TRUSTED = [
    "Coq 8.16.1 kernel; C13 theorems quantify over ALL JSON values (structural case analysis, any depth) and all byte contents",
    "json.loads is an oracle (its answer is the JSON AST the theorems quantify over); base64 modelled exactly (C14)",
    "extraction + driver; harness canonicalisation",
]
RULE = ("member-wise generator: each expected member valid / invalid string / arbitrary JSON value of each type / absent; non-object values; "
        "text vs dict; well-formed credentials over random byte contents (faithfulness evaluated directly); client data objects with unknown "
        "members, token binding variants, non-object values. distinct_nontrivial = distinct canonical inputs")
LIB_OK = ("ERR Lib:InvalidJSONStructure", "ERR Lib:InvalidRegistrationResponse", "ERR Lib:InvalidAuthenticationResponse")
TRANSPORTS = ["usb", "nfc", "ble", "smart-card", "internal", "cable", "hybrid"]


def run(tier, seed):
    chk = fw.Check("C13", tier, seed)
    br, ob = fw.standard_prelude(chk, with_coqchk=(tier == "thorough"))
    rng = chk.rng
    O = oracle.Oracle()
    R = fw.Runner(O) if br.runner_ok else None
    quick = tier == "quick"

    def one(kind, val, wellformed=None, model=True):
        """kind: 'auth' | 'reg'; val: str (text) or python JSON value (dict form)"""
        f = impl.parse_auth_cred if kind == "auth" else impl.parse_reg_cred
        il = f(val)
        chk.evals += 1
        as_text = isinstance(val, str)
        rp = {"entry": f"parse_{'authentication' if kind=='auth' else 'registration'}_credential_json", "form": "text" if as_text else "dict", "input": val, "impl": il}
        if not il.startswith("OK") and il not in LIB_OK:
            chk.violation(f"credential JSON refused with a non-library / unexpected exception: {il}",
                          f"{kind}-parser-raises {il} {sig_of(val)}", rp)
        if il.startswith("OK"):
            try:
                top = json.loads(val) if as_text else val
            except Exception:
                top = None
            if not isinstance(top, dict):
                chk.violation("a JSON value that is not an object was accepted as a credential", f"{kind}-non-object-accepted {type(top).__name__}", rp)
        if il.startswith("OK") and isinstance(top, dict):
            # every base64url member of an accepted credential is ASCII text (anything else cannot be "the base64url-decoded member")
            resp = top.get("response") if isinstance(top.get("response"), dict) else {}
            for nm, v in [("rawId", top.get("rawId"))] + [(k, resp.get(k)) for k in ("clientDataJSON", "attestationObject", "authenticatorData", "signature", "userHandle")]:
                if isinstance(v, str) and not v.isascii():
                    chk.violation(f"member {nm} holds non-ASCII text (no base64url) but the credential was accepted", f"{kind}-undecodable-accepted {nm}", rp)
                    break
            # every binary member of an accepted credential is what CPython's lenient decoder makes of its text plus padding - `urlsafe_b64decode(text + "===")` -, also
            # where '=' occurs INSIDE the text (the decoder stops at the first complete padding group) or the text carries other characters the decoder skips
            import base64 as _b64
            toks = il.split()
            order = ["id", "rawId", "type", "clientDataJSON"] + (["authenticatorData", "signature", "userHandle"] if kind == "auth" else ["attestationObject"])
            for idx_, nm in enumerate(order):
                v = top.get(nm) if nm in ("id", "rawId", "type") else resp.get(nm)
                if nm in ("id", "type") or not isinstance(v, str) or not v.isascii() or idx_ + 1 >= len(toks):
                    continue
                try:
                    ref = fw.wb(_b64.urlsafe_b64decode(v + "==="))
                except Exception:
                    continue
                got_ = toks[idx_ + 1]
                if nm == "userHandle":          # (optional member: printed as 'Y <value>' / 'N')
                    got_ = toks[idx_ + 2] if got_ == "Y" and idx_ + 2 < len(toks) else None
                if got_ is not None and got_ != ref:
                    chk.violation(f"member {nm} = {v[:40]!r} of an accepted credential was decoded to {got_[:40]} - not what the base64url decoder makes of that text ({ref[:40]})", f"{kind}-member-decoded-otherwise {nm}", dict(rp, member=nm, expected=ref))
                    break
            # required members must be present under their OWN names
            need = ["id", "rawId", "response"]
            need_resp = ["clientDataJSON"] + (["authenticatorData", "signature"] if kind == "auth" else ["attestationObject"])
            missing = [k for k in need if k not in top] + [k for k in need_resp if k not in resp]
            if missing:
                chk.violation(f"credential without required member(s) {missing} accepted", f"{kind}-missing-member-accepted {missing[0]}", rp)
        if wellformed is not None and il != "OK " + wellformed:
            chk.violation("well-formed credential not decoded faithfully", f"{kind}-unfaithful", dict(rp, expected="OK " + wellformed))
        if R and model:
            try:
                w = ("T " + fw.ws(val)) if as_text else ("D " + json_to_wire(val))
            except Exception:
                return il
            ml = R.call(("authcred " if kind == "auth" else "regcred ") + w)
            rp["model"] = ml
            if not fw.exn_refines(ml, il) or (ml.startswith("ERR Lib:") and ml != il):
                chk.diverge(f"Model.parse_{kind}_cred_json", f"model {ml[:90]} impl {il[:90]} input {json.dumps(val)[:160]}", rp)
        chk.count(f"{kind}:" + ("OK" if il.startswith("OK") else il))
        try:
            chk.seen((kind, json.dumps(val, sort_keys=True)[:300]))
        except ValueError:
            chk.seen((kind, repr(type(val)), len(repr(val)[:0]) or id(val) % 9973))
        return il

    def sig_of(val):
        # signature of the failing member for known-finding matching
        try:
            d = json.loads(val) if isinstance(val, str) else val
            uh = d.get("response", {}).get("userHandle")
            if isinstance(uh, str):
                return "userHandle-undecodable-string"
        except Exception:
            pass
        return "other"

    # 1. well-formed credentials over random byte contents: faithfulness
    for i in range(150 if quick else 2000):
        raw = rng.randbytes(rng.choice([0, 1, 2, 16, 33, 64, 300]))
        cdj = rng.randbytes(rng.choice([0, 1, 50, 121]))
        blob = rng.randbytes(rng.choice([0, 1, 37, 200]))
        sig = rng.randbytes(rng.choice([0, 1, 64, 71]))
        uh = rng.choice([None, b"", rng.randbytes(16)])
        att = rng.choice([None, "platform", "cross-platform"])
        tr = rng.choice([None, [], ["usb"], ["bogus", "nfc", 7, "internal", "nfc", None, "hybrid"], ["cable", "ble", "smart-card"]])
        pad = lambda s: s + "=" * rng.choice([0, 0, 1, 2])
        b = authsim.b64u
        idt = rng.choice([b(raw), "anything", ""])
        da = {"id": idt, "rawId": pad(b(raw)), "type": "public-key", "response": {"clientDataJSON": pad(b(cdj)), "authenticatorData": b(blob), "signature": b(sig)}, "extra": [1, {"x": None}]}
        if uh is not None:
            da["response"]["userHandle"] = b(uh)
        if att:
            da["authenticatorAttachment"] = att
        exp = " ".join([fw.ws(idt), fw.wb(raw), fw.ws("public-key"), fw.wb(cdj), fw.wb(blob), fw.wb(sig), impl.opt(fw.wb, uh), impl.opt(fw.ws, att)])
        one("auth", da, exp)
        one("auth", json.dumps(da), exp)
        dr = {"id": idt, "rawId": b(raw), "type": "public-key", "response": {"clientDataJSON": b(cdj), "attestationObject": pad(b(blob))}}
        if tr is not None:
            dr["response"]["transports"] = tr
        if att:
            dr["authenticatorAttachment"] = att
        trs = None if tr is None else [t for t in tr if isinstance(t, str) and t in TRANSPORTS]
        expr = " ".join([fw.ws(idt), fw.wb(raw), fw.ws("public-key"), fw.wb(cdj), fw.wb(blob), impl.opt(lambda l: impl.wlist(fw.ws, l), trs), impl.opt(fw.ws, att)])
        one("reg", dr, expr)
        one("reg", json.dumps(dr), expr)
        if i == 0:
            chk.sample({"auth_dict": da, "expected": exp[:120]})
    # 1b. enumerations are matched EXACTLY (no case folding, trimming or aliasing): anything else is an unknown value
    for kind, mk in (("auth", lambda v: {"id": "AQ", "rawId": "AQ", "type": "public-key", "authenticatorAttachment": v,
                                         "response": {"clientDataJSON": "e30", "authenticatorData": "AAAA", "signature": "c2ln"}}),
                     ("reg", lambda v: {"id": "AQ", "rawId": "AQ", "type": "public-key", "authenticatorAttachment": v,
                                        "response": {"clientDataJSON": "e30", "attestationObject": "o2NmbXQ"}})):
        for v in ("Platform", "PLATFORM", "Cross-Platform", "CROSS-PLATFORM", "platform ", " platform", "cross_platform", "crossplatform", "cross-platform\n", "plat\u0066orm\u200b"):
            for val in (mk(v), json.dumps(mk(v))):
                il = one(kind, val)
                if il.startswith("OK"):
                    chk.violation(f"unknown authenticatorAttachment {v!r} accepted", f"{kind}-enum-not-exact attachment", {"entry": f"parse_{kind}_credential_json", "input": val, "impl": il})
        for v in ("Public-Key", "PUBLIC-KEY", "public-key ", "publickey"):
            d = mk("platform"); d["type"] = v
            il = one(kind, d)
            if il.startswith("OK") and kind == "reg" and False:
                pass
    for t in ("USB", "Usb", "usb ", "NFC", "Internal", "smart_card", "smartcard", "hybrid\n"):
        d = {"id": "AQ", "rawId": "AQ", "type": "public-key", "response": {"clientDataJSON": "e30", "attestationObject": "o2NmbXQ", "transports": ["usb", t, "nfc"]}}
        il = one("reg", d)
        want = "Y 2 " + fw.ws("usb") + " " + fw.ws("nfc")
        if il.startswith("OK") and want not in il:
            chk.violation(f"transport {t!r} is not a recognised value but changed the parsed transports", "reg-enum-not-exact transports", {"input": d, "impl": il})
    # 1c. members are recognised under their WebAuthn names only: snake_case / other spellings are unknown members (ignored), never aliases
    def snake(n):
        return "".join("_" + c.lower() if c.isupper() else c for c in n)
    for kind, base in (("auth", {"id": "AQ", "rawId": "AQ", "type": "public-key", "authenticatorAttachment": "platform",
                                 "response": {"clientDataJSON": "e30", "authenticatorData": "AAAA", "signature": "c2ln", "userHandle": "dWg"}}),
                       ("reg", {"id": "AQ", "rawId": "AQ", "type": "public-key", "authenticatorAttachment": "cross-platform",
                                "response": {"clientDataJSON": "e30", "attestationObject": "o2NmbXQ", "transports": ["usb"]}})):
        ref = one(kind, base)
        for holder, names in ((None, ["rawId", "authenticatorAttachment"]), ("response", [k for k in base["response"]])):
            for nm in names:
                for alias in {snake(nm), nm.lower(), nm.upper(), nm[0].upper() + nm[1:], nm + " "} - {nm}:
                    # (a) the alias REPLACES the member: as if the member were missing
                    d = copy.deepcopy(base); tgt = d if holder is None else d[holder]
                    val = tgt.pop(nm); tgt[alias] = val
                    d2 = copy.deepcopy(base); tgt2 = d2 if holder is None else d2[holder]; tgt2.pop(nm)
                    a, b2 = one(kind, d), one(kind, d2)
                    if a != b2:
                        chk.violation(f"member spelled {alias!r} is treated differently from an absent {nm!r}", f"{kind}-alias-member {nm}", {"entry": f"parse_{kind}_credential_json", "input": d, "impl": a, "without_it": b2})
                    # (b) the alias is ADDED with a bad value next to the genuine member: must change nothing
                    d3 = copy.deepcopy(base); tgt3 = d3 if holder is None else d3[holder]; tgt3[alias] = 12345
                    c3 = one(kind, d3)
                    if c3 != ref:
                        chk.violation(f"unknown member {alias!r} changed the outcome", f"{kind}-unknown-member-not-ignored {nm}", {"entry": f"parse_{kind}_credential_json", "input": d3, "impl": c3, "reference": ref})
    # 1d. non-ASCII text in the base64url members is no base64url
    for kind, base in (("auth", {"id": "AQ", "rawId": "AQ", "type": "public-key", "response": {"clientDataJSON": "e30", "authenticatorData": "AAAA", "signature": "c2ln", "userHandle": "dWg"}}),
                       ("reg", {"id": "AQ", "rawId": "AQ", "type": "public-key", "response": {"clientDataJSON": "e30", "attestationObject": "o2NmbXQ"}})):
        for holder, nm in [(None, "rawId")] + [("response", k) for k in base["response"]]:
            for bad in ("\u00e9", "AQID\u00e9", "\u65e5\u672c\u8a9e", "AQ\u2003ID", "AQ\u00a0ID", "\uff21\uff31\uff29\uff24", "AQ\u0000", "\ud83d\ude00AQ",
                        # Unicode white space / separators / format characters at the ENDS of an otherwise good value (what str.strip(), NFKC or a tolerant reader would drop)
                        "AQID\u00a0", "\u00a0AQID", "AQID\u0085", "AQID\u2028", "\u2029AQID", "AQID\u3000", "\u1680AQID", "AQID\u2003", "\u200bAQID", "AQID\ufeff", "\u2028", "\u00a0\u00a0", "AQID\u001c", "\u180eAQID"):
                d = copy.deepcopy(base); (d if holder is None else d[holder])[nm] = bad
                one(kind, d)
                one(kind, json.dumps(d))
    # 1d''. '=' INSIDE a member's text (values built from separately padded chunks, a stray '='), and other characters the lenient decoder skips: decoded as the decoder does
    for kind, base in (("auth", {"id": "AQ", "rawId": "AQ", "type": "public-key", "response": {"clientDataJSON": "e30", "authenticatorData": "AAAA", "signature": "c2ln", "userHandle": "dWg"}}),
                       ("reg", {"id": "AQ", "rawId": "AQ", "type": "public-key", "response": {"clientDataJSON": "e30", "attestationObject": "o2NmbXQ"}})):
        for holder, nm in [(None, "rawId")] + [("response", k) for k in base["response"]]:
            for odd in ("AQIDBA==BQYHCA==", "AAA=AAAA", "dQ==c2Vy", "AQ==AQ", "AQ==AQ==", "AA=A", "A=AA", "=AAA", "AQ=", "AQ=====", "AQID=", "AQ=ID", "A=Q=I=D=", "AQID====BQYH", "AQ==\nAQ==", "AQ== AQ", "AQ.ID", "AQ+ID", "AQ/ID", "AQ\tID", "AQ,ID", "e30=e30="):
                d = copy.deepcopy(base); (d if holder is None else d[holder])[nm] = odd
                one(kind, d)
                one(kind, json.dumps(d))
    # 1d'. the dict form may be ANY dict - also a subclass that invents values for missing keys (defaultdict, a __missing__ method): a member that is not there is missing
    import collections
    class Inventing(dict):
        def __missing__(self, k):
            return "AQ"
    for kind, base in (("auth", {"id": "AQ", "rawId": "AQ", "type": "public-key", "response": {"clientDataJSON": "e30", "authenticatorData": "AAAA", "signature": "c2ln"}}),
                       ("reg", {"id": "AQ", "rawId": "AQ", "type": "public-key", "response": {"clientDataJSON": "e30", "attestationObject": "o2NmbXQ"}})):
        for holder, nm in [(None, "id"), (None, "rawId"), (None, "response"), (None, "type")] + [("response", k) for k in base["response"]]:
            for mk in (lambda d: collections.defaultdict(str, d), lambda d: collections.defaultdict(dict, d), lambda d: Inventing(d), lambda d: collections.OrderedDict(d), lambda d: collections.Counter(d) if all(isinstance(v, int) for v in d.values()) else Inventing(d)):
                d = copy.deepcopy(base)
                if holder is None:
                    d.pop(nm)
                    d["response"] = mk(d["response"]) if "response" in d else d.get("response")
                    val = mk(d)
                else:
                    d[holder].pop(nm)
                    d[holder] = mk(d[holder])
                    val = mk(d)
                plain = copy.deepcopy(base)
                (plain if holder is None else plain[holder]).pop(nm)
                il = (impl.parse_auth_cred if kind == "auth" else impl.parse_reg_cred)(val)
                want = (impl.parse_auth_cred if kind == "auth" else impl.parse_reg_cred)(plain)
                chk.evals += 2
                if il != want:
                    chk.violation(f"a credential dict of type {type(val).__name__} without member {nm} is judged differently from a plain dict without it: {il[:60]} instead of {want[:60]}", f"{kind}-dict-subclass-missing-member {nm}",
                                  {"entry": f"parse_{kind}_credential_json", "dict_type": type(val).__name__, "missing": nm, "impl": il, "plain_dict": want})
    # 1e. JSON text may repeat a member name (json.loads keeps the last): the text form is parsed exactly like the value json.loads gives
    dup_texts = []
    for kind, body in (("auth", '"response": {"clientDataJSON": "e30", "authenticatorData": "AAAA", "signature": "c2ln"}'), ("reg", '"response": {"clientDataJSON": "e30", "attestationObject": "o2NmbXQ"}')):
        for extra in ('"clientExtensionResults": {"rk": true, "rk": true}', '"authenticatorAttachment": "platform", "authenticatorAttachment": "platform"', '"type": "public-key"',
                      '"clientExtensionResults": {"a": {"b": 1, "b": 2}}', '"rawId": "AQ"', '"id": "zzz", "id": "AQ"', '"response": {}, ' + body, body.replace('"e30"', '"e30", "clientDataJSON": "e30"')):
            t = '{"id": "AQ", "rawId": "AQ", "type": "public-key", ' + body + ", " + extra + "}"
            a = one(kind, t)
            b2 = one(kind, json.loads(t))
            if a != b2:
                chk.violation("JSON text with a repeated member name is parsed differently from the value json.loads gives for it", f"{kind}-duplicate-member-name", {"entry": f"parse_{kind}_credential_json", "input": t, "impl": a, "dict_form": b2})
    # 1f. nothing here has a size limit: long texts (padding, a large ignored member, large binary members) and long transport lists decode like short ones
    for kind, base in (("auth", {"id": "AQ", "rawId": "AQ", "type": "public-key", "response": {"clientDataJSON": "e30", "authenticatorData": "AAAA", "signature": "c2ln", "userHandle": "dWg"}}),
                       ("reg", {"id": "AQ", "rawId": "AQ", "type": "public-key", "response": {"clientDataJSON": "e30", "attestationObject": "o2NmbXQ", "transports": ["usb", "nfc"]}})):
        ref = one(kind, base)
        for n in fw.size_ladder():
            small = n <= 70000
            big_member = dict(base, clientExtensionResults={"ignored": "x" * n})
            big_bin = copy.deepcopy(base); big_bin["response"]["clientDataJSON"] = authsim.b64u(b"{" + b" " * n + b"}")
            ref_bin = one(kind, big_bin, model=small)
            for what, t, want in (("whitespace-padded text", json.dumps(base) + " " * n, ref), ("text with leading whitespace", " " * n + json.dumps(base), ref),
                                  ("text with a large ignored member", json.dumps(big_member), ref), ("dict with a large ignored member", big_member, ref),
                                  ("text whose ignored member is a string of opening brackets", json.dumps(dict(base, clientExtensionResults={"ignored": "[" * n})), ref),
                                  ("text whose ignored member is a string of braces and quotes", json.dumps(dict(base, clientExtensionResults={"ignored": ('{"' * (n // 2)) + "\\" * 3})), ref),
                                  ("text whose id is a string of opening brackets", json.dumps(dict(base, id="[{" * (n // 2))), one(kind, dict(base, id="[{" * (n // 2)), model=small)),
                                  ("text with a large binary member", json.dumps(big_bin), ref_bin)):
                il = one(kind, t, model=small)
                if il != want:
                    chk.violation(f"{what} of {n} characters is parsed differently from the same credential in short / dict form", f"{kind}-size-dependent {what}",
                                  {"entry": f"parse_{kind}_credential_json", "size": n, "what": what, "impl": il[:200], "reference": want[:200], "base": base})
    for n in fw.size_ladder(cap=70000):
        for lst, keep in ((["usb"] * n + ["nfc"], ["usb"] * n + ["nfc"]), (["bogus"] * n + ["internal", "hybrid"], ["internal", "hybrid"])):
            d = {"id": "AQ", "rawId": "AQ", "type": "public-key", "response": {"clientDataJSON": "e30", "attestationObject": "o2NmbXQ", "transports": lst}}
            il = one("reg", d, model=(n <= 1100))
            want = "Y " + impl.wlist(fw.ws, keep)
            if il.startswith("OK") and not il.endswith(want + " N"):
                chk.violation(f"a transports list of {len(lst)} entries is not kept exactly (recognised values, in order)", "reg-size-dependent transports", {"entry": "parse_registration_credential_json", "count": len(lst), "impl": il[-200:], "expected_tail": want[-200:]})
    # 1g. numbers in every JSON spelling, as an ignored member and in place of each typed member - incl. integers longer than the interpreter
    #     converts by default (json.loads raises a plain ValueError for those: still "refused with the library's exception")
    NUMS = ["1" + "0" * 5000, "-" + "9" * 4301, "1" * 4300, "1E400", "-1E400", "1e-400", "-0", "-0.0", "1.0", "1E3", "0.1e1", "NaN", "Infinity", "-Infinity",
            "123456789012345678901234567890", "[[" + "7" * 6000 + "]]", '{"n": ' + "3" * 4400 + "}", "1.5e+2", "9007199254740993"]
    for kind, body in (("auth", '"response": {"clientDataJSON": "e30", "authenticatorData": "AAAA", "signature": "c2ln"%s}'), ("reg", '"response": {"clientDataJSON": "e30", "attestationObject": "o2NmbXQ"%s}')):
        ref = one(kind, '{"id": "AQ", "rawId": "AQ", "type": "public-key", ' + (body % "") + "}")
        for num in NUMS:
            for where, t in (("ignored top-level member", '{"id": "AQ", "rawId": "AQ", "type": "public-key", "zz": ' + num + ", " + (body % "") + "}"),
                             ("ignored response member", '{"id": "AQ", "rawId": "AQ", "type": "public-key", ' + (body % (', "zz": ' + num)) + "}"),
                             ("clientExtensionResults", '{"id": "AQ", "rawId": "AQ", "type": "public-key", "clientExtensionResults": {"x": ' + num + "}, " + (body % "") + "}"),
                             ("in place of id", '{"id": ' + num + ', "rawId": "AQ", "type": "public-key", ' + (body % "") + "}"),
                             ("in place of response", '{"id": "AQ", "rawId": "AQ", "type": "public-key", "response": ' + num + "}"),
                             ("the whole text", num)):
                il = one(kind, t, model=True)
                try:
                    v = json.loads(t)
                except ValueError:
                    v = ValueError
                if v is ValueError:
                    if il != "ERR Lib:InvalidJSONStructure":
                        chk.violation(f"credential text that json.loads refuses ({where}: a number written {num[:12]}...) is not refused with the structure exception: {il}", f"{kind}-number-spelling {where} {il}",
                                      {"entry": f"parse_{kind}_credential_json", "text": t[:300] + ("..." if len(t) > 300 else ""), "text_length": len(t), "impl": il})
                elif where.startswith(("ignored", "clientExtensionResults")) and il != ref:
                    chk.violation(f"a number written {num[:16]} in an ignored member changed the parsed credential", f"{kind}-number-spelling-not-ignored {where}", {"entry": f"parse_{kind}_credential_json", "text": t[:300], "impl": il, "reference": ref})
        # the dict form can hold such integers too (they are simply values of the wrong type, or ignored)
        for big in (10 ** 5000, -10 ** 4400, [10 ** 5000], {"n": 10 ** 5000}):
            for mem in ("id", "rawId", "type", "authenticatorAttachment", "zz"):
                d = {"id": "AQ", "rawId": "AQ", "type": "public-key", "response": json.loads("{" + (body % "") + "}")["response"]}
                d[mem] = big
                il = impl.parse_auth_cred(d) if kind == "auth" else impl.parse_reg_cred(d)
                chk.evals += 1
                if not il.startswith("OK") and il not in LIB_OK:
                    chk.violation(f"credential dict whose member {mem} holds a very long integer is refused with a non-library exception: {il}", f"{kind}-huge-integer {mem} {il}",
                                  {"entry": f"parse_{kind}_credential_json", "member": mem, "value": "10**5000-like integer (or nested)", "impl": il})
                if mem == "zz" and il != ref:
                    chk.violation("a very long integer in an ignored member changed the parsed credential", f"{kind}-huge-integer-not-ignored", {"member": mem, "impl": il, "reference": ref})
    # 1h. text that is ALMOST JSON: raw control characters inside a string member (a hard-wrapped base64 value, a NUL), single quotes, trailing commas, comments,
    #     unquoted names, a byte order mark in a str: json.loads refuses them, so the parsers refuse them with the structure exception
    for kind, body in (("auth", '"response": {"clientDataJSON": "e30", "authenticatorData": "AA%sAA", "signature": "c2ln"}'), ("reg", '"response": {"clientDataJSON": "e30", "attestationObject": "o2Nm%sbXQ"}')):
        for junk in ("\n", "\r\n", "\t", "\x00", "\x1f", "\x0b", "\n\n  "):
            for t in ('{"id": "AQ", "rawId": "AQ", "type": "public-key", ' + (body % junk) + "}", '{"id": "A' + junk + 'Q", "rawId": "AQ", "type": "public-key", ' + (body % "") + "}",
                      '{"id": "AQ", "rawId": "A' + junk + 'Q", "type": "public-key", ' + (body % "") + "}"):
                il = one(kind, t)
                try:
                    json.loads(t)
                    refused = False
                except ValueError:
                    refused = True
                if refused and il != "ERR Lib:InvalidJSONStructure":
                    chk.violation(f"credential text with a raw control character ({junk!r}) inside a string - no JSON - is not refused with the structure exception: {il[:60]}", f"{kind}-almost-json control-character",
                                  {"entry": f"parse_{kind}_credential_json", "text": t, "impl": il})
        good = '{"id": "AQ", "rawId": "AQ", "type": "public-key", ' + (body % "") + "}"
        for what, t in (("single quotes", good.replace('"', "'")), ("trailing comma", good[:-1] + ",}"), ("comment", good[:-1] + "/* c */}"), ("unquoted name", good.replace('"id"', "id")),
                        ("byte order mark in a str", "\ufeff" + good), ("two documents", good + good), ("NaN as a name", good[:-1] + ', NaN: 1}'), ("hex number", good[:-1] + ', "n": 0x10}'),
                        ("leading zero", good[:-1] + ', "n": 01}'), ("plus sign", good[:-1] + ', "n": +1}'), ("bare escape", good.replace("AQ", "A\\qQ", 1))):
            il = one(kind, t)
            try:
                json.loads(t)
                refused = False
            except ValueError:
                refused = True
            if refused and il != "ERR Lib:InvalidJSONStructure":
                chk.violation(f"credential text that is almost JSON ({what}) is not refused with the structure exception: {il[:60]}", f"{kind}-almost-json {what}", {"entry": f"parse_{kind}_credential_json", "text": t, "impl": il})
    # 2. member-wise mutation stream, both parsers, both forms
    base_a = {"id": "AQ", "rawId": "AQ", "type": "public-key", "authenticatorAttachment": "platform",
              "response": {"clientDataJSON": "e30", "authenticatorData": "AAAA", "signature": "c2ln", "userHandle": "dWg"}}
    base_r = {"id": "AQ", "rawId": "AQ", "type": "public-key", "authenticatorAttachment": "cross-platform",
              "response": {"clientDataJSON": "e30", "attestationObject": "o2NmbXQ", "transports": ["usb", "bogus", "nfc"]}}
    # systematic: every member x every value
    for kind, base in (("auth", base_a), ("reg", base_r)):
        for p in [p for p in jsonmut.paths(base) if p]:
            for v in jsonmut.VALUES + ["__absent__"]:
                d = copy.deepcopy(base)
                par = jsonmut.get_parent(d, p)
                if v == "__absent__":
                    del par[p[-1]]
                else:
                    par[p[-1]] = copy.deepcopy(v)
                one(kind, d)
                if rng.random() < 0.3:
                    one(kind, json.dumps(d))
        for v in jsonmut.VALUES:
            one(kind, json.dumps(v))
            if isinstance(v, dict):
                one(kind, v)
        # a JSON *string* whose content is itself the JSON text of a credential is not an object
        for t in [json.dumps(json.dumps(base)), json.dumps(json.dumps(json.dumps(base))), json.dumps([base]), json.dumps(" " + json.dumps(base)),
                  json.dumps("{}"), " " + json.dumps(base) + "\n"]:
            one(kind, t)
        for t in ["", "{", "[1,", "nul", '{"id":}', "é", '{"id": "\ud800"}'.encode("utf-8", "surrogatepass").decode("utf-8", "surrogatepass") if False else '{"a":1}x']:
            one(kind, t)
    for i in range(400 if quick else 20000):
        kind, base = rng.choice((("auth", base_a), ("reg", base_r)))
        d = jsonmut.mutate(base, rng)
        one(kind, json.dumps(d) if rng.random() < 0.4 else d) if isinstance(d, (dict, str)) or True else None
    # deep nesting (far below the recursion limit)
    deep = {"id": "AQ", "rawId": "AQ", "type": "public-key", "response": {"clientDataJSON": "e30", "authenticatorData": "AAAA", "signature": "c2ln"}}
    x = "leaf"
    for _ in range(50):
        x = {"n": [x]}
    deep["clientExtensionResults"] = x
    one("auth", deep)
    one("auth", json.dumps(deep))
    # 3. client data JSON
    def cd(b, expect=None):
        il = impl.parse_client_data(b)
        chk.evals += 1
        rp = {"entry": "parse_client_data_json", "input_hex": b.hex(), "impl": il}
        if expect is not None and il != "OK " + expect:
            chk.violation("client data not decoded to exactly type/challenge/origin", "clientdata-unfaithful", dict(rp, expected=expect))
        try:
            json.loads(b)
            refuses = False
        except ValueError:
            refuses = True
        except Exception:
            refuses = None
        if refuses and il != "ERR Lib:InvalidJSONStructure":
            chk.violation(f"client data bytes that json.loads refuses are not refused with the structure exception: {il}", f"clientdata-undecodable {il}", rp)
        if R:
            ml = R.call("clientdata " + fw.wb(b))
            if not fw.exn_refines(ml, il) or (ml.startswith("ERR Lib:") and ml != il):
                chk.diverge("Model.parse_client_data", f"model {ml[:90]} impl {il[:90]} input {b[:120]!r}", rp)
        chk.count("cd:" + il[:26])
        chk.seen(("cd", b))
    for i in range(100 if quick else 3000):
        typ = rng.choice(["webauthn.get", "webauthn.create", "x", ""])
        ch = rng.randbytes(rng.choice([0, 1, 16, 32, 64]))
        org = rng.choice(["https://example.com", "", "https://bücher.example", "android:apk-key-hash:x"])
        if rng.random() < 0.5:      # exactly the member's text: no trimming, case folding or normalisation of any kind
            org = rng.choice(["", " ", "/", "\t"]) + org + "".join(rng.choice("/ .:#?%A\u00e9\t\n\\\"'") for _ in range(rng.randrange(1, 4)))
            typ = typ + rng.choice(["", " ", "/", "\u0000", "GET"])
        extra = rng.choice([{}, {"crossOrigin": True}, {"zzz": [1, 2, {"a": None}], "aaa": 0.5}, {"tokenBinding": {"status": "supported", "id": "x"}},
                            {"topOrigin": None}, {"topOrigin": 0}, {"topOrigin": []}, {"topOrigin": {}}, {"topOrigin": "https://top.example", "crossOrigin": True}, {"crossOrigin": "yes"},
                            {"crossOrigin": None}, {"androidPackageName": 5}, {"other_keys_can_be_added_here": ["do not compare clientDataJSON against a template"]}, {"hashAlgorithm": "SHA-256"},
                            {"tokenBinding": "string"}, {"tokenBinding": {"status": "weird"}}, {"tokenBinding": {"status": 5}}])
        d = {"type": typ, "challenge": authsim.b64u(ch), "origin": org}
        d.update(extra)
        items = list(d.items()); rng.shuffle(items); d = dict(items)
        tb = extra.get("tokenBinding")
        tbs = impl.opt(json_to_wire, tb["status"]) if isinstance(tb, dict) else "N"
        cd(json.dumps(d).encode(), " ".join([json_to_wire(typ), fw.wb(ch), json_to_wire(org), tbs]))
    # the client data in every Unicode encoding json.loads detects for bytes (UTF-8 with a byte order mark, UTF-16 / UTF-32 with and without one), and with
    # escaped lone surrogates / non-BMP characters in members: exactly the object's type, challenge and origin
    for typ, org, extra in (("webauthn.get", "https://example.com", {}), ("webauthn.create", "https://b\u00fccher.example", {"zz": "\ud83d\ude00"}), ("t", "o", {"lone": "\ud800", "k": ["\udfff"]})):
        chb = b"\x01\x02challenge"
        d = {"type": typ, "challenge": authsim.b64u(chb), "origin": org}
        d.update(extra)
        text = json.dumps(d)
        expect = " ".join([json_to_wire(typ), fw.wb(chb), json_to_wire(org), "N"])
        for enc in ("utf-8", "utf-8-sig", "utf-16", "utf-16-le", "utf-16-be", "utf-32", "utf-32-le", "utf-32-be"):
            cd(text.encode(enc), expect)
        d2 = dict(d, origin="\ud800x")
        cd(json.dumps(d2).encode(), " ".join([json_to_wire(typ), fw.wb(chb), json_to_wire("\ud800x"), "N"]))
    for v in jsonmut.VALUES + [["type", "challenge", "origin"], "type challenge origin", {"type": 1, "challenge": None, "origin": []},
                               {"type": "t", "challenge": 123, "origin": "o"}, {"type": "t", "challenge": True, "origin": "o"},
                               {"type": "t", "challenge": "A", "origin": "o"}, {"type": "t", "origin": "o"}, {"challenge": "", "origin": "o"},
                               {"type": "t", "challenge": "", "origin": "o", "tokenBinding": {}}]:
        cd(json.dumps(v).encode())
    for num in ("1" + "0" * 5000, "-" + "9" * 4301, "1E400", "NaN", "-0", "1.0", "[" + "7" * 6000 + "]"):
        cd(('{"type": "t", "challenge": "AA", "origin": "o", "zz": ' + num + "}").encode(), None)
        cd(('{"type": "t", "challenge": ' + num + ', "origin": "o"}').encode(), None)
        cd(num.encode(), None)
    for b in [b"", b"{", b"\xff\xfe", b"\xef\xbb\xbf{}", b"\xef\xbb\xbf\xbb{}", b'{"type": "\xe9"}', b"\x00", b'{"a": "\xed\xa0\x80"}', b'{"type":"a","challenge":"AA","origin":"\xff"}', "{}".encode("utf-16")]:
        cd(b)
    chk.sample({"client_data": '{"type":"t","challenge":123,"origin":"o"}', "impl": impl.parse_client_data(b'{"type":"t","challenge":123,"origin":"o"}')})
    if R:
        R.close()
    fw.env_invariance(chk, "codec")          # the same seeded cases under -O / -OO, warnings-as-errors, other TZ / locale, a private CA bundle
    return fw.finish(chk, ob, br, TRUSTED,
                     ["JSON values are those json.loads can produce (null/bool/int/float/str/list/dict with str keys); nesting depth of generated inputs <= 50",
                      "for non-string challenges the f-string formatting of floats/lists/dicts is not modelled (model answers Unmodelled; only accept/reject-class compared)"],
                     RULE, "coqc -Q . PW Properties/C13.v; thorough: coqchk -o")


def replay(path):
    r = json.load(open(path))
    rp = r.get("replay", {})
    print(json.dumps(r, indent=1)[:2000])
    if "input" in rp:
        f = impl.parse_auth_cred if "authentication" in rp["entry"] else impl.parse_reg_cred
        print("impl now:", f(rp["input"]))
    return 0
