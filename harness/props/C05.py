"""C05 - completeness and fidelity: conformant ceremonies accepted, reported exactly."""
import json, uuid, cbor2
from harness import srcdict, fw, impl, authsim, authcat, authrun, regsim, regcat, regrun, cborgen

TRUSTED = [
    "Coq 8.16.1 kernel; fidelity theorems (returned fields = what the authenticator data says) hold for arbitrary oracles; completeness theorems are stated under oracle completeness hypotheses",
    "the TCG vendor-id registry (v1.07) list is entered once in coq/Spec/TpmSpec.v and in this harness; the library's table is the regenerated constant",
    "extraction + driver; ceremony simulator decides which conformant ceremonies are explored",
]
RULE = ("seeded sampling of the product format x credential algorithm/curve x attestation-key algorithm x flags x counter class x id-length class x extension map x client-data "
        "variation x RP policy under which the ceremony is valid, every TCG vendor id once; every returned field compared with the generator's values. "
        "distinct_nontrivial = distinct (format, kinds, flags, counter class, id length class, variation) cells")

# TCG TPM Vendor ID Registry, Family 1.2 and 2.0, version 1.07 (hex spelling as in the registry: upper case)
TCG_VENDORS = ["414D4400", "414E5400", "41544D4C", "4252434D", "4353434F", "464C5953", "524F4343", "474F4F47", "48504900", "48504500", "48495349", "49424D00",
               "49465800", "494E5443", "4C454E00", "4D534654", "4E534D20", "4E545A00", "4E534700", "4E544300", "51434F4D", "534D534E", "53454345", "534E5300",
               "534D5343", "53544D20", "54584E00", "57454300", "5345414C"]


def expected_reg_line(s, reg, pd, cose_bytes, aaguid):
    f = s.flags
    return "OK " + " ".join([fw.wb(s.cred_id), fw.wb(cose_bytes), fw.wi(s.count), fw.ws(str(uuid.UUID(bytes=aaguid))), fw.wb(s.fmt_name().encode()), fw.ws("public-key"),
                             fw.wbool(bool(f & 4)), fw.wb(reg.att_obj), fw.wbool(bool(f & 8)), fw.wbool(bool(f & 16))])


CLIENT_EXT = [{}, {"credProps": {}}, {"credProps": {"rk": True}}, {"credProps": {"rk": False}}, {"appid": True}, {"credProps": {"rk": None}}, {"largeBlob": {"supported": True}},
              {"prf": {"enabled": True}}, {"credProps": {"rk": True, "authenticatorDisplayName": "Key"}}, {"hmacCreateSecret": True, "credProps": {}}, {"unknownExtension": [1, {"a": None}]}]


def run(tier, seed):
    chk = fw.Check("C05", tier, seed)
    br, ob = fw.standard_prelude(chk, with_coqchk=(tier == "thorough"))
    rng = chk.rng
    B = regrun.RegBench(chk, br)
    A = authrun.AuthBench(chk, br)
    quick = tier == "quick"
    counters = [0, 1, 2 ** 31 - 1, 2 ** 31, 2 ** 32 - 1]
    idlens = [1, 16, 64, 255, 256, 1023]
    flagsets = [0x41, 0x45, 0x4D, 0x5D, 0x59, 0x47, 0x65, 0xC5, 0xDD, 0xFF & ~0x10 | 0x18]
    n = 14 if quick else 160
    for fmt in regsim.FORMATS:
        kinds = regcat.applicable_kinds(fmt)
        akinds = regcat.att_kinds(fmt)
        for i in range(n):
            kind = kinds[i % len(kinds)]
            s = regsim.RScn(fmt, kind, akinds[(i // 2) % len(akinds)])
            s.flags = flagsets[i % len(flagsets)] | 0x40
            if (s.flags & 0x10) and not (s.flags & 0x08):
                s.flags |= 0x08
            s.count = counters[i % len(counters)] if i % 7 else rng.randrange(2 ** 32)
            s.cred_id = rng.randbytes(idlens[i % len(idlens)] if i % 5 else rng.randrange(1, 1024))
            s.aaguid = bytes([(0x04, 0x10, 0x00, 0xFF, rng.randrange(256), rng.randrange(256))[i % 6]]) + rng.randbytes(15)
            if i % 7 in (2, 5):
                # ids are opaque: byte patterns that mean something elsewhere in authenticator data (the known-malformed EdDSA key header, CBOR map
                # headers, every binary literal the changed source newly mentions) mean nothing inside an id
                pats = [bytes.fromhex("a301634f4b500327206745643235353139"), bytes.fromhex("a401634f4b500327206745643235353139"), bytes.fromhex("a5010203262001"), b"\xef\xbb\xbf"] + srcdict.blobs()
                pt = pats[(i // 7) % len(pats)]
                s.cred_id = (rng.randbytes((0, 1, 5, 40)[(i // 7) % 4]) + pt + rng.randbytes((0, 3)[i % 2]))[:1023]
            if fmt == "packed" and i % 2 == 0:
                s.k["packed_aaguid_ext"] = True
            if s.flags & 0x80:
                s.ext = cbor2.dumps(cborgen.gen_ext(rng))
            s.require_uv = bool(s.flags & 4) and bool(i % 2)
            s.require_up = bool(s.flags & 1)
            if i % 3 == 0:
                s.cd_extra = {"crossOrigin": False, "other_keys_can_be_added_here": "do not compare clientDataJSON against a template", "extra": [1, {"a": None}]}
            if i % 4 == 1:
                s.token_binding = rng.choice([{"status": "supported"}, {"status": "present", "id": "tb-id"}, "legacy-string-value"])
            if i % 4 == 2:        # native app facets: the payload is case-sensitive
                s.origin = ("android:apk-key-hash:Z8a8pvVL-_AbCdEfGhIjKlMnOpQrStUvWxYz0123456", "ios:bundle-id:com.Example.App")[(i // 4) % 2]
            if i % 5 == 3:
                s.exp_origin = ["https://x.example", s.origin, "https://y.example"]
            s.n_inter = 0 if fmt == "fido-u2f" else i % 3
            # RP policies under which the ceremony is valid: for the built-in-root formats the RP may add (unrelated) roots of its own
            s.roots_mode = ("rp", "none", "several")[i % 3] if fmt in ("packed", "fido-u2f", "tpm") else (("rp", "extra-unrelated", "rp-only")[i % 3] if fmt in regsim.X5C_FORMATS else "rp")
            if fmt == "tpm":
                s.k["tpm_name_alg"] = ("SHA256", "SHA1", "SHA384", "SHA512")[i % 4]
            if fmt in regsim.X5C_FORMATS and i % 7 == 3:
                s.k["leaf_issuer_respelled"] = True          # the leaf names its issuer in another spelling of the same distinguished name (case, blanks, string type)
            if fmt in regsim.X5C_FORMATS and i % 7 == 5:
                s.k["pki_kw"] = dict(s.k.get("pki_kw", {}), root_v1=True)          # the root is an X.509 v1 certificate
            if fmt in regsim.X5C_FORMATS and i % 5 in (2, 4):
                # certificates signed over another digest than SHA-256 (attestation CAs of 2014-2016 signed over SHA-1): the default verification parameters accept them
                s.k["chain_sig_hash"] = ("sha1", "sha384", "sha512", "sha1", "sha224")[(i // 5) % 5]
            if fmt in regsim.X5C_FORMATS and i % 4 in (1, 2):
                # the attestation certificate's EC key written as a compressed point: the same key in another valid SubjectPublicKeyInfo encoding
                s.k["leaf_spki_compressed"] = True
            # the attestation object in any of the encodings CBOR allows for the same value (member order, indefinite lengths, wider length fields), and a credential
            # key with further (ignored) COSE members
            s.k["ao_style"] = cborgen.AO_STYLES[i % len(cborgen.AO_STYLES)]
            if i % 6 == 4 and fmt in ("none", "packed-self", "packed"):
                cm = dict(authsim.Cred(kind).cose_map())
                cm.update({2: b"key-id", 4: [1, 2]} if i % 12 == 4 else {-70000: b"vendor", "note": "x"})
                s.k["cose_bytes"] = cbor2.dumps(cm)
            trust_list_with_inter = fmt in ("packed", "tpm", "apple", "android-safetynet") and i % 7 in (3, 6)
            if trust_list_with_inter:
                s.n_inter, s.roots_mode = 1, ("rp" if i % 7 == 6 else ("several" if fmt in ("packed", "tpm") else "rp-only"))
                # the statement carries only the leaf; the RP's trust list (as FIDO metadata has it) holds the root AND the issuing intermediate
                s.k["x5c_override"] = lambda pki, leaf: [regsim.der(leaf)]
            pd, reg = regsim.build(s)
            if trust_list_with_inter:
                pki_ = regsim.PKI(tag=s.pki_tag, n_inter=1, **s.k.get("pki_kw", {}))
                inter_pem = regsim.pem(pki_.inters[0])
                if pd.get("roots", {}).get(s.fmt_name()):
                    pd = dict(pd, roots={f: (list(l) + [inter_pem] if f == s.fmt_name() else l) for f, l in pd["roots"].items()})
                else:
                    pd = dict(pd, roots=dict(pd.get("roots") or {}, **{s.fmt_name(): [inter_pem]}))      # (built-in root in force, the RP adds the intermediate)
            if i % 6 == 3 and pd.get("roots"):
                # the same anchors in other admissible PEM spellings (leading newline, comment / `openssl x509` preamble, CRLF, trailing text)
                deco = [lambda p: b"\n" + p, lambda p: b"# RP trust anchor\n" + p, lambda p: b"subject=/CN=anchor\nissuer=/CN=anchor\n" + p,
                        lambda p: p.replace(b"\n", b"\r\n"), lambda p: p + b"\ntrailing text\n"][(i // 6) % 5]
                pd = dict(pd, roots={f: [deco(p) for p in l] for f, l in pd["roots"].items()})
            # whatever client extension results a conformant client reports (clientExtensionResults is no part of what is verified)
            reg.client_ext = CLIENT_EXT[i % len(CLIENT_EXT)]
            cred = authsim.Cred(kind)
            aag = bytes(16) if fmt == "fido-u2f" else s.aaguid
            exp = expected_reg_line(s, reg, pd, s.k.get("cose_bytes", cred.cose_bytes), aag)
            form = regrun.FORMS[i % 3]
            il, ml = B.run_case(regrun.policy_of(pd), reg, form, "accept", f"conformant/{fmt}", scn=s)
            if il.startswith("OK") and il != exp:
                chk.violation(f"registration result does not report exactly what the authenticator data says ({fmt})", f"reg-fields {fmt}",
                              {"entry": "verify_registration_response", "scenario": s.describe(), "impl": il[:500], "expected": exp[:500]})
        chk.sample({"format": fmt, "kind": kind, "flags": s.flags, "count": s.count, "cred_id_len": len(s.cred_id)})
    # SafetyNet ceremonies whose attestation and verification fall on opposite sides of a daylight-saving switch of the server's time zone (5 seconds apart)
    import os, time as _time, calendar
    saved_tz = os.environ.get("TZ")
    try:
        for tz, sw in (("CET-1CEST,M3.5.0,M10.5.0/3", (2024, 10, 27, 1, 0, 0)), ("CET-1CEST,M3.5.0,M10.5.0/3", (2024, 3, 31, 1, 0, 0)), ("EST5EDT,M3.2.0,M11.1.0", (2024, 11, 3, 6, 0, 0)),
                       ("EST5EDT,M3.2.0,M11.1.0", (2024, 3, 10, 7, 0, 0)), ("UTC", (2024, 10, 27, 1, 0, 0))):
            os.environ["TZ"] = tz
            _time.tzset()
            X = calendar.timegm(sw + (0, 0, 0))
            for now, age in ((X + 2, 5), (X + 3, 9), (X - 1, 3), (X + 3602, 5)):
                s = regsim.RScn("android-safetynet", "ES256-P256")
                s.now = now
                s.n_inter = 1
                s.k["sn_timestamp"] = (now - age) * 1000
                s.k["leaf_nb"], s.k["leaf_na"] = now - regsim.DAY, now + regsim.DAY
                s.k["pki_kw"] = dict(root_nb=now - 1000 * regsim.DAY, root_na=now + 1000 * regsim.DAY, inter_nb=now - 100 * regsim.DAY, inter_na=now + 100 * regsim.DAY)
                pd, reg = regsim.build(s)
                B.run_case(regrun.policy_of(pd), reg, "dict", "accept", f"conformant/android-safetynet across a daylight-saving switch TZ={tz.split(',')[0]}", scn=s)
    finally:
        if saved_tz is None:
            os.environ.pop("TZ", None)
        else:
            os.environ["TZ"] = saved_tz
        _time.tzset()
    # RSA credentials whose public exponent is not 65537 (3, 17, 65539, a 5-byte one): conformant, through registration formats that use the credential key and authentication
    for e in (3, 17, 65539, 0x0100000001):
        rc = authsim.rsa_cred_exponent(e)
        for fmt in ("none", "packed-self"):
            s = regsim.RScn(fmt, "RS256")
            s.k["cose_bytes"] = rc.cose_bytes
            if fmt == "packed-self":
                s.k["signer"] = rc
            pd, reg = regsim.build(s)
            reg.cred = rc
            B.run_case(regrun.policy_of(pd), reg, "dict", "accept", f"conformant/{fmt} rsa-exponent-{e}", scn=s)
        sa = authcat.Scn("RS256")
        pol0, a = sa.build()
        import hashlib as _hl
        a.sig = rc.sign(a.ad + _hl.sha256(a.cdj).digest())
        A.run_case(impl.AuthPolicy(pol0.challenge, pol0.rp_id, pol0.origin, rc.cose_bytes, pol0.count, False), a, "record", "accept", f"conformant-assertion rsa-exponent-{e}")
    # RSA credentials whose primes have arithmetic structure (the shape ROCA detectors fingerprint; primes close to one another): weak keys, conformant ceremonies
    for structure in ("roca", "close-primes"):
        rc = authsim.rsa_cred_structured(structure)
        for fmt in ("none", "packed-self"):
            s = regsim.RScn(fmt, "RS256")
            s.k["cose_bytes"] = rc.cose_bytes
            if fmt == "packed-self":
                s.k["signer"] = rc
            pd, reg = regsim.build(s)
            reg.cred = rc
            B.run_case(regrun.policy_of(pd), reg, "dict", "accept", f"conformant/{fmt} rsa-primes-{structure}", scn=s)
        sa = authcat.Scn("RS256")
        pol0, a = sa.build()
        import hashlib as _hl
        a.sig = rc.sign(a.ad + _hl.sha256(a.cdj).digest())
        A.run_case(impl.AuthPolicy(pol0.challenge, pol0.rp_id, pol0.origin, rc.cose_bytes, pol0.count, False), a, "record", "accept", f"conformant-assertion rsa-primes-{structure}")
    # every TCG vendor id
    for v in TCG_VENDORS:
        s = regsim.RScn("tpm", "RS256", "RS256")
        s.k["tpm_manufacturer"] = "id:" + v
        pd, reg = regsim.build(s)
        B.run_case(regrun.policy_of(pd), reg, "dict", "accept", f"tpm-vendor id:{v}", scn=s)
    # authentication: all algorithms x admissible flags x counters x variations
    for i in range(40 if quick else 600):
        kind = list(authsim.KINDS)[i % len(authsim.KINDS)]
        s = authcat.base_variation(authcat.Scn(kind), rng)
        pol, a = s.build()
        a.client_ext = [{}, {"appid": False}, {"prf": {"results": {"first": "AAAA"}}}, {"largeBlob": {"blob": "AAAA"}}, {"credProps": {}}, {"uvm": [[2, 4, 2]]}][i % 6]
        il, ml = A.run_case(pol, a, authrun.FORMS[i % 3], "accept", "conformant-assertion")
        f = s.flags
        exp = "OK " + " ".join([fw.wb(s.cred_id), fw.wi(s.count), fw.wbool(bool(f & 8)), fw.wbool(bool(f & 16)), fw.wbool(bool(f & 4))])
        if il.startswith("OK") and il != exp:
            chk.violation("authentication result does not report exactly what the authenticator data says", "auth-fields", {"scenario": s.describe(), "impl": il, "expected": exp})
    B.close(); A.close()
    fw.env_invariance(chk, "auth", "reg")          # the same seeded cases under -O / -OO, warnings-as-errors, other TZ / locale, a private CA bundle
    return fw.finish(chk, ob, br, TRUSTED,
                     ["'conformant' = produced by the ceremony simulator from admissible parameters; RS1 credentials are presented with RS1 in the allowed list",
                      "vendor ids are spelt as in the TCG registry (upper-case hex)"],
                     RULE, "coqc -Q . PW Properties/C05.v; thorough: coqchk -o")


def replay(path):
    print(open(path).read()[:4000])
    return 0
