"""C16 - options serialise to the WebAuthn JSON wire format and parse back unchanged."""
import json, copy, dataclasses
from harness import fw, impl, optsim, oracle, jsonmut
from harness.oracle import json_to_wire

TRUSTED = [
    "Coq 8.16.1 kernel; C16 theorems over the model: produced JSON satisfies the wire schema predicate, parse(to_json o) = normalise o, refusal of missing / ill-typed required scalars and unknown enum values",
    "json.dumps / json.loads are oracles: the model works on the JSON value; the real text is exercised by the correspondence run",
    "extraction + driver",
]
RULE = ("options from random admissible generator arguments (all enum members, 0-n descriptors with and without transports, all subsets of optionals) through options_to_json and both "
        "parsers in text and dict form: wire-shape predicate (member names, enum strings, numeric alg ids, unpadded base64url, no nulls) evaluated on the real text, round trip compared "
        "with the original object; every deletion / type change of each required scalar member and unknown enum values. distinct_nontrivial = distinct JSON inputs")
LIB_IJS = "ERR Lib:InvalidJSONStructure"
B64 = set("ABCDEFGHIJKLMNOPQRSTUVWXYZabcdefghijklmnopqrstuvwxyz0123456789-_")


def no_nulls(j, path="$"):
    if j is None:
        return [path]
    if isinstance(j, dict):
        return [p for k, v in j.items() for p in no_nulls(v, path + "." + k)]
    if isinstance(j, list):
        return [p for i, v in enumerate(j) for p in no_nulls(v, f"{path}[{i}]")]
    return []


def is_b64(s):
    return isinstance(s, str) and set(s) <= B64


def schema_creation(j, a):
    """PublicKeyCredentialCreationOptionsJSON shape; returns list of problems"""
    bad = no_nulls(j)
    def need(c, m):
        if not c:
            bad.append(m)
    need(isinstance(j.get("rp"), dict) and isinstance(j["rp"].get("name"), str) and isinstance(j["rp"].get("id", ""), str), "rp")
    u = j.get("user")
    need(isinstance(u, dict) and is_b64(u.get("id")) and isinstance(u.get("name"), str) and isinstance(u.get("displayName"), str), "user")
    need(is_b64(j.get("challenge")), "challenge")
    p = j.get("pubKeyCredParams")
    need(isinstance(p, list) and all(isinstance(x, dict) and x.get("type") == "public-key" and isinstance(x.get("alg"), int) and not isinstance(x.get("alg"), bool) for x in p), "pubKeyCredParams")
    need("timeout" not in j or (isinstance(j["timeout"], int) and not isinstance(j["timeout"], bool)), "timeout")
    for key in ("excludeCredentials",):
        if key in j:
            need(isinstance(j[key], list) and all(isinstance(c, dict) and is_b64(c.get("id")) and c.get("type") == "public-key" and
                                                 ("transports" not in c or (isinstance(c["transports"], list) and c["transports"] and all(t in optsim.TRANSPORTS for t in c["transports"]))) for c in j[key]), key)
    if "authenticatorSelection" in j:
        s = j["authenticatorSelection"]
        need(isinstance(s, dict) and s.get("authenticatorAttachment", "platform") in optsim.ATTACH and s.get("residentKey", "required") in optsim.RK and
             isinstance(s.get("requireResidentKey", False), bool) and s.get("userVerification", "preferred") in optsim.UV, "authenticatorSelection")
    need(j.get("attestation", "none") in optsim.ATTEST, "attestation")
    need("hints" not in j or (isinstance(j["hints"], list) and all(h in optsim.HINTS for h in j["hints"])), "hints")
    need(set(j) <= {"rp", "user", "challenge", "pubKeyCredParams", "timeout", "excludeCredentials", "authenticatorSelection", "attestation", "hints"}, "unknown member")
    return bad


def schema_request(j):
    bad = no_nulls(j)
    def need(c, m):
        if not c:
            bad.append(m)
    need(is_b64(j.get("challenge")), "challenge")
    need("timeout" not in j or (isinstance(j["timeout"], int) and not isinstance(j["timeout"], bool)), "timeout")
    need("rpId" not in j or isinstance(j["rpId"], str), "rpId")
    if "allowCredentials" in j:
        need(isinstance(j["allowCredentials"], list) and all(isinstance(c, dict) and is_b64(c.get("id")) and c.get("type") == "public-key" and
             ("transports" not in c or (isinstance(c["transports"], list) and c["transports"] and all(t in optsim.TRANSPORTS for t in c["transports"]))) for c in j["allowCredentials"]), "allowCredentials")
    need(j.get("userVerification", "preferred") in optsim.UV, "userVerification")
    need(set(j) <= {"challenge", "timeout", "rpId", "allowCredentials", "userVerification"}, "unknown member")
    return bad


def normalise(o):
    """documented defaults of unset optional sub-members: empty transport list -> None; selection sub-defaults"""
    o = copy.deepcopy(o)
    # records of an RP's own subclass count as the library record they extend (the extra fields are the RP's business)
    import dataclasses as _dc
    from webauthn.helpers import structs as _st
    def _as_base(x):
        for base in (_st.PublicKeyCredentialDescriptor, _st.AuthenticatorSelectionCriteria):
            if isinstance(x, base) and type(x) is not base:
                return base(**{f.name: getattr(x, f.name) for f in _dc.fields(base)})
        return x
    for nm in ("exclude_credentials", "allow_credentials"):
        if getattr(o, nm, None):
            setattr(o, nm, [_as_base(d) for d in getattr(o, nm)])
    if getattr(o, "authenticator_selection", None) is not None:
        o.authenticator_selection = _as_base(o.authenticator_selection)
    for l in (getattr(o, "exclude_credentials", None), getattr(o, "allow_credentials", None)):
        for d in l or []:
            if d.transports == []:
                d.transports = None
    sel = getattr(o, "authenticator_selection", None)
    if sel is not None:
        from webauthn.helpers.structs import UserVerificationRequirement
        if sel.require_resident_key is None:
            sel.require_resident_key = False
        if sel.user_verification is None:
            sel.user_verification = UserVerificationRequirement.PREFERRED
    return o


def run(tier, seed):
    chk = fw.Check("C16", tier, seed)
    br, ob = fw.standard_prelude(chk, with_coqchk=(tier == "thorough"))
    rng = chk.rng
    quick = tier == "quick"
    O = oracle.Oracle()
    R = fw.Runner(O) if br.runner_ok else None
    import webauthn
    from webauthn.helpers import options_to_json, parse_registration_options_json, parse_authentication_options_json

    def parse_both(is_reg, val):
        f = parse_registration_options_json if is_reg else parse_authentication_options_json
        il = impl.outcome(lambda: f(val), optsim.pr_creation if is_reg else optsim.pr_request)
        chk.evals += 1
        if R:
            try:
                w = ("T " + fw.ws(val)) if isinstance(val, str) else ("D " + json_to_wire(val))
            except Exception:
                return il
            ml = R.call(("parseregopt " if is_reg else "parseauthopt ") + w)
            if not fw.exn_refines(ml, il) or (ml.startswith("ERR Lib:") and ml != il):
                chk.diverge("Model.parse_%s_options_json" % ("reg" if is_reg else "auth"), f"model {ml[:100]} impl {il[:100]} input {json.dumps(val)[:160] if not isinstance(val, str) else val[:160]}",
                            {"input": val, "impl": il[:300], "model": ml[:300]})
        return il

    n = 150 if quick else 4000
    for i in range(n):
        is_reg = i % 3 != 0
        a = optsim.gen_reg_args(rng) if is_reg else optsim.gen_auth_args(rng)
        if i % 5 == 1:
            # descriptors that share an id (here and with earlier calls) but list their transports in another order / with repeats
            same = [{"id": b"shared-credential-id", "transports": t} for t in (["usb", "nfc"], ["nfc", "usb"], ["ble"], ["ble", "ble"], ["hybrid", "internal", "hybrid"], None, [])]
            rng.shuffle(same)
            a["exclude" if is_reg else "allow"] = same[: rng.randrange(2, len(same) + 1)]
        if is_reg and i % 6 == 2:
            # every invisible / format trailer once (names are opaque)
            k_ = ("rp_name", "user_name", "display_name")[(i // 6) % 3]
            a[k_] = (a[k_] if isinstance(a[k_], str) and a[k_] else "Lee") + optsim.EDGE_TRAILERS[(i // 6) % len(optsim.EDGE_TRAILERS)]
        arg_shape = optsim.SHAPES[i % len(optsim.SHAPES)]          # (caller values as plain ints / str subclasses / members of the caller's own enums: every generator-reachable object has a JSON text)
        o = webauthn.generate_registration_options(**optsim.shaped(optsim.reg_kwargs(a), arg_shape)) if is_reg else webauthn.generate_authentication_options(**optsim.shaped(optsim.auth_kwargs(a), arg_shape))
        try:
            text = options_to_json(o)
        except Exception as e:
            chk.violation(f"options_to_json raises {type(e).__name__} on options produced by option generation (arguments given as {arg_shape})", f"to-json-raises {'reg' if is_reg else 'auth'} {arg_shape}",
                          {"entry": "options_to_json", "argument_shape": arg_shape, "exception": repr(e)[:200], "args": {k: (v.hex() if isinstance(v, bytes) else v) for k, v in a.items() if k not in ("exclude", "allow")}})
            continue
        j = json.loads(text)
        chk.evals += 1
        rp = {"entry": "options_to_json", "args": {k: (v.hex() if isinstance(v, bytes) else v) for k, v in a.items() if k not in ("exclude", "allow")}, "json": text[:800]}
        probs = schema_creation(j, a) if is_reg else schema_request(j)
        # binary members are the unpadded base64url of the ORIGINAL bytes
        import base64
        def b64(b): return base64.urlsafe_b64encode(b).decode().rstrip("=")
        if j.get("challenge") != b64(o.challenge) or (is_reg and j["user"]["id"] != b64(o.user.id)):
            probs.append("binary member is not base64url of the original bytes")
        for key, lst in (("excludeCredentials", a.get("exclude")), ("allowCredentials", a.get("allow"))):
            if lst and [c["id"] for c in j.get(key, [])] != [b64(d["id"]) for d in lst]:
                probs.append(key + " ids")
        if probs:
            chk.violation("options JSON is not a valid WebAuthn wire-format instance: " + ", ".join(probs[:4]), "wire-shape " + ("reg " if is_reg else "auth ") + probs[0].split("[")[0], rp)
        # model's JSON value
        if R:
            line = optsim.pr_creation(o) if is_reg else optsim.pr_request(o)
            mj = R.call(("regoptjson " if is_reg else "authoptjson ") + line)
            from harness.oracle import rd_json, Toks
            try:
                mjv = rd_json(Toks(mj))
            except Exception:
                mjv = None
            if mjv != j:
                chk.diverge("Model.options_json", f"model {str(mjv)[:150]} impl {text[:150]}", rp)
        # round trip, text and dict
        want = "OK " + (optsim.pr_creation(normalise(o)) if is_reg else optsim.pr_request(normalise(o)))
        for val in (text, j):
            il = parse_both(is_reg, val)
            if il != want:
                chk.violation("parsing the produced JSON does not return an object equal to the original", "roundtrip " + ("reg" if is_reg else "auth"),
                              dict(rp, parsed=il[:600], expected=want[:600], form="text" if isinstance(val, str) else "dict"))
        # equality as Python objects too
        try:
            back = (parse_registration_options_json if is_reg else parse_authentication_options_json)(text)
            if back != normalise(o):
                chk.violation("parsed options object != original (dataclass equality)", "roundtrip-eq " + ("reg" if is_reg else "auth"), dict(rp, parsed=repr(back)[:500]))
        except Exception:
            pass
        chk.seen(text[:500])
        if i < 2:
            chk.sample({"json": text[:300]})
        # refusals: required scalar members deleted / of the wrong JSON type; unknown enum values
        if not quick or i % 2 == 0:
            req = ([("rp",), ("rp", "name"), ("user",), ("user", "id"), ("user", "name"), ("user", "displayName"), ("challenge",), ("attestation",), ("pubKeyCredParams",)]
                   if is_reg else [("challenge",), ("userVerification",)])
            for path in req:
                for v in ("__absent__", None, 5, True, [], {}, 1.5) + (("x",) if path in (("rp",), ("user",), ("pubKeyCredParams",)) else ()):
                    d = copy.deepcopy(j)
                    par = d
                    for k in path[:-1]:
                        par = par[k]
                    if v == "__absent__":
                        par.pop(path[-1], None)
                    else:
                        if path == ("pubKeyCredParams",) and v == []:
                            continue
                        if isinstance(v, dict) and path in (("rp",), ("user",)):
                            pass
                        par[path[-1]] = v
                    il = parse_both(is_reg, d if rng.random() < 0.5 else json.dumps(d))
                    if il != LIB_IJS:
                        chk.violation(f"required member {'.'.join(path)} missing / of wrong type not refused with the structure exception: {il[:60]}",
                                      f"refusal {'.'.join(path)} {type(v).__name__} {il[:40]}", {"input": d, "impl": il[:200]})
            # a list entry with an unknown transport is refused with the structure exception whatever a LATER entry of the same list looks like
            lkey = "excludeCredentials" if is_reg else "allowCredentials"
            for later in ({"id": "QUJDR", "type": "public-key"}, 5, None, {"type": "public-key"}, {"id": "AQ", "type": "public-key", "transports": "usb"}):
                d = copy.deepcopy(j)
                d[lkey] = [{"id": "AQ", "type": "public-key", "transports": ["usb", "teleport"]}, later]
                il = parse_both(is_reg, d if rng.random() < 0.5 else json.dumps(d))
                if il != LIB_IJS:
                    chk.violation(f"a descriptor with an unknown transport, followed by another faulty entry, is not refused with the structure exception: {il[:60]}", f"refusal-order {lkey} {il[:40]}", {"input": d, "impl": il[:200]})
            enums = ([("attestation",), ("authenticatorSelection", "authenticatorAttachment"), ("authenticatorSelection", "residentKey"),
                      ("authenticatorSelection", "userVerification"), ("hints", 0), ("excludeCredentials", 0, "transports", 0), ("pubKeyCredParams", 0, "alg")]
                     if is_reg else [("userVerification",), ("allowCredentials", 0, "transports", 0)])
            for path in enums:
                d = copy.deepcopy(j)
                par = d
                try:
                    for k in path[:-1]:
                        par = par[k]
                    _ = par[path[-1]]
                except Exception:
                    continue
                par[path[-1]] = -999 if path[-1] == "alg" else rng.choice(["bogus", "REQUIRED", "usb "])
                il = parse_both(is_reg, d)
                if il != LIB_IJS:
                    chk.violation(f"unknown enum value at {path} not refused with the structure exception: {il[:60]}", f"refusal-enum {path[-1] if isinstance(path[-1], str) else path[-2]}", {"input": d, "impl": il[:200]})
    # sizes are not limited anywhere: long texts (padding / an ignored member), long binary members and long lists read back like short ones
    for is_reg in (True, False):
        a = optsim.gen_reg_args(rng) if is_reg else optsim.gen_auth_args(rng)
        for n in fw.size_ladder():
            small = n <= 70000
            a2 = dict(a)
            a2["challenge"] = bytes(i % 251 for i in range(n))
            key = "exclude" if is_reg else "allow"
            a2[key] = [{"id": bytes((i * 7) % 253 for i in range(n)), "transports": ["usb"]}] + ([{"id": i.to_bytes(4, "big"), "transports": None} for i in range(n)] if n <= 5000 else [])
            o = webauthn.generate_registration_options(**optsim.reg_kwargs(a2)) if is_reg else webauthn.generate_authentication_options(**optsim.auth_kwargs(a2))
            text = options_to_json(o)
            want = "OK " + (optsim.pr_creation(normalise(o)) if is_reg else optsim.pr_request(normalise(o)))
            f = parse_registration_options_json if is_reg else parse_authentication_options_json
            pr = optsim.pr_creation if is_reg else optsim.pr_request
            o_small = webauthn.generate_registration_options(**optsim.reg_kwargs(dict(a, challenge=b"c" * 16, user_id=b"u" * 8))) if is_reg else webauthn.generate_authentication_options(**optsim.auth_kwargs(dict(a, challenge=b"c" * 16)))
            t_small = options_to_json(o_small)
            want_small = "OK " + pr(normalise(o_small))
            for what, val, w in (("long binary members and lists", text, want), ("whitespace-padded text", t_small + " " * n, want_small), ("leading whitespace", " " * n + t_small, want_small),
                                 ("text with a large ignored member", t_small[:-1] + ', "zz_ignored": "' + "x" * n + '"}', want_small)):
                il = parse_both(is_reg, val) if small else impl.outcome(lambda: f(val), pr)
                chk.evals += 1
                if il != w:
                    chk.violation(f"options JSON ({what}, size {n}) does not read back like the original", f"size-dependent {'reg' if is_reg else 'auth'} {what}",
                                  {"entry": "parse_options_json", "size": n, "what": what, "impl": il[:200], "expected": w[:200]})
    # ids, challenges and user ids whose base64url text happens to be lower-case hex / digits / a word, or whose bytes are themselves base64 / hex / JSON text
    for is_reg in (True, False):
        a = optsim.gen_reg_args(rng) if is_reg else optsim.gen_auth_args(rng)
        for j, lb in enumerate(fw.lookalike_bytes()):
            a2 = dict(a)
            a2["challenge"] = lb if j % 2 else b"c" * 16
            a2["exclude" if is_reg else "allow"] = [{"id": lb, "transports": None}, {"id": lb[::-1] or b"x", "transports": ["usb"]}]
            if is_reg:
                a2["user_id"] = lb[:64] or b"u"
            o = webauthn.generate_registration_options(**optsim.reg_kwargs(a2)) if is_reg else webauthn.generate_authentication_options(**optsim.auth_kwargs(a2))
            text = options_to_json(o)
            want = "OK " + (optsim.pr_creation(normalise(o)) if is_reg else optsim.pr_request(normalise(o)))
            for val in (text, json.loads(text)):
                il = parse_both(is_reg, val)
                if il != want:
                    chk.violation("options with an id / challenge whose encoding looks like another encoding do not read back unchanged", f"roundtrip-lookalike {'reg' if is_reg else 'auth'}",
                                  {"entry": "parse_options_json", "bytes_hex": lb.hex(), "json": text[:400], "parsed": il[:400], "expected": want[:400]})
    # JSON text may repeat a member name (json.loads keeps the last): the text is read exactly like the value json.loads gives for it
    for is_reg in (True, False):
        a = optsim.gen_reg_args(rng) if is_reg else optsim.gen_auth_args(rng)
        o = webauthn.generate_registration_options(**optsim.reg_kwargs(dict(a, challenge=b"c" * 16))) if is_reg else webauthn.generate_authentication_options(**optsim.auth_kwargs(dict(a, challenge=b"c" * 16)))
        t = options_to_json(o)
        j = json.loads(t)
        dups = [('"challenge": "AAAA"', "first"), ('"challenge": 5', "first"), ('"timeout": 1', "first"), ('"timeout": 99999', "last"), ('"challenge": "ZZZZ"', "last")]
        dups += ([('"rp": {"name": "Other", "id": "other.example"}', "first"), ('"attestation": "direct"', "first"), ('"attestation": "enterprise"', "last"), ('"user": {"id": "AA", "name": "n", "displayName": "d"}', "first"),
                  ('"pubKeyCredParams": [{"type": "public-key", "alg": -257}]', "first"), ('"rp": 7', "first")] if is_reg else
                 [('"userVerification": "discouraged"', "first"), ('"userVerification": "required"', "last"), ('"rpId": "other.example"', "first"), ('"allowCredentials": []', "first"), ('"userVerification": "bogus"', "first")])
        for extra, where in dups:
            t2 = ("{" + extra + ", " + t[1:]) if where == "first" else (t[:-1] + ", " + extra + "}")
            a_t = parse_both(is_reg, t2)
            a_d = parse_both(is_reg, json.loads(t2))
            if a_t != a_d:
                chk.violation("options text with a repeated member name is read differently from the value json.loads gives for it", f"duplicate-member-name {'reg' if is_reg else 'auth'}",
                              {"entry": "parse_options_json", "text": t2[:600], "text_form": a_t[:300], "dict_form": a_d[:300]})
    # numbers in every JSON spelling (incl. integers longer than the interpreter converts by default - json.loads raises a plain ValueError there):
    # text that json.loads refuses is refused with the structure exception; a number in an ignored member changes nothing
    NUMS = ["1" + "0" * 5000, "-" + "9" * 4301, "1E400", "-0", "1.0", "1E3", "NaN", "Infinity", "[[" + "7" * 6000 + "]]", "60000.0", "6e4"]
    for is_reg in (True, False):
        a = optsim.gen_reg_args(rng) if is_reg else optsim.gen_auth_args(rng)
        o = webauthn.generate_registration_options(**optsim.reg_kwargs(dict(a, challenge=b"c" * 16))) if is_reg else webauthn.generate_authentication_options(**optsim.auth_kwargs(dict(a, challenge=b"c" * 16)))
        t = options_to_json(o)
        ref = parse_both(is_reg, t)
        for num in NUMS:
            for where, t2 in (("ignored member", t[:-1] + ', "zz_ignored": ' + num + "}"), ("timeout", "{" + '"timeout": 1, ' + t[1:-1] + ', "timeout": ' + num + "}"), ("the whole text", num)):
                il = parse_both(is_reg, t2)
                try:
                    json.loads(t2)
                    refused = False
                except ValueError:
                    refused = True
                if refused and il != LIB_IJS:
                    chk.violation(f"options text that json.loads refuses ({where}: a number written {num[:12]}...) is not refused with the structure exception: {il[:60]}", f"number-spelling {'reg' if is_reg else 'auth'} {where} {il[:40]}",
                                  {"entry": "parse_options_json", "text": t2[:300], "text_length": len(t2), "impl": il[:200]})
                if not refused and where == "ignored member" and il != ref:
                    chk.violation(f"a number written {num[:16]} in an ignored member changed the parsed options", f"number-spelling-not-ignored {'reg' if is_reg else 'auth'}", {"text": t2[:300], "impl": il[:200], "reference": ref[:200]})
    # arbitrary mutations: model vs implementation only
    for i in range(300 if quick else 10000):
        is_reg = rng.random() < 0.6
        a = optsim.gen_reg_args(rng) if is_reg else optsim.gen_auth_args(rng)
        o = webauthn.generate_registration_options(**optsim.reg_kwargs(a)) if is_reg else webauthn.generate_authentication_options(**optsim.auth_kwargs(a))
        d = jsonmut.mutate(json.loads(options_to_json(o)), rng)
        if isinstance(d, (dict, str)):
            parse_both(is_reg, d)
        elif d is not None:
            parse_both(is_reg, json.dumps(d))
    if R:
        R.close()
    fw.env_invariance(chk, "options")          # the same seeded cases under -O / -OO, warnings-as-errors, other TZ / locale, a private CA bundle
    return fw.finish(chk, ob, br, TRUSTED,
                     ["'equal to the original' is up to the documented defaults (empty transport list reads back as None; unset requireResidentKey / userVerification of a selection read back as False / preferred)"],
                     RULE, "coqc -Q . PW Properties/C16.v; thorough: coqchk -o")


def replay(path):
    print(open(path).read()[:3000])
    return 0
