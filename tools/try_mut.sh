#!/bin/bash
# run registered checks against a seeded change: apply to /repo, run, undo straight afterwards
# usage: try_mut.sh <patch.diff> <pid> [<pid>...]
set -u
P=$(realpath "$1"); shift
cd /repo && git status --porcelain | grep -q . && { echo "/repo not clean"; exit 2; }
git -C /repo apply "$P" || exit 2
trap 'git -C /repo checkout -- . ; git -C /repo clean -fdq' EXIT
cd /verif
for pid in "$@"; do
  timeout 3000 ./check $pid --tier ${TIER:-quick} 2>&1 | grep -E "VIOLATION|KNOWN-FINDING|^\[$pid\]|Traceback|Error" | head -8
  echo "== $pid rc=${PIPESTATUS[0]}"
done
