#!/bin/bash
# run every seeded change against the check of the property it breaks (quick tier); prints one line per seed
# usage: tools/all_seeds.sh [pattern]
cd /verif
for d in seeded/${1:-C}*; do
  x=$(basename $d); p=${x%_*}
  out=$(tools/try_mut.sh $d/patch.diff $p 2>&1)
  v=$(echo "$out" | grep -c "^VIOLATION")
  n=$(echo "$out" | grep "^VIOLATION" | grep -vc "no-failing-input-found")
  rc=$(echo "$out" | grep -o "rc=[0-9]*" | tail -1)
  echo "$x $rc violations=$v with_failing_input=$n"
done
