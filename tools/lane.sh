#!/bin/bash
# run checks against a patched scratch copy of /repo with a private copy of /verif (parallel-safe)
# usage: lane.sh <patch.diff|-> <name> <pid> [<pid>...]      (- = unpatched)
set -u
P=$1; N=$2; shift 2
L=/tmp/lanes/$N
rm -rf $L; mkdir -p $L
trap '' PIPE
trap 'cd /; git -C /repo worktree remove --force $L/repo 2>/dev/null; rm -rf $L' EXIT
git -C /repo worktree add -q --detach $L/repo HEAD || exit 2
if [ "$P" != "-" ]; then git -C $L/repo apply "$(realpath $P)" || { echo "$N PATCH DOES NOT APPLY"; git -C /repo worktree remove --force $L/repo; exit 2; }; fi
rsync -a --exclude .git --exclude replays --exclude evidence ${VERIF_SRC:-/verif}/ $L/verif/
cd $L/verif
for pid in "$@"; do
  out=$(VERIF_REPO=$L/repo timeout 3000 ./check $pid --tier ${TIER:-quick} 2>&1)
  rc=$?
  v=$(echo "$out" | grep -c "^VIOLATION")
  n=$(echo "$out" | grep "^VIOLATION" | grep -vc "no-failing-input-found")
  echo "$N $pid rc=$rc violations=$v with_failing_input=$n"
  if [ $v -gt 0 ]; then
    for r in $(echo "$out" | grep "^VIOLATION" | sed 's/.*replay=\([^ ]*\).*/\1/' | head -2); do
      echo "   replay: $(/venv/bin/python -c "
import json,sys
d=json.load(open('$r'))
print((d.get('what') or '')[:200], '|', d.get('signature','')[:80], '|', [b.get('name')+': '+b.get('detail','')[:160] for b in d.get('broken',[])][:2])" 2>/dev/null)"
    done
  fi
done
exit 0
