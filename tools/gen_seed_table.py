#!/venv/bin/python
"""Regenerate section 11 of DESIGN.md (seeded changes and which checks catch them) from seeded/*/meta.json."""
import json, os, re
ROOT = os.path.dirname(os.path.dirname(os.path.abspath(__file__)))
rows, missed = [], []
for x in sorted(os.listdir(os.path.join(ROOT, "seeded"))):
    m = json.load(open(os.path.join(ROOT, "seeded", x, "meta.json")))
    def cell(t, n):
        t = re.sub(r"\s+", " ", str(t)).replace("|", "/")
        return t[:n] + ("..." if len(t) > n else "")
    rows.append(f"| {x} | {cell(m.get('summary',''), 230)} | {cell(m.get('needs', m.get('needs_to_manifest','')), 150)} | {cell(m.get('caught_by',''), 60)} |")
    if m.get("initially_missed_because"):
        missed.append(f"* {x}: {cell(m['initially_missed_because'], 400)}")
ben = sorted(os.listdir(os.path.join(ROOT, "seeded_benign"))) if os.path.isdir(os.path.join(ROOT, "seeded_benign")) else []
brow = []
for b in ben:
    m = json.load(open(os.path.join(ROOT, "seeded_benign", b, "meta.json")))
    brow.append(f"| {b} | {re.sub(chr(10), ' ', str(m.get('summary','')))[:260].replace('|','/')} | {', '.join(m.get('files', []))[:120]} |")
text = f"""## 11. Seeded changes and which checks catch them

{len(rows)} property-breaking changes (twenty per property - nineteen for C19 -, written in ten rounds, plus one each for C07, C10, C11, C14 and C17 in a short eleventh round) and {len(ben)} behaviour-preserving refactors were produced by
fresh sub-agents that saw only the text of one property (or, for the refactors, a list of files) and a scratch worktree of /repo -
nothing from /verif. Each property-breaking change was confirmed by me in a scratch worktree (`tools/confirm_mut.sh`: the patch applies,
the 179 tests pass with it, its demonstration fails with it and passes without it) and then run against the registered quick check of
its property (`tools/try_mut.sh` on /repo itself with `git apply` / `git checkout -- .`, later `tools/lane.sh`: a patched scratch
worktree plus a private copy of /verif, so that several can run in parallel). Rounds 2-4 told the sub-agents which ideas had been used
and asked for different kinds (helper modules, tables, Python idiom slips, feature interactions, boundary values, histories, data-flow slips,
shape-gated tolerance features, exception handling, check ordering); round 5 was a red-team round: the sub-agents were told what the harness
consists of and asked for changes it is LEAST likely to notice (each explains the blind spot it aims at in `meta.json`); round 6 was a second
red-team round whose sub-agents were additionally given every earlier idea and the strengthening it had led to; round 7 a third one, whose
sub-agents were also told about the source-derived dictionary, the size ladder, the process environments and the state observers; rounds 8, 9 and 10 were a fourth, a
fifth and a sixth one, each told everything the harness had by then. Round 11 (five sub-agents, after the round-11 theorems were added to C07 / C14 / C17) went back to the
plain protocol: property text and a worktree only, plus a list of ideas already used; all five changes (a counter rule waived for backed-up credentials reporting 0, a
trailing-digit padding convention in the decoder that eats a data character, a process-wide high-water mark of the clock in the SafetyNet window, backup flags no longer read for fido-u2f registrations, an empty extension map reported as absent) were reported with a failing
input by the quick check at the first run, without any strengthening.

**Result.** (Numbers for /repo ec6c9f4.) {len(rows) - 4} of the {len(rows)} changes are reported with a concrete failing input by the quick check of the property they break; four are
reported as a broken proof obligation / correspondence (`no-failing-input-found`, the replay names what no longer checks): C06_10 (a whole new
attestation format added to the library: the "seven formats" theorem no longer checks against the regenerated enum, and no ceremony of a format
that does not exist in the model is generated; likewise C02_16, a "compound" format), C04_12 (an eighth certificate literal in the source: nobody without its private key can build
the chain that is wrongly accepted - the pinned set of built-in anchors no longer matches) and C18_11 (library code entering
`warnings.catch_warnings()`, i.e. swapping the process-wide filter list: the failing schedule is a two-bytecode window between threads - the
"pure functions" premise of the model no longer matches)
(`tools/all_seeds.sh` / the lane runner re-run them all after every strengthening). {len(missed)} of them were initially MISSED, or
reported only as a broken proof / correspondence without a failing input; for each the generator or catalogue was strengthened (never
the expectation loosened), and the list below records what was missing. The {len(ben)} behaviour-preserving refactors (extract / inline
helpers, loops instead of repeated statements, hoisted constants, renamed locals, restructured conditionals, in every anchored
module) raise NO alarm in any of the 20 quick checks - not even `no-failing-input-found`: {len(ben) * 20} check runs, 0 violations.

What the misses taught (all now in the generators, see `harness/authcat.py`, `regcat.py`, `regsim.py`, `props/*.py`):
histories matter even for "pure" properties (caches keyed by credential id, by (x5c, roots) without the clock, by curve and x only;
module-level lists extended in place) - C01, C08, C09, C17 and C18 now present key rotations, negated points, the same bytes at
several clocks and responses whose trust was only given to ANOTHER call, and take reference outcomes from a forked pristine process;
values must be varied in the dimension the rule ignores (flag bits during the counter rule, attachment hints during flag reporting,
time zone during the SafetyNet window, stored-key encoding during bit-flip sweeps); enumerations, origins, RP ids and challenges need
case variants, printable text and aliases (base64url text vs its decoding); empty and truncated values (empty allowed-algorithm list,
empty extension map, empty raw id, empty or half-length bound digests) and rare key shapes (Ed25519 / P-256 coordinates beginning with
0x00 or 0x04, RSA exponents that are not byte palindromes, short DER signatures, 66-byte P-521 coordinates) are where table and
length slips hide; and introspecting the code (default arguments) is weaker than probing its behaviour.
Round 4 and the red-team round added: the dimension "how the interpreter was started" (`assert`-based checks vanish under `python -O`, warnings become
errors under `-W error`, a fallback consults `SSL_CERT_FILE`, `datetime.now()` depends on `TZ`): every check now re-runs a seeded case list in
child interpreters under seven process environments and compares line by line (`fw.env_invariance`, `harness/envprobe.py`); things the code under
test IGNORES today but a "tolerant" change may start to honour (registered extension outputs such as `uvm`, Level-3 client-data members such as
`topOrigin`, snake_case member aliases, `toJSON()` convenience copies, `clientExtensionResults`, certificate extensions, PEM preambles, an outer
rawId that differs from the attested id) - decoys naming the EXPECTED value are now planted next to every fault; genuine recorded attestations
that chain to the REAL built-in anchors (so that code which stops using the substitutable module attributes is still exercised); value semantics
of results (an earlier result re-read after later calls), decoder state across calls (CBOR tags 28 / 29), the same credential object verified
again after one of its fields changed; and arguments that coincide with one another (user id = user name).

Round 6 (second red-team round: all 40 initially missed) showed what every earlier generator had in common: its values came from the harness
author's idea of "interesting". What was added is mostly generic rather than one catalogue entry per change:
(a) a **source-derived dictionary** (`harness/srcdict.py`): the literal constants of the CURRENT source that the pinned baseline
(`harness/srcdict_baseline.json`) does not have - a change that keys its behaviour on a magic value has to spell it somewhere - fed into the
dimension where each kind could matter: upper-case names become environment variables of the child interpreters, small integers become
algorithm ids and size thresholds (crossed at n-1, n, n+1), big integers become counters / timestamps / scale factors, dotted strings become
EKU entries and unrecognised certificate extensions, 16-byte values become AAGUIDs, short words become client-data types and member decoys,
hex / bytes literals become extension values, credential-id contents and client-data prefixes, certificate literals are compared with the pinned
anchor fingerprints. On the unchanged tree the dictionary is empty, so it can raise no alarm there;
(b) a **size ladder** (`fw.size_ladder`: 17, 65, 257, 1025, 4097, 65537, 2^20+1 and the neighbours of new integer literals) for every quantity the
properties leave unbounded: JSON text length (padding, a large ignored member, a large binary member), transports, descriptor ids and counts,
challenges, expected-origin lists, TPM2B fields, CBOR bignums;
(c) more **process environments** (logging at DEBUG for the root / `webauthn` logger, `python -bb`, `-X dev`, a small `PYTHONINTMAXSTRDIGITS`) and both
ceremony probe groups for every ceremony property;
(d) **equivalent spellings of the same input**: RP policies as 1 / 0, JSON text with repeated / escaped member names, buffers as windows of larger
buffers, key members and signatures in other encodings (if accepted at all, they must denote the same key / every bit must count), client data
with a byte order mark or white space that IS part of what was hashed;
(e) two **state observers**: the trust anchors actually added to each certificate store (`impl.STORE_LOG`: nothing but RP roots, named built-ins and the
statement's own certificates), and a spy on process-global configuration calls made directly from library code (`fw.GlobalStateSpy`).

Round 7 (third red-team round: 38 of 40 initially missed, and one genuine defect of the library found on the way - F10 in section 4) avoided new
literals altogether: triggers were COMPUTED (from `sys.getrecursionlimit()`, `datetime.max`, digest sizes, enum arithmetic), were RELATIONS between two inputs
(one field equal to another, a hash of another, a prefix of a digest; text whose base64url spelling is hex; a string that differs from its own NFC form), depended
on the HOST (PyPy, Python 3.8-3.11 enum semantics, FIPS policy, DST calendar of the time zone), or lived BETWEEN two calls (a shared rule object raced by another
thread, a lazily initialised anchor list, interned result objects, results aliasing the caller's buffers). Added, again mostly generic:
(f) **`fw.interleaved`**: a deterministic two-thread schedule exploration - call A runs under `sys.settrace` and, between every two lines it executes inside the
library, another thread runs a complete call B; all (A, B) pairs of the pool must give their single-threaded outcomes (C07, C18; first use of each format in a forked
child). A line-level race is thereby found with certainty instead of by a stress run's luck (windows inside ONE line stay out of reach: C18_12's pop/insert);
(g) **every result is re-read at the end of the check** (`impl.KEPT`, `fw.finish`), exported helpers' results are vandalised like the verify functions' results, and
record fields are also passed as bytearrays that are refilled after the call;
(h) **masquerade and degraded-host environments** (`harness/envprobe.py`): the child interpreter claims to be PyPy / win32 / darwin / emscripten / Python 3.9 / 32-bit,
gets the 3.8-3.11 `value in Enum` semantics, a recursion limit of 220 - outcomes must be identical; or loses SHA-1 / MD5 (FIPS) and Ed25519 - outcomes may turn into
errors, but nothing the default environment refuses may be accepted (one-directional comparison);
(i) **relations and coincidences**: RP ID hashes of other strings of the ceremony, fields of one TPM structure equal to one another or shared with an earlier structure,
digest-length messages, prefixes / suffixes of the right digest, ids and contents that look like another encoding (`fw.lookalike_bytes`), strings some normalisation
would change (`fw.TRICKY_STRINGS`), strings made of JSON structural characters, numbers in every JSON spelling up to 6000 digits, `Infinity`, repeated list entries,
RP-id collections, remarkable certificate dates (the epoch, 2038, 2050, 9999-12-31) - also at the REAL clock with no store hook, which masks OpenSSL's own flags;
(j) **unsigned lures**: members a response of the other ceremony would have (`attestationObject` in an assertion), CTAP2's integer keys and other spellings inside the
attestation object, each carrying a fault-free copy of what the signed data gets wrong;
(k) built-in anchors are substituted by VALUE wherever they are bound (the by-name substitution crashed on a refactoring - C18_14).

Round 8 (fourth red-team round: 31 of 39 initially missed; one of its 40 changes turned out to be my own F11 repair and was dropped; a second genuine defect, F11, was found
while strengthening) went for what the simulator does not build and for the Python objects the arguments are: added were (l) **equivalent call shapes for every case**
(`impl.equivalent_auth_calls` / `equivalent_reg_calls`, two per case round-robin, all of them in C20): non-contiguous memoryviews, bytearrays, `type` as the plain string, str
subclasses, tuples, one-shot iterators and generators for the algorithm list (also the default list passed explicitly), plain integers, five kinds of Mapping for the roots,
the stored counter as Decimal / Fraction / float / int subclass, policy switches left out when they have their defaults; for option generation plain ints, str subclasses whose
`str()` lies and members of foreign `(str, Enum)` classes (`optsim.shaped`); (m) **the attestation object in every encoding CBOR allows** for the same value (member order,
indefinite lengths, wider length fields - `cborgen.encode_styled`, one per registration case), COSE keys with extra members, registry members in other number / text forms,
compressed-point forms with the MIRROR key authenticating; (n) chain features: proxy certificates, path-length violations (alone and hiding a validity fault), a re-dated copy of
the root's key inside x5c, AKI by issuer-and-serial, trust lists that hold the intermediate, certificates whose validity boundary is crossed WHILE the check runs (3 s: catches a
clock read at import); (o) texts that are almost JSON (raw control characters in strings, comments, single quotes ...), client data in UTF-8-sig / UTF-16 / UTF-32, floats and NaN
inside CBOR, the EdDSA repair marker written over every offset of a layout, magic / tag constants in the other byte order, moduli with arithmetic structure; (p) **`fw.exercise_new_api`**:
public callables the changed source defines and the pinned API baseline lacks are called, and what they return is used as a context manager around accepted and refused calls -
afterwards the old API must answer as before (a leaked "strict mode"); (q) the same record OBJECT re-verified after its fields were re-assigned, 300 distinct calls then the first
again, instruction-level interleaving with shared argument objects.

Round 9 (fifth red-team round: 38 of 40 initially missed - the harness of round 8 caught two and reported a third through a broken proof obligation only) went for what lies
OUTSIDE a single call on fresh Python objects in this sandbox's interpreter: added were (r) three more **process environments** - the library imported from a zip archive
(a data file read relative to `__file__` is not there), optional third-party packages the changed source imports (`srcdict.new_imports`: certifi, idna ...) present as
stand-ins, files the changed source names (`srcdict.paths`: /proc/sys/crypto/fips_enabled ...) present with contents 1 / 0 -, a TZ rule with daylight-saving time in force
all year together with real-clock chains that start / end 30 minutes from now, and extension data of every CBOR kind in the codec lines (a `DeprecationWarning` that
only "warnings as errors" turns into an exception); (s) **results are values** - every kept result is also cloned by `copy.copy`, `copy.deepcopy`, `pickle` and
`dataclasses.replace`, and the clone must read like the original (three changes hid in `__reduce__`); objects the library RETURNED are fed back as the very objects after
helper results obtained from them were edited; (t) **the RP's long-lived containers**: every call is repeated with policy lists that are the same objects as in an earlier call
and were edited in place since (`impl.reused_policy_containers`), credential dicts that are `defaultdict`s / case-folding dict subclasses, records of application subclasses
with constructors of their own (`dataclasses.replace` cannot rebuild them), dataclass subclasses of descriptors with further fields, read-only views of a shared `mmap`
(hashable, yet mutable), buffers with multi-byte items / two dimensions / `array.array`; (u) **parameters the changed source adds to existing entry points**
(`srcdict.new_parameters` against a pinned signature baseline): on every refused case each new parameter is given candidate values (members of the enum its annotation
names, booleans, algorithm ids, None ...) - a refused response must stay refused -, and fields of the registration result are supplied back under parameters of the same
name; new format names are tried as wrappers around statements whose chain misses the configured anchors (so that C04_18, a "compound" format, now has a failing input);
(v) catalogue additions: origins plus characters a sanitiser drops (lone surrogate escapes, TAG characters), client data that announce a digest of their own and are hashed
with it ("null": not at all), PSS with MGF1 over another hash, the attachment hint crossed with counter regressions and flag bytes, COSE keys with `key_ops` of every content
in the register-then-authenticate chain, Keymaster authorization tags beyond the four the procedure reads, CBOR items wrapped in tags a decoder may see through (24, 55799),
another Base64 text of the right SafetyNet nonce (spare bits), TCG device attributes in the certificate SUBJECT, an out-of-date leaf beside a fault-free sibling certificate
whose issuer's name it bears, a compressed-point SubjectPublicKeyInfo (asn1crypto re-encoding), GUID / hex / date / JWT-shaped base64url texts, invisible trailers on names,
statement members the format does not read holding unknown tags / unassigned simple values, the full product of pubArea enumerations, and a second stored key with the
CRC-32 and length of the first (`fw.checksum_twin_suffix`).

Round 10 (sixth red-team round: 37 of 40 initially missed) found the assumption every earlier generator shared - that an input IS one value for the duration of a call - and went
deeper into the arithmetic and the standards: added were (w) **double fetch**: `impl.sequenced_record`, a credential record whose response fields read as X on the first read (what
the ceremony checks want to see, unsigned) and as Y afterwards (genuinely signed, for another ceremony); X and Y are each refused when presented constantly, so an accepted
sequence means that what was checked is not what was verified - five changes (C01_19, C02_19, C06_20, C10_20 and a variant) had moved a snapshot; run once per bench in every
ceremony check; (x) **relations that keep a concatenation**: characters moved across the boundary between type / challenge / origin, bytes moved across the boundary between a
key's x and y, a challenge that is the hex / Base64 / decimal TEXT of the other one; (y) **keys and signatures with structure**: genuine RSA keys whose primes have the shape ROCA
detectors fingerprint (or are close to one another), Ed25519 signatures with a chosen nonce (R = the neutral element) made by a hand-written RFC 8032 signer, Ed448 attestation
keys, certificates re-signed over SHA-1 / SHA-384 / SHA-512, compressed points, X.509 v1 roots and issuer names in another spelling of the same distinguished name (all by
re-encoding with asn1crypto what cryptography's builders cannot emit); a KeyDescription on a CA certificate above a faulty leaf; TPM Names / qualified names / policy digests
computed as a TPM computes them; (z) **the state of the calling thread and of the host**: the call made from inside an `except` block, under a decimal context of precision 6,
with a dependency whose import the changed source newly guards failing inside the library (`srcdict.new_guarded_imports`), real-clock chains with clock-independent faults and with
v1 roots; (a') hashed inputs beyond 4 and 8 MiB; bursts of hundreds of calls inside every line gap of a call (a bounded cache that is cleared inside the window); new public
callables called WITH candidate arguments, held open as context managers on another thread and in overlapping non-nested blocks; (b') structure: every exception class of the
package (not only of `exceptions.py`) derives from the base class, parsed enum fields hold members of the declared class (not equal strings), every binary member of an accepted
credential equals `urlsafe_b64decode(text + "===")` also with '=' inside the text, every format fault of every format in the environment case lists (a refusal whose MESSAGE
formats bytes becomes a `BytesWarning` under `-bb`), respelled format names with roots in force. Two false alarms of my own additions showed up only under other seeds in the
clean passes of the regression (the sibling-certificate fault has no pass-through variant for TPM; a lone surrogate met `str.encode`) and were corrected before the final run.

**Detection must not depend on the random stream.** Re-running all seeded changes under other seeds (`VERIF_SEED=1`, `7`) showed that a few catches
had been luck: a catalogue entry that picks one of several variants at random (which origin alias, which id spelling, which vandalism) only exposes
a change when it happens to pick the right one. Catalogue entries are therefore applied with their own CYCLING generator (`authcat.Cycler`:
successive applications walk through the variants in order) and each entry is repeated until all its variants have been used; selections such as
"a fixed half of the entries in the quick tier" are made by label, not by the stream; vandalism of returned objects applies every kind of edit every
time. The full set of seeded changes is re-run under three seeds after every strengthening.

Initially missed, and why:

""" + "\n".join(missed) + """

| id | change | needs | caught by |
|---|---|---|---|
""" + "\n".join(rows) + """

Behaviour-preserving refactors (no check may alarm):

| id | change | files |
|---|---|---|
""" + "\n".join(brow) + """

--------------------------------------------------------------------------------------------------

"""
p = os.path.join(ROOT, "DESIGN.md")
s = open(p).read()
i = s.index("## 11. Seeded changes and which checks catch them")
j = s.index("## Appendix A")
open(p, "w").write(s[:i] + text + s[j:])
print(len(rows), "seeds;", len(missed), "initially missed;", len(ben), "benign")
