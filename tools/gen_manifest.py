#!/usr/bin/env python3
"""Writes /verif/MANIFEST.json from the table below (kept in one place so it is always valid)."""
import json, os
ALL = [f"C{i:02d}" for i in range(1, 21)]
COMMON_NOTE = ("Trusted: Coq 8.16.1 kernel incl. vm_compute (no native_compute); the reflective constant exporter harness/gen_constants.py; "
               "extraction with ExtrOcamlBasic only (no Extract Constant) + ocaml/driver.ml; the correspondence harness and its reference oracles "
               "(hashlib, cryptography, pyOpenSSL, json, cbor2). Theorems are about the hand-written Gallina model coq/Model/*.v, tied to /repo on "
               "every run by (1) regenerated coq/Generated/Constants.v and (2) differential execution model vs implementation. ")
CLAIMS = {
 "C14": dict(
   text="Machine-checked theorems (all byte strings, any length, any amount of '=' padding): round trip, alphabet, injectivity, over an exact Gallina model of CPython's lenient base64 decoder; the model is tied to the code by exhaustive (length 0-2) and seeded differential execution.",
   note="CPython's base64/binascii are modelled exactly and validated differentially, not verified. No axioms (Print Assumptions: closed).",
   technique="Coq proof by induction in steps of three bytes + lia; correspondence check via extracted OCaml model", ref="3/C14"),
}
REASON_TODO = "check not built yet in this revision (planned: Coq model + correspondence, see DESIGN.md section 3)"
def main():
    checks = []
    for pid in ALL:
        if pid not in CLAIMS: continue
        c = CLAIMS[pid]
        checks.append({
            "property_id": pid,
            "quick_cmd": f"./check {pid} --tier quick",
            "thorough_cmd": f"./check {pid} --tier thorough",
            "evidence_file": f"/verif/evidence/{pid}.json",
            "replay_cmd_template": f"./check {pid} --replay {{path}}",
            "engine": "coq-model+correspondence",
            "level_claimed": {"category": "proof", "text": c["text"], "design_ref": c["ref"]},
            "level_note": COMMON_NOTE + c["note"],
            "technique": c["technique"],
        })
    m = {
        "version": 1,
        "setup_cmd": "./check --setup",
        "hooks": {"guard": "PY_WEBAUTHN_VERIF", "enable": "checks import /repo's working tree directly (PYTHONPATH=/repo) with PY_WEBAUTHN_VERIF=1; no source hook is currently needed (anchors/clock are substituted in-process)",
                  "baseline_off_cmd": "cd /repo && /venv/bin/python -m pytest -ra -q -p no:cacheprovider --timeout=900", "source_commits": [], "add_only": True},
        "engines": [{"name": "coq-model+correspondence", "path": "/verif/check", "serves_properties": sorted(CLAIMS), "kind_free_text": "Rocq/Coq 8.16.1 proofs about a Gallina model (coq/), constants regenerated from /repo, extracted OCaml runner compared with the implementation on generated inputs (harness/)"}],
        "checks": checks,
        "not_applicable": [{"property_id": p, "reason": REASON_TODO} for p in ALL if p not in CLAIMS],
        "notes": "See DESIGN.md. known findings: known_findings.json. seeded changes used to test the checks: seeded/.",
    }
    json.dump(m, open("/verif/MANIFEST.json", "w"), indent=1)
if __name__ == "__main__": main()
