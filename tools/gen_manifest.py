#!/usr/bin/env python3
"""Writes /verif/MANIFEST.json from the table below (kept in one place so it is always valid)."""
import json, os
ALL = [f"C{i:02d}" for i in range(1, 21)]
COMMON_NOTE = ("Trusted: Coq 8.16.1 kernel incl. vm_compute (no native_compute); the reflective constant exporter harness/gen_constants.py; "
               "extraction with ExtrOcamlBasic only (no Extract Constant) + ocaml/driver.ml; the correspondence harness and its reference oracles "
               "(hashlib, cryptography, pyOpenSSL, json, cbor2). Theorems are about the hand-written Gallina model coq/Model/*.v, tied to /repo on "
               "every run by (1) regenerated coq/Generated/Constants.v and (2) differential execution model vs implementation. ")
CLAIMS = {
 "C14": dict(
   text="Machine-checked theorems (all byte strings, any length, any amount of '=' padding): round trip, alphabet, injectivity, over an exact Gallina model of CPython's lenient base64 decoder; the model is tied to the code by exhaustive (length 0-2) and seeded differential execution.",
   note="CPython's base64/binascii are modelled exactly and validated differentially, not verified. No axioms (Print Assumptions: closed).",
   technique="Coq proof by induction in steps of three bytes + lia; correspondence check via extracted OCaml model", ref="3/C14"),
 "C01": dict(
   text="Theorems, for every oracle behaviour, policy and credential (no cryptographic hypothesis): verify_auth accepts IFF the declarative predicate AuthAccepted holds (id=b64url(rawId), type, webauthn.get, challenge, origin, rpIdHash, UP, UV-if-required, counter, signature over authData||SHA-256(clientDataJSON) under the stored key with the scheme its declared alg denotes); hence any deviation is rejected. Model tied to the code by regenerated constants and by differential execution on really-signed single faults, pairs, and JSON mutations.",
   note="Soundness needs no oracle hypothesis. CPython json/base64 and cbor2 (subset) are modelled; cryptography is an oracle.",
   technique="Coq proof (error-monad inversion, iff characterisation) + correspondence/fault-catalogue differential check", ref="3/C01"),
 "C07": dict(
   text="Theorems: counter_ok s c <-> c>s or c=s=0 (lia); acceptance implies the rule and new_sign_count = big-endian bytes 33..37, 0<=c<2^32; for EVERY history of presentations (induction, any length, any oracle) the stored counter is non-decreasing and a non-zero-counter assertion is never accepted twice. Correspondence: boundary grid, random pairs, exhaustive short histories through the real API.",
   note="Raw record inputs are assumed to consist of bytes (cred_wf); text/dict inputs need no assumption (decoder output proved in range).",
   technique="Coq proof by induction over presentation histories + lia; differential histories", ref="3/C07"),
 "C09": dict(
   text="Theorems: the behaviourally exported scheme table (regenerated each run from the code via spy keys) equals the property's table for ALL integer algorithm ids (finite table agreement by vm_compute + coverage lemma lifted to Z); on the COSE path decode->to_crypto->verify_signature a signature is accepted only under the scheme the declared alg denotes; unsupported pairings raise a library exception. Correspondence: complete key x declared alg x signing scheme matrix with real keys, leading-zero keys.",
   note="verify_signature ignores alg for Ed25519 keys; the theorem is stated for the composed COSE path where alg=-8 is enforced by to_crypto. PSS verification accepts any salt length (library fact).",
   technique="Coq proof over regenerated table (vm_compute on finite table, lifting lemmas) + exhaustive matrix differential check", ref="3/C09"),
 "C10": dict(
   text="Theorems: for all 256 flag bytes the code's mask tests are bits 0,2,3,4,6,7 (finite sweep by vm_compute, lifted; bound in the statement); reserved bits 1,5 never influence a flag; acceptance implies UP, UV-if-required, not(BS without BE) and the reported fields equal the bits. Correspondence: all 256 x policies x both ceremonies, really signed (exhaustive).",
   note="Finite-domain theorems carry their bound (0<=f<256) in the statement.",
   technique="Coq proof (finite sweep lifted by forallb_forall; inversion) + exhaustive differential check", ref="3/C10"),
}
REASON_TODO = "check not built yet in this revision (planned: Coq model + correspondence, see DESIGN.md section 3)"
def main():
    checks = []
    for pid in ALL:
        if pid not in CLAIMS: continue
        c = CLAIMS[pid]
        checks.append({
            "property_id": pid,
            "quick_cmd": f"./check {pid} --tier quick",
            "thorough_cmd": f"./check {pid} --tier thorough",
            "evidence_file": f"/verif/evidence/{pid}.json",
            "replay_cmd_template": f"./check {pid} --replay {{path}}",
            "engine": "coq-model+correspondence",
            "level_claimed": {"category": "proof", "text": c["text"], "design_ref": c["ref"]},
            "level_note": COMMON_NOTE + c["note"],
            "technique": c["technique"],
        })
    m = {
        "version": 1,
        "setup_cmd": "./check --setup",
        "hooks": {"guard": "PY_WEBAUTHN_VERIF", "enable": "checks import /repo's working tree directly (PYTHONPATH=/repo) with PY_WEBAUTHN_VERIF=1; no source hook is currently needed (anchors/clock are substituted in-process)",
                  "baseline_off_cmd": "cd /repo && /venv/bin/python -m pytest -ra -q -p no:cacheprovider --timeout=900", "source_commits": [], "add_only": True},
        "engines": [{"name": "coq-model+correspondence", "path": "/verif/check", "serves_properties": sorted(CLAIMS), "kind_free_text": "Rocq/Coq 8.16.1 proofs about a Gallina model (coq/), constants regenerated from /repo, extracted OCaml runner compared with the implementation on generated inputs (harness/)"}],
        "checks": checks,
        "not_applicable": [{"property_id": p, "reason": REASON_TODO} for p in ALL if p not in CLAIMS],
        "notes": "See DESIGN.md. known findings: known_findings.json. seeded changes used to test the checks: seeded/.",
    }
    json.dump(m, open("/verif/MANIFEST.json", "w"), indent=1)
if __name__ == "__main__": main()
