#!/usr/bin/env python3
"""Writes /verif/MANIFEST.json from the table below (kept in one place so it is always valid)."""
import json, os
ALL = [f"C{i:02d}" for i in range(1, 21)]
COMMON_NOTE = ("Trusted: Coq 8.16.1 kernel incl. vm_compute (no native_compute); the reflective constant exporter harness/gen_constants.py; "
               "extraction with ExtrOcamlBasic only (no Extract Constant) + ocaml/driver.ml; the correspondence harness and its reference oracles "
               "(hashlib, cryptography, pyOpenSSL, json, cbor2). Theorems are about the hand-written Gallina model coq/Model/*.v, tied to /repo on "
               "every run by (1) regenerated coq/Generated/Constants.v and (2) differential execution model vs implementation; generated inputs include the "
               "literals the current source has and the pinned baseline harness/srcdict_baseline.json lacks, a size ladder, child interpreters under other process "
               "environments (incl. zip import, stand-ins for newly imported optional packages, newly named files), equivalent spellings and call shapes of the same input, "
               "the RP's policy containers reused after in-place edits, clones of every result, parameters newly added to entry points (DESIGN 2.9). ")
CLAIMS = {
 "C14": dict(
   text="Machine-checked theorems (all byte strings, any length, any amount of '=' padding): round trip, alphabet, injectivity, the length law ceil(4n/3) of every length class, decoder output always bytes, and the decoder's leniency (foreign characters skipped anywhere, both alphabets accepted - decoding is many-to-one, so canonicity rests on the encoder; both verifiers accept only when id is the canonical text of rawId and refuse an id that merely decodes to it), over an exact Gallina model of CPython's lenient base64 decoder; the model is tied to the code by exhaustive (length 0-2) and seeded differential execution.",
   note="CPython's base64/binascii are modelled exactly and validated differentially, not verified. No axioms (Print Assumptions: closed).",
   technique="Coq proof by induction in steps of three bytes + lia; correspondence check via extracted OCaml model", ref="3/C14"),
 "C01": dict(
   text="Theorems, for every oracle behaviour, policy and credential (no cryptographic hypothesis): verify_auth accepts IFF the declarative predicate AuthAccepted holds (id=b64url(rawId), type, webauthn.get, challenge, origin, rpIdHash, UP, UV-if-required, counter, signature over authData||SHA-256(clientDataJSON) under the stored key with the scheme its declared alg denotes); hence any deviation is rejected. Model tied to the code by regenerated constants and by differential execution on really-signed single faults, pairs, and JSON mutations.",
   note="Soundness needs no oracle hypothesis. CPython json/base64 and cbor2 (subset) are modelled; cryptography is an oracle.",
   technique="Coq proof (error-monad inversion, iff characterisation) + correspondence/fault-catalogue differential check", ref="3/C01"),
 "C07": dict(
   text="Theorems: counter_ok s c <-> c>s or c=s=0 (lia); acceptance implies the rule and new_sign_count = big-endian bytes 33..37, 0<=c<2^32; for EVERY history of presentations (induction, any length, any oracle) the stored counter is non-decreasing and a non-zero-counter assertion is never accepted twice (stated per step and for whole histories h1 ++ c :: h2 ++ [c]: the second presentation is refused and leaves the RP state unchanged; the stored counter stays below 2^32). Correspondence: boundary grid, random pairs, exhaustive short histories through the real API.",
   note="Raw record inputs are assumed to consist of bytes (cred_wf); text/dict inputs need no assumption (decoder output proved in range).",
   technique="Coq proof by induction over presentation histories + lia; differential histories", ref="3/C07"),
 "C09": dict(
   text="Theorems: the behaviourally exported scheme table (regenerated each run from the code via spy keys) equals the property's table for ALL integer algorithm ids (finite table agreement by vm_compute + coverage lemma lifted to Z); on the COSE path decode->to_crypto->verify_signature a signature is accepted only under the scheme the declared alg denotes; unsupported pairings raise a library exception. Correspondence: complete key x declared alg x signing scheme matrix with real keys, leading-zero keys.",
   note="verify_signature ignores alg for Ed25519 keys; the theorem is stated for the composed COSE path where alg=-8 is enforced by to_crypto. PSS verification accepts any salt length (library fact).",
   technique="Coq proof over regenerated table (vm_compute on finite table, lifting lemmas) + exhaustive matrix differential check", ref="3/C09"),
 "C10": dict(
   text="Theorems: for all 256 flag bytes the code's mask tests are bits 0,2,3,4,6,7 (finite sweep by vm_compute, lifted; bound in the statement); reserved bits 1,5 never influence a flag; acceptance implies UP, UV-if-required, not(BS without BE) and the reported fields equal the bits. Correspondence: all 256 x policies x both ceremonies, really signed (exhaustive).",
   note="Finite-domain theorems carry their bound (0<=f<256) in the statement.",
   technique="Coq proof (finite sweep lifted by forallb_forall; inversion) + exhaustive differential check", ref="3/C10"),

 "C02": dict(
   text="Theorems (arbitrary oracles): verify_reg accepted implies every RP expectation of the property (id=b64url(rawId), type, webauthn.create, challenge, origin, rpIdHash, UP unless waived, UV if required, attested data with non-empty id, key alg in the allowed list, one of seven formats, no known statement member for 'none'). Correspondence: 8 statement kinds x ceremony-level fault catalogue with the statement regenerated to stay valid, pairs, three input forms.",
   note="'empty statement for none' = none of the seven statement members the library knows is set. cbor2 is modelled on a subset; X.509/OpenSSL are oracles.",
   technique="Coq proof (error-monad inversion over the registration model) + differential fault catalogue with forged attestations", ref="3/C02"),
 "C03": dict(
   text="Per-format CHARACTERISATION theorems (arbitrary oracles, iff): a packed / fido-u2f / tpm (incl. AIK profile) / apple / android-key / android-safetynet statement is accepted exactly when it satisfies the declared rules of that format, stated over the abstract certificate record and the TPM structure decoders; the dispatch accepts a statement iff it meets the rules of the format it names. A real packed self-attestation is evaluated by the kernel (non-vacuity). Correspondence: ~120-entry per-step catalogue with forged PKIs, TPM structures, KeyDescription and JWS, all TPM name algorithms, attestation key algorithms.",
   note="Certificate/KeyDescription contents reach the model through an abstract record produced by the harness's own DER reading; DER parsing is not verified. Three genuine defects found by this check were fixed in /repo (see known_findings.json).",
   technique="Coq proof (inversion per format verifier) + differential per-step fault catalogue", ref="3/C03"),
 "C04": dict(
   text="Theorems: which anchors are handed to chain validation per format (RP roots for that format ++ built-ins), roots of other formats are never consulted, accepted x5c registrations with anchors in force went through the validator, pass-through only with no anchors; an executable certification-path search is proved equivalent to the declarative valid-path spec (fuel bound by a pigeonhole argument). OpenSSL path validation is an oracle; its verdict is compared with the proved path search on every chain explored (chain shapes x root configurations x chain faults, clock replays).",
   note="PARTIAL: OpenSSL's path builder is an oracle; 'OpenSSL accepts => the path spec accepts' is an explicit hypothesis of the theorem that uses it, checked on every explored chain (harness/chainview.py abstraction), not proved.",
   technique="Coq proof (anchor-selection/isolation lemmas) + differential forged-PKI check", ref="3/C04"),
 "C05": dict(
   text="Fidelity theorems (arbitrary oracles): returned fields equal what the authenticator data says (id, key bytes, counter, UUID text, fmt, UV, BE, BS, raw attestation object); table obligations on regenerated constants (default algorithms mapped, every TCG registry vendor id present). Correspondence: seeded sampling of the full product incl. every vendor id; all returned fields compared.",
   note="Completeness is proved at the level of the declarative predicates: AuthAccepted -> accepted, RegAccepted -> accepted, and per format StatementRules -> statement accepted; that the simulator's ceremonies satisfy those predicates is evaluated by sampling the product.",
   technique="Coq proof (inversion + table obligations by vm_compute) + differential product sampling", ref="3/C05"),
 "C06": dict(
   text="Theorem (under explicit hypotheses sig_binds_msg / sha256 collision-freeness as premises): any change of authenticatorData, clientDataJSON or signature of an accepted assertion is rejected - the proof content is that the whole raw bytes reach the verifier. Exhaustive bit-flip evaluation over every position for authentication and signed registration formats.",
   note="PARTIAL: non-malleability of the signature schemes is a premise and is tested, not proved. Known findings: fido-u2f signature base does not cover flags/counter (spec-inherent); F12: an Ed25519 stored key of small order makes one fixed signature valid for every message, so changed bits survive (the premise 'one message per signature' fails for such keys - C06_unconditional_refuted states this inside the development; the check reproduces it on every run and lists it by key encoding).",
   technique="Coq proof under stated crypto premises + exhaustive bit-flip fault enumeration", ref="3/C06"),
 "C08": dict(
   text="Theorems: canonical COSE key bytes survive parse/re-encode unchanged for ALL well-formed CBOR values (nested induction, no bound); registration returns those bytes; chain/cross statements under oracle hypotheses. Correspondence: register->authenticate chains for every format x algorithm, ordered cross-credential pairs.",
   note="Key-separation between distinct credentials is a cryptographic premise (tested).",
   technique="Coq proof (CBOR round-trip by nested induction) + differential ceremony chains", ref="3/C08"),
 "C11": dict(
   text="Theorems: canonical CBOR of any well-formed value decodes to exactly that value and rest (nesting up to the modelled 256 levels); the encoding is prefix-free for the decoder; EVERY laid-out authenticator data parses to exactly its fields, with ANY suffix it is rejected, and EVERY strict prefix of it is rejected; header fields exact; attested data iff AT, extensions iff ED; every byte string yields a complete record or one of two library exceptions. Correspondence: structured layouts, EVERY truncation point and 1-8 byte suffixes, arbitrary bytes, CBOR-aware mutations, cbor2 vs model decoder/encoder directly.",
   note="cbor2 is modelled on a subset (floats/tags/simple values/indefinite lengths answer Unmodelled).",
   technique="Coq proof (nested induction over CBOR values, lia) + differential exhaustive truncation check", ref="3/C11"),
 "C12": dict(
   text="Theorems: TPMS_ATTEST / TPMT_PUBLIC decoders return exactly the encoded fields for laid-out structures; non-certify types rejected; identifier tables (regenerated) equal the TCG tables and are injective. Correspondence: all tags, algorithm and curve ids, attribute bits, length classes; every decoded field compared.",
   note="Tables come from Generated/Constants.v (regenerated every run).",
   technique="Coq proof (table obligations by vm_compute, decoder lemmas) + differential structured generator", ref="3/C12"),
 "C13": dict(
   text="Theorems for EVERY JSON value (any depth): credential parsers return a record or InvalidJSONStructure / the response exception; well-formed credentials over arbitrary bytes (any padding, unknown members) decode exactly; text = dict form; enum tables equal the spec's. Correspondence: member-wise generator, mutation stream, client data variants.",
   note="json.loads is an oracle (its value is what the theorems quantify over). One genuine defect fixed in /repo.",
   technique="Coq proof (structural case analysis over JSON, base64 round trip) + differential member-wise generator", ref="3/C13"),
 "C15": dict(
   text="Theorems: every supplied field passes through unchanged, residentKey=required implies requireResidentKey, empty rp id/name/user name refused, the i-th defaulted value of any history is the i-th 64-byte draw of the OS source and nothing else is read, default algorithms offered = accepted (regenerated constants). Correspondence on a recorded entropy tape incl. random.seed() reseeding; real-source distinctness/balance test.",
   note="PARTIAL: unpredictability of os.urandom is trusted; the balance/distinctness run is a test.",
   technique="Coq proof (induction over call histories) + differential recorded-entropy-tape check", ref="3/C15"),
 "C16": dict(
   text="Theorems: generated options serialise to a JSON value satisfying the wire-schema predicate; parse(to_json o) = normalise o; missing/ill-typed required scalars and unknown enum values are refused with InvalidJSONStructure. Correspondence: real options_to_json text, both parsers, text and dict, systematic deletions/type changes/unknown enums.",
   note="json.dumps/json.loads composed = identity on the JSON value is a premise for the text form (exercised through the real text).",
   technique="Coq proof (schema predicate, round trip via base64 theorem) + differential wire-format check", ref="3/C16"),
 "C17": dict(
   text="Theorems (lia, clock in ms with truncation written into the statement): SafetyNet timestamp accepted iff within [now*1000-10000, now*1000+10000]; hence accepted only within (T-11000, T+10000] and always within [T-10000, T+9000]; over time: accepted at clock n implies refused at every clock >= n+21, expiry is permanent, the accepting clocks of one timestamp form a single interval of at most 20 s; chain validation is handed the clock of the current call. Correspondence: ms-dense boundaries, second-dense certificate windows for leaf/intermediate/root, moving-clock histories, real-clock run (thorough).",
   note="PARTIAL: OpenSSL's reading of the clock is an oracle (tested).",
   technique="Coq proof (linear arithmetic over Z) + differential controlled-clock check", ref="3/C17"),
 "C18": dict(
   text="Theorems over an explicit heap model of list aliasing: the root list handed to format verifiers is a fresh object (caller's mapping and lists unchanged), default parameter lists are built per call; for every history each outcome equals the pure function of its arguments. Correspondence: random histories with in-place mutation of earlier results, deep comparison of arguments, 16-thread run.",
   note="PARTIAL: interleavings inside C extensions are not modelled; the thread run is a test. One genuine defect fixed in /repo.",
   technique="Coq proof (invariant by induction over operation histories on a heap model) + differential histories", ref="3/C18"),
 "C19": dict(
   text="Theorems: every exported exception class derives from the base (finite obligation over the reflective export); every guard of both verifiers raises a library class on well-formed inputs; each of the six format verifiers answers Ok or a library exception on a structurally well-formed statement (hypothesis shown satisfiable by a kernel-evaluated real statement); parsers total (C11/C13 totals). Correspondence/direct evaluation: every catalogue fault and pairs, malformed signatures, arbitrary inputs into the named parsers.",
   note="'Well-formed' excludes inputs on which third-party libraries raise their own errors (unparseable certificates, keys not on the curve). One genuine defect fixed in /repo.",
   technique="Coq proof (finite table obligation + inversion) + fault-catalogue exception-class evaluation", ref="3/C19"),
 "C20": dict(
   text="Theorems (all inputs, all oracles): accepted under P implies accepted with the same result under every looser P' (UV not required, origin string -> list -> superset, algorithms superset, UP waived); policies each looser than the other (the same SET of algorithms / origins in any order, with any repeats) give the same OUTCOME, result or exception, on every credential; text = dict = record forms. Correspondence: catalogue responses x ordered policy pairs x forms incl. bytes subclasses, memoryviews (contiguous or not), bytearrays, one-shot iterables, other Mapping types, same dict re-verified.",
   note="PARTIAL: Python buffer-protocol behaviour is only tested.",
   technique="Coq proof (monotonicity via iff characterisation) + differential policy-pair check", ref="3/C20"),
}
REASON_TODO = "check not built yet in this revision (planned: Coq model + correspondence, see DESIGN.md section 3)"
def main():
    checks = []
    for pid in ALL:
        if pid not in CLAIMS: continue
        c = CLAIMS[pid]
        checks.append({
            "property_id": pid,
            "quick_cmd": f"./check {pid} --tier quick",
            "thorough_cmd": f"./check {pid} --tier thorough",
            "evidence_file": f"/verif/evidence/{pid}.json",
            "replay_cmd_template": f"./check {pid} --replay {{path}}",
            "engine": "coq-model+correspondence",
            "level_claimed": {"category": "proof", "text": c["text"], "design_ref": c["ref"]},
            "level_note": COMMON_NOTE + c["note"],
            "technique": c["technique"],
        })
    m = {
        "version": 1,
        "setup_cmd": "./check --setup",
        "hooks": {"guard": "PY_WEBAUTHN_VERIF", "enable": "checks import /repo's working tree directly (PYTHONPATH=/repo) with PY_WEBAUTHN_VERIF=1; no source hook is currently needed (anchors/clock are substituted in-process)",
                  "baseline_off_cmd": "cd /repo && /venv/bin/python -m pytest -ra -q -p no:cacheprovider --timeout=900", "source_commits": [], "add_only": True},
        "engines": [{"name": "coq-model+correspondence", "path": "/verif/check", "serves_properties": sorted(CLAIMS), "kind_free_text": "Rocq/Coq 8.16.1 proofs about a Gallina model (coq/), constants regenerated from /repo, extracted OCaml runner compared with the implementation on generated inputs (harness/)"}],
        "checks": checks,
        "not_applicable": [{"property_id": p, "reason": REASON_TODO} for p in ALL if p not in CLAIMS],
        "notes": "See DESIGN.md. known findings: known_findings.json. seeded changes used to test the checks: seeded/.",
    }
    json.dump(m, open("/verif/MANIFEST.json", "w"), indent=1)
if __name__ == "__main__": main()
