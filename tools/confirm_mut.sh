#!/bin/bash
# confirm a candidate seeded change in a scratch worktree: patch applies, suite passes, demo fails with / passes without
# usage: confirm_mut.sh <dir with patch.diff demo.py meta.json>
set -u
D=$(realpath "$1"); W=/tmp/confirm_$$
git -C /repo worktree add -q --detach $W HEAD || exit 2
cd $W
PYTHONPATH=$W /venv/bin/python $D/demo.py >/tmp/confirm_$$.clean 2>&1; c0=$?
git apply $D/patch.diff || { echo "PATCH DOES NOT APPLY"; git -C /repo worktree remove --force $W; exit 2; }
PYTHONPATH=$W /venv/bin/python -m pytest -q -p no:cacheprovider -x 2>&1 | tail -1 > /tmp/confirm_$$.pytest
PYTHONPATH=$W /venv/bin/python $D/demo.py >/tmp/confirm_$$.mut 2>&1; c1=$?
echo "demo clean rc=$c0  demo patched rc=$c1  pytest: $(cat /tmp/confirm_$$.pytest)"
cd /; git -C /repo worktree remove --force $W; rm -f /tmp/confirm_$$.*
[ $c0 -eq 0 ] && [ $c1 -ne 0 ] && exit 0 || exit 1
