#!/venv/bin/python
"""One-off: copies the recorded genuine attestations (Pixel 8a android-key, Apple passkey, Android SafetyNet) out of /repo/tests into
harness/realvec.json (static, committed) so that checks can present responses that chain to the REAL built-in anchors."""
import re, json, base64, calendar, datetime, cbor2, sys
def b64d(s): return base64.urlsafe_b64decode(s + "=" * (-len(s) % 4))
out = {}
def grab(path, fn):
    src = open(path).read()
    i = src.index("def " + fn)
    seg = src[i:]
    j = seg.find("\n    def ", 10)
    seg = seg[: j if j > 0 else None]
    cred = re.search(r'"""(\{.*?\})\s*"""', seg, re.S).group(1)
    d = json.loads(cred)
    cdj = json.loads(b64d(d["response"]["clientDataJSON"]))
    t = re.search(r"set_time\(datetime\((\d+), (\d+), (\d+), (\d+), (\d+), (\d+)\)\)", seg)
    now = calendar.timegm(datetime.datetime(*map(int, t.groups())).timetuple())
    rp = re.search(r'rp_id = "([^"]+)"', seg)
    return d, cdj, now, rp.group(1) if rp else None
d, cdj, now, rp = grab("/repo/tests/test_verify_registration_response_android_key.py", "test_verify_attestation_android_key_hardware_authority")
out["android-key"] = {"credential": d, "challenge": b64d(cdj["challenge"]).hex(), "origin": cdj["origin"], "rp_id": rp, "now": now}
d, cdj, now, rp = grab("/repo/tests/test_verify_registration_response_apple.py", "test_verify_attestation_apple_passkey")
out["apple"] = {"credential": d, "challenge": b64d(cdj["challenge"]).hex(), "origin": cdj["origin"], "rp_id": rp, "now": now}
d, cdj, now, rp = grab("/repo/tests/test_verify_registration_response_android_safetynet.py", "test_verify_attestation_android_safetynet")
ao = cbor2.loads(b64d(d["response"]["attestationObject"]))
payload = json.loads(b64d(ao["attStmt"]["response"].split(b".")[1].decode()))
out["android-safetynet"] = {"credential": d, "challenge": b64d(cdj["challenge"]).hex(), "origin": cdj["origin"], "rp_id": None, "now": payload["timestampMs"] // 1000 + 1,
                            "timestamp_ms": payload["timestampMs"], "auth_data_rp_hash": ao["authData"][:32].hex()}
json.dump(out, open("/verif/harness/realvec.json", "w"), indent=1)
print({k: (v["rp_id"], v["now"], v["origin"]) for k, v in out.items()})
