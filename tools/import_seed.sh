#!/bin/bash
# import a confirmed candidate into /verif/seeded/<id>/ ; usage: import_seed.sh <srcdir> <id> "<checks that catch it>" "<what I ran>"
set -e
S=$1; ID=$2; mkdir -p /verif/seeded/$ID
cp $S/patch.diff /verif/seeded/$ID/patch.diff; cp $S/demo.py /verif/seeded/$ID/demo.py
/venv/bin/python - "$S/meta.json" "/verif/seeded/$ID/meta.json" "$3" "$4" <<'PY'
import json,sys
m=json.load(open(sys.argv[1])); m["caught_by"]=sys.argv[3]; m["confirmed"]=sys.argv[4]
m.setdefault("breaks_property", m.get("property")); m.setdefault("needs_to_manifest", m.get("needs"))
json.dump(m, open(sys.argv[2],"w"), indent=1)
PY
