#!/venv/bin/python
"""Writes coq/Proofs/Examples2.v: a real packed SELF-attestation registration (ES256) with its oracle answers inlined, checked by the
kernel: it is accepted, it meets PackedOk / StatementRules (non-vacuity of the per-format characterisations) and it satisfies the
structural well-formedness hypotheses of C19's statement theorem.  Static file (committed).  usage: gen_examples2.py [outdir]"""
import sys, os, hashlib, json, uuid
sys.path.insert(0, "/verif"); sys.path.insert(0, "/repo")
from harness import authsim, regsim, impl
import cbor2

def zl(b): return "[" + "; ".join(str(x) for x in b) + "]"
def sl(s): return zl([ord(c) for c in s])
def jv(j):
    if j is None: return "JNull"
    if j is True: return "(JBool true)"
    if j is False: return "(JBool false)"
    if isinstance(j, int): return f"(JInt ({j}))"
    if isinstance(j, str): return f"(JStr {sl(j)})"
    if isinstance(j, list): return "(JArr [" + "; ".join(jv(x) for x in j) + "])"
    if isinstance(j, dict): return "(JObj [" + "; ".join(f"({sl(k)}, {jv(v)})" for k, v in j.items()) + "])"
    raise TypeError

out = []
A = out.append
A("(* GENERATED ONCE by tools/gen_examples2.py from the ceremony simulator (static, committed). *)")
A("From Coq Require Import ZArith List Bool String.")
A("From PW Require Import Model.Base Model.SigTypes Model.Json Model.Base64 Model.Cbor Model.AuthData Model.Oracles Model.ClientData")
A("  Model.CredJson Model.Cose Model.SigAlg Model.Formats Model.VerifyAuth Model.VerifyReg Spec.RegSpec Spec.FormatSpec")
A("  Proofs.RegProofs Proofs.FormatProofs Proofs.FormatComplete Proofs.ExnProofs Proofs.ExnFormats.")
A("Import ListNotations.")
A("Open Scope Z_scope.")
A("")
r = regsim.RScn("packed-self", "ES256-P256"); r.flags = 0x45; r.count = 9
pd, reg = regsim.build(r)
P = impl.RegPolicy(**pd)
ao = cbor2.loads(reg.att_obj)
ad = ao["authData"]; sig = ao["attStmt"]["sig"]
n = reg.cred.pk.public_numbers()
h_rp = hashlib.sha256(P.rp_id.encode()).digest(); h_cd = hashlib.sha256(reg.cdj).digest()
A(f"Definition px_cdj : bytes := {zl(reg.cdj)}.")
A(f"Definition px_ao : bytes := {zl(reg.att_obj)}.")
A(f"Definition px_ad : bytes := {zl(ad)}.")
A(f"Definition px_sig : bytes := {zl(sig)}.")
A(f"Definition px_key : bytes := {zl(reg.cred.cose_bytes)}.")
A(f"Definition px_rp_utf8 : bytes := {zl(P.rp_id.encode())}.")
A(f"Definition px_h_rp : bytes := {zl(h_rp)}.")
A(f"Definition px_h_cd : bytes := {zl(h_cd)}.")
A(f"Definition px_pk : pubkey := PkEC 1 {n.x} {n.y}.")
A(f"Definition px_cd_json : json := {jv(json.loads(reg.cdj))}.")
A("Definition pk_eqb2 (a b : pubkey) : bool := match a, b with PkEC c x y, PkEC c' x' y' => (c =? c') && (x =? x') && (y =? y') | _, _ => false end.")
A("""Definition px_oracles : oracles := {|
  o_hash := fun h d => if bytes_eqb d px_rp_utf8 then px_h_rp else if bytes_eqb d px_cdj then px_h_cd else [];
  o_json_loads := fun is_text d => if negb is_text && bytes_eqb d px_cdj then JOk px_cd_json else JDecodeError;
  o_key_ok := fun k => pk_eqb2 k px_pk;
  o_verify := fun k sch s m => pk_eqb2 k px_pk && scheme_eqb sch (ECDSA SHA256) && bytes_eqb s px_sig && bytes_eqb m (px_ad ++ px_h_cd);
  o_spki := fun _ => []; o_cert := fun _ => None; o_chain := fun _ _ _ => ChainInvalid |}.""")
A(f"""Definition px_policy : reg_policy := {{| rp_challenge := {zl(P.challenge)}; rp_rp_id := {sl(P.rp_id)}; rp_origin := OSingle {sl(P.origin)};
  rp_require_up := true; rp_require_uv := true; rp_algs := [-7; -8; -36; -37; -38; -39; -257; -258; -259]; rp_roots := [];
  rp_builtin_apple := []; rp_builtin_android_key := []; rp_builtin_safetynet := []; rp_now := 0 |}}.""")
A(f"""Definition px_cred : reg_cred := {{| rcr_id := {sl(reg.id_text)}; rcr_raw_id := {zl(reg.cred_id)}; rcr_type := public_key_s;
  rcr_client_data := px_cdj; rcr_att_obj := px_ao; rcr_transports := None; rcr_attachment := None |}}.""")
A("Definition px_stmt : att_stmt := {| st_sig := Some (CBytes px_sig); st_x5c := None; st_response := None; st_alg := Some (CInt (-7)); st_ver := None; st_cert_info := None; st_pub_area := None |}.")
A("")
A("Example packed_example_accepted : is_ok (verify_reg px_oracles px_policy (InRec px_cred)) = true.")
A("Proof. vm_compute. reflexivity. Qed.")
A(f"""Example packed_example_fields : match verify_reg px_oracles px_policy (InRec px_cred) with
  | Ok r => vr_cred_id r = {zl(reg.cred_id)} /\\ vr_count r = {r.count} /\\ vr_fmt r = {zl(b"packed")} /\\ vr_pubkey r = px_key /\\ vr_uv r = true
  | Err _ => False end.""")
A("Proof. vm_compute. repeat split. Qed.")
A("(* the statement verifier itself, and the declared rules it is characterised by *)")
A("Example packed_example_statement : verify_packed px_oracles 0 px_stmt px_ad px_cdj px_key [] = Ok tt.")
A("Proof. vm_compute. reflexivity. Qed.")
A("Example packed_example_meets_the_rules : PackedOk px_oracles 0 px_stmt px_ad px_cdj px_key [].")
A("Proof. apply verify_packed_sound. exact packed_example_statement. Qed.")
A("(* one flipped bit in the signed authenticator data: the rules no longer hold, so (by the iff) the verifier refuses *)")
ad2 = bytes([ad[0] ^ 1]) + ad[1:]
A(f"Example packed_example_tampered_rejected : verify_packed px_oracles 0 px_stmt {zl(ad2)} px_cdj px_key [] = Err (Lib InvalidRegistrationResponse).")
A("Proof. vm_compute. reflexivity. Qed.")
A("(* the structural well-formedness hypotheses of C19's statement theorem are satisfiable by a real statement *)")
A("Example packed_example_wf : packed_wf px_oracles 0 px_stmt px_key [].")
A("""Proof.
  constructor.
  - intros _. exists px_sig. reflexivity.
  - intros H. vm_compute in H. discriminate.
  - constructor.
    + vm_compute. exact I.
    + intros dk E. vm_compute in E. injection E as <-. vm_compute. exact I.
    + intros dk E. vm_compute in E. injection E as <-. split; eexists; reflexivity.
  - intros dk E. vm_compute in E. injection E as <-. vm_compute. exact I.
Qed.""")
outdir = sys.argv[1] if len(sys.argv) > 1 else "/verif/coq/Proofs"
open(os.path.join(outdir, "Examples2.v"), "w").write("\n".join(out) + "\n")
print("written", len(out), "lines")
