#!/venv/bin/python
"""Writes coq/Proofs/Examples.v: concrete ceremonies produced once by the simulator, with the oracle answers they need
inlined as association tables, so that acceptance is checked by the KERNEL (vm_compute) - non-vacuity of the soundness
theorems and a cross-check of the extracted runner against kernel evaluation.  Static file (committed)."""
import sys, os, hashlib, json
sys.path.insert(0, "/verif"); sys.path.insert(0, "/repo")
from harness import authsim, authcat, regsim, impl, oracle, fw
import cbor2

def zl(b): return "[" + "; ".join(str(x) for x in b) + "]"
def sl(s): return zl([ord(c) for c in s])
def jv(j):
    if j is None: return "JNull"
    if j is True: return "(JBool true)"
    if j is False: return "(JBool false)"
    if isinstance(j, int): return f"(JInt ({j}))"
    if isinstance(j, str): return f"(JStr {sl(j)})"
    if isinstance(j, list): return "(JArr [" + "; ".join(jv(x) for x in j) + "])"
    if isinstance(j, dict): return "(JObj [" + "; ".join(f"({sl(k)}, {jv(v)})" for k, v in j.items()) + "])"
    raise TypeError

out = []
A = out.append
A("(* GENERATED ONCE by tools/gen_examples.py from the ceremony simulator (static, committed). *)")
A("From Coq Require Import ZArith List Bool String.")
A("From PW Require Import Model.Base Model.SigTypes Model.Json Model.Base64 Model.Cbor Model.AuthData Model.Oracles Model.ClientData")
A("  Model.CredJson Model.Cose Model.SigAlg Model.Formats Model.VerifyAuth Model.VerifyReg Spec.AuthSpec Spec.RegSpec Proofs.AuthProofs Proofs.RegProofs.")
A("Import ListNotations.")
A("Open Scope Z_scope.")
A("")
# ---------- authentication, ES256 ----------
s = authcat.Scn("ES256-P256"); s.flags = 0x1D; s.count = 77; s.stored = 76; s.require_uv = True
pol, a = s.build()
n = a.cred.pk.public_numbers()
h_rp = hashlib.sha256(pol.rp_id.encode()).digest(); h_cd = hashlib.sha256(a.cdj).digest()
A(f"Definition ex_cdj : bytes := {zl(a.cdj)}.")
A(f"Definition ex_ad : bytes := {zl(a.ad)}.")
A(f"Definition ex_sig : bytes := {zl(a.sig)}.")
A(f"Definition ex_key : bytes := {zl(pol.pubkey)}.")
A(f"Definition ex_rp_utf8 : bytes := {zl(pol.rp_id.encode())}.")
A(f"Definition ex_h_rp : bytes := {zl(h_rp)}.")
A(f"Definition ex_h_cd : bytes := {zl(h_cd)}.")
A(f"Definition ex_pk : pubkey := PkEC 1 {n.x} {n.y}.")
A(f"Definition ex_cd_json : json := {jv(json.loads(a.cdj))}.")
A("Definition pk_eqb (a b : pubkey) : bool := match a, b with PkEC c x y, PkEC c' x' y' => (c =? c') && (x =? x') && (y =? y') | _, _ => false end.")
A("""Definition ex_oracles : oracles := {|
  o_hash := fun h d => if bytes_eqb d ex_rp_utf8 then ex_h_rp else if bytes_eqb d ex_cdj then ex_h_cd else [];
  o_json_loads := fun is_text d => if negb is_text && bytes_eqb d ex_cdj then JOk ex_cd_json else JDecodeError;
  o_key_ok := fun k => pk_eqb k ex_pk;
  o_verify := fun k sch s m => pk_eqb k ex_pk && scheme_eqb sch (ECDSA SHA256) && bytes_eqb s ex_sig && bytes_eqb m (ex_ad ++ ex_h_cd);
  o_spki := fun _ => [];
  o_cert := fun _ => None;
  o_chain := fun _ _ _ => ChainInvalid |}.""")
A(f"""Definition ex_policy : auth_policy := {{| ap_challenge := {zl(pol.challenge)}; ap_rp_id := {sl(pol.rp_id)}; ap_origin := OSingle {sl(pol.origin)};
  ap_pubkey := ex_key; ap_count := {pol.count}; ap_require_uv := true |}}.""")
A(f"""Definition ex_cred : auth_cred := {{| acr_id := {sl(a.id_text)}; acr_raw_id := {zl(a.cred_id)}; acr_type := public_key_s;
  acr_client_data := ex_cdj; acr_auth_data := ex_ad; acr_signature := ex_sig; acr_user_handle := None; acr_attachment := None |}}.""")
A(f"""Definition ex_result : verified_auth := {{| va_cred_id := {zl(a.cred_id)}; va_new_count := {s.count}; va_multi_device := true; va_backed_up := true; va_uv := true |}}.""")
A("Example auth_example_accepted : verify_auth ex_oracles ex_policy (InRec ex_cred) = Ok ex_result.")
A("Proof. vm_compute. reflexivity. Qed.")
A("Example auth_example_meets_the_spec : AuthAccepted ex_oracles ex_policy ex_cred ex_result.")
A("Proof. apply verify_auth_rec_sound. exact auth_example_accepted. Qed.")
A("(* the same assertion against a stored counter that has caught up is refused: the premises of C07 are met by a real case *)")
A(f"Example auth_example_replay_rejected : is_ok (verify_auth ex_oracles (with_count ex_policy {s.count}) (InRec ex_cred)) = false.")
A("Proof. vm_compute. reflexivity. Qed.")
A("(* and with one byte of the challenge changed in the policy *)")
ch2 = bytes([pol.challenge[0] ^ 1]) + pol.challenge[1:]
A(f"""Example auth_example_other_challenge_rejected :
  verify_auth ex_oracles {{| ap_challenge := {zl(ch2)}; ap_rp_id := ap_rp_id ex_policy; ap_origin := ap_origin ex_policy; ap_pubkey := ex_key; ap_count := {pol.count}; ap_require_uv := true |}} (InRec ex_cred)
  = Err (Lib InvalidAuthenticationResponse).""")
A("Proof. vm_compute. reflexivity. Qed.")
A("")
# ---------- registration, fmt none ----------
r = regsim.RScn("none", "ES256-P256"); r.flags = 0x45; r.count = 5
pd, reg = regsim.build(r)
P = impl.RegPolicy(**pd)
h_rp2 = hashlib.sha256(P.rp_id.encode()).digest()
A(f"Definition rx_cdj : bytes := {zl(reg.cdj)}.")
A(f"Definition rx_ao : bytes := {zl(reg.att_obj)}.")
A(f"Definition rx_cd_json : json := {jv(json.loads(reg.cdj))}.")
A(f"Definition rx_h_rp : bytes := {zl(h_rp2)}.")
A("""Definition rx_oracles : oracles := {|
  o_hash := fun h d => if bytes_eqb d ex_rp_utf8 then rx_h_rp else [];
  o_json_loads := fun is_text d => if negb is_text && bytes_eqb d rx_cdj then JOk rx_cd_json else JDecodeError;
  o_key_ok := fun _ => true; o_verify := fun _ _ _ _ => false; o_spki := fun _ => []; o_cert := fun _ => None;
  o_chain := fun _ _ _ => ChainInvalid |}.""")
A(f"""Definition rx_policy : reg_policy := {{| rp_challenge := {zl(P.challenge)}; rp_rp_id := {sl(P.rp_id)}; rp_origin := OSingle {sl(P.origin)};
  rp_require_up := true; rp_require_uv := false; rp_algs := [-7; -8; -36; -37; -38; -39; -257; -258; -259]; rp_roots := [];
  rp_builtin_apple := []; rp_builtin_android_key := []; rp_builtin_safetynet := []; rp_now := 0 |}}.""")
A(f"""Definition rx_cred : reg_cred := {{| rcr_id := {sl(reg.id_text)}; rcr_raw_id := {zl(reg.cred_id)}; rcr_type := public_key_s;
  rcr_client_data := rx_cdj; rcr_att_obj := rx_ao; rcr_transports := None; rcr_attachment := None |}}.""")
A("Example reg_example_accepted : is_ok (verify_reg rx_oracles rx_policy (InRec rx_cred)) = true.")
A("Proof. vm_compute. reflexivity. Qed.")
import uuid
A(f"""Example reg_example_fields : match verify_reg rx_oracles rx_policy (InRec rx_cred) with
  | Ok r => vr_cred_id r = {zl(reg.cred_id)} /\\ vr_count r = {r.count} /\\ vr_aaguid r = {sl(str(uuid.UUID(bytes=r.aaguid)))} /\\ vr_fmt r = {zl(b"none")}
            /\\ vr_pubkey r = {zl(reg.cred.cose_bytes)} /\\ vr_uv r = true
  | Err _ => False end.""")
A("Proof. vm_compute. repeat split. Qed.")
A("Example reg_example_meets_the_spec : exists r, RegAccepted rx_oracles rx_policy rx_cred r.")
A("Proof. destruct (verify_reg_rec rx_oracles rx_policy rx_cred) as [r|e] eqn:E; [exists r; apply verify_reg_rec_sound; exact E|].")
A("  exfalso. assert (H : is_ok (verify_reg_rec rx_oracles rx_policy rx_cred) = true) by (vm_compute; reflexivity). rewrite E in H. discriminate. Qed.")
open("/verif/coq/Proofs/Examples.v", "w").write("\n".join(out) + "\n")
print("written", len(out), "lines")
