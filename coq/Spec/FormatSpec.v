(* Spec: the declared rules of each signed attestation format (C03), as declarative predicates over the
   statement, the presented authenticator data / client data, the credential public key and the abstract
   certificate record. *)
From Coq Require Import ZArith List Bool String.
From PW Require Import Model.Base Model.SigTypes Model.Json Model.Base64 Model.Cbor Model.AuthData
  Model.Oracles Model.Cose Model.SigAlg Model.Tpm Model.Formats Generated.Constants.
Import ListNotations.
Open Scope Z_scope.

(* "sig is a signature over msg under key k with the scheme alg denotes": verify_signature said yes *)
Definition Signed (O : oracles) (k : pubkey) (alg sg : cbor) (msg : bytes) : Prop :=
  verify_signature O k alg sg msg = Ok true.

Definition att_to_be_signed (O : oracles) (auth_data cdj : bytes) : bytes := auth_data ++ sha256 O cdj.

Record PackedOk (O : oracles) (now : Z) (st : att_stmt) (auth_data cdj cred_pk : bytes) (roots : list bytes) : Prop := {
  pk_sig : unset (st_sig st) = false;
  pk_alg : unset (st_alg st) = false;
  pk_mode :
    (* basic / attCA: chain validated (when anchors are in force), signature by the leaf certificate's key *)
    (unset (st_x5c st) = false /\ exists x5c c,
        x5c_list (fld (st_x5c st)) = Ok x5c /\ validate_chain O now x5c roots = Ok tt /\
        load_cert O (hd_bytes x5c) = Ok c /\
        Signed O (c_key c) (fld (st_alg st)) (fld (st_sig st)) (att_to_be_signed O auth_data cdj))
    \/
    (* self attestation: statement alg agrees with the credential key's, signature by the credential key *)
    (unset (st_x5c st) = true /\ exists dk pk,
        decode_credential_public_key cred_pk = Ok dk /\ cbor_py_eq (dk_alg dk) (fld (st_alg st)) = Ok true /\
        to_crypto O dk = Ok pk /\
        Signed O pk (fld (st_alg st)) (fld (st_sig st)) (att_to_be_signed O auth_data cdj)) }.

Record U2fOk (O : oracles) (now : Z) (st : att_stmt) (cdj rp_hash cred_id cred_pk aaguid : bytes) (roots : list bytes) : Prop := {
  u_sig : unset (st_sig st) = false;
  u_one_cert : exists der c, x5c_list (fld (st_x5c st)) = Ok [der] /\ validate_chain O now [der] roots = Ok tt /\
      load_cert O der = Ok c /\
      (exists x y, c_key c = PkEC 1 x y) /\                         (* P-256 EC leaf *)
      exists alg crv xb yb,
        decode_credential_public_key cred_pk = Ok (DEC2 alg crv (CBytes xb) (CBytes yb)) /\   (* EC2 credential key *)
        cbor_eq_int alg (-7) = true /\ cbor_eq_int crv 1 = true /\
        Signed O (c_key c) (CInt (-7)) (fld (st_sig st))
               ([0] ++ rp_hash ++ sha256 O cdj ++ cred_id ++ ([4] ++ xb ++ yb));
  u_zero_aaguid : aaguid_to_string aaguid = Ok zero_aaguid }.

Record TpmOk (O : oracles) (now : Z) (st : att_stmt) (auth_data cdj cred_pk : bytes) (roots : list bytes) : Prop := {
  t_ver : fld (st_ver st) = CText (s2l "2.0");
  t_members : unset (st_cert_info st) = false /\ unset (st_pub_area st) = false /\ unset (st_alg st) = false /\
              unset (st_x5c st) = false /\ unset (st_sig st) = false;
  t_body : exists x5c pa_raw ci_raw pa dk ci c ph,
      x5c_list (fld (st_x5c st)) = Ok x5c /\ validate_chain O now x5c roots = Ok tt /\
      fld (st_pub_area st) = CBytes pa_raw /\ fld (st_cert_info st) = CBytes ci_raw /\
      parse_pub_area pa_raw = Ok pa /\ decode_credential_public_key cred_pk = Ok dk /\
      (* pubArea / credential key equality *)
      match pa_params pa, dk with
      | RSAParams _ _ _ expo, DRSA _ (CBytes nb) (CBytes eb) =>
          pa_unique pa = nb /\ (if be_int expo =? 0 then 65537 else be_int expo) = be_int eb
      | ECCParams _ _ crv _, DEC2 _ kcrv (CBytes xb) (CBytes yb) =>
          pa_unique pa = xb ++ yb /\ exists c0, str_assoc tpm_curve_cose_map crv = Some c0 /\ cbor_eq_int kcrv c0 = true
      | _, _ => False
      end /\
      parse_cert_info ci_raw = Ok ci /\                               (* includes type = ATTEST_CERTIFY *)
      be_int (ci_magic ci) = 4283712327 /\                          (* TPM_GENERATED_VALUE 0xFF544347 *)
      ci_extra_data ci = hash_by_alg O (auth_data ++ hash_by_alg O cdj None) (alg_int (fld (st_alg st))) /\
      tpm_name_hash O pa_raw (pa_name_alg pa) = Ok ph /\
      ci_name_alg ci = pa_name_alg pa /\ ci_name ci = ci_name_alg_bytes ci ++ ph /\
      load_cert O (hd_bytes x5c) = Ok c /\
      Signed O (c_key c) (fld (st_alg st)) (fld (st_sig st)) ci_raw /\
      check_aik_cert c = Ok tt }.

Record AikOk (c : cert) : Prop := {
  k_v3 : c_version c = 3;
  k_subject_empty : c_subject_len c <= 0;
  k_san : exists attrs, c_san c = SanDir attrs /\
      san_lookup attrs "2.23.133.2.1" <> [] /\ san_lookup attrs "2.23.133.2.2" <> [] /\ san_lookup attrs "2.23.133.2.3" <> [] /\
      manufacturer_known (san_lookup attrs "2.23.133.2.1") = true;
  k_eku : exists rest, c_eku c = Some (s2l "2.23.133.8.3" :: rest);
  k_not_ca : c_basic_ca c = Some false }.

Record AppleOk (O : oracles) (now : Z) (st : att_stmt) (auth_data cdj cred_pk : bytes) (roots builtin : list bytes) : Prop := {
  a_x5c : unset (st_x5c st) = false;
  a_body : exists x5c c v dk pk,
      x5c_list (fld (st_x5c st)) = Ok x5c /\ validate_chain O now x5c (roots ++ builtin) = Ok tt /\
      load_cert O (hd_bytes x5c) = Ok c /\ c_apple_ext c = Some v /\
      drop 6 v = sha256 O (auth_data ++ sha256 O cdj) /\
      decode_credential_public_key cred_pk = Ok dk /\ to_crypto O dk = Ok pk /\ c_spki c = o_spki O pk }.

Record AndroidKeyOk (O : oracles) (now : Z) (st : att_stmt) (auth_data cdj cred_pk : bytes) (roots builtin : list bytes) : Prop := {
  ak_members : unset (st_sig st) = false /\ unset (st_alg st) = false /\ unset (st_x5c st) = false;
  ak_body : exists x5c rootc c dk pk kd,
      x5c_list (fld (st_x5c st)) = Ok x5c /\ load_cert O (last_bytes x5c) = Ok rootc /\
      validate_chain O now (removelast x5c) [c_pem rootc] = Ok tt /\
      In (c_pem rootc) (roots ++ builtin) /\
      load_cert O (hd_bytes x5c) = Ok c /\
      Signed O (c_key c) (fld (st_alg st)) (fld (st_sig st)) (att_to_be_signed O auth_data cdj) /\
      decode_credential_public_key cred_pk = Ok dk /\ to_crypto O dk = Ok pk /\ c_spki c = o_spki O pk /\
      c_android_ext c = Some (Some kd) /\
      kd_challenge kd = sha256 O cdj /\ kd_sw_all_apps kd = false /\ kd_tee_all_apps kd = false /\
      kd_tee_origin kd = Some 0 /\ kd_tee_purpose kd = Some [2] }.

Record SafetyNetOk (O : oracles) (now : Z) (st : att_stmt) (auth_data cdj : bytes) (roots builtin : list bytes) : Prop := {
  sn_members : unset (st_ver st) = false /\ unset (st_response st) = false;
  sn_body : exists resp p0 p1 p2 hb hj pb pj x5c_txt x5c c sg ts cn cns,
      fld (st_response st) = CBytes resp /\ is_ascii resp = true /\ split_dot resp [] = [p0; p1; p2] /\
      (* the certificates are the JWS header's x5c, the timestamp the payload's timestampMs *)
      sn_x5c_txt hj = Ok x5c_txt /\ map_res b64url_dec x5c_txt = Ok x5c /\ sn_timestamp pj = Ok ts /\
      b64url_dec p0 = Ok hb /\ loads_obj O hb = Ok hj /\ b64url_dec p1 = Ok pb /\ loads_obj O pb = Ok pj /\
      (* payload.nonce (default "") is the padded standard base64 of SHA-256(authData || clientDataHash) *)
      match jget pj (s2l "nonce") with Some v => v | None => JStr [] end
        = JStr (b64std_enc (sha256 O (auth_data ++ sha256 O cdj))) /\
      (exists v, jget pj (s2l "basicIntegrity") = Some v /\ json_truthy v = true) /\
      timestamp_ok now ts = true /\
      load_cert O (hd_bytes x5c) = Ok c /\ x5c <> [] /\ c_subject_cns c = cn :: cns /\ cn = s2l "attest.android.com" /\
      validate_chain O now x5c (roots ++ builtin) = Ok tt /\
      b64url_dec p2 = Ok sg /\
      jget hj (s2l "alg") = Some (JStr (s2l "RS256")) /\
      Signed O (c_key c) (CInt (-257)) (CBytes sg) (p0 ++ [46] ++ p1) }.
