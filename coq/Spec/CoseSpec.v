(* Spec: COSE_Key encodings (RFC 8152 section 13) of the three key types, as CBOR values built independently of the decoder. *)
From Coq Require Import ZArith List Bool.
From PW Require Import Model.Base Model.Cbor.
Import ListNotations.
Open Scope Z_scope.

Definition cose_ec2 (alg crv : Z) (x y : bytes) : cbor :=
  CMap [(CInt 1, CInt 2); (CInt 3, CInt alg); (CInt (-1), CInt crv); (CInt (-2), CBytes x); (CInt (-3), CBytes y)].
Definition cose_okp (alg crv : Z) (x : bytes) : cbor :=
  CMap [(CInt 1, CInt 1); (CInt 3, CInt alg); (CInt (-1), CInt crv); (CInt (-2), CBytes x)].
Definition cose_rsa (alg : Z) (n e : bytes) : cbor :=
  CMap [(CInt 1, CInt 3); (CInt 3, CInt alg); (CInt (-1), CBytes n); (CInt (-2), CBytes e)].

(* raw 65-byte uncompressed P-256 point *)
Definition raw_p256 (x y : bytes) : bytes := [4] ++ x ++ y.
