(* Spec: the WebAuthn JSON wire shapes PublicKeyCredentialRequestOptionsJSON / CreationOptionsJSON as boolean
   predicates on JSON values (member names, enum strings, numeric alg ids, unpadded base64url, no nulls). *)
From Coq Require Import ZArith List Bool String.
From PW Require Import Model.Base Model.Json.
Import ListNotations.
Open Scope Z_scope.

Definition b64url_char (c : Z) : bool :=
  ((65 <=? c) && (c <=? 90)) || ((97 <=? c) && (c <=? 122)) || ((48 <=? c) && (c <=? 57)) || (c =? 45) || (c =? 95).
Definition is_b64url (j : json) : bool := match j with JStr s => forallb b64url_char s | _ => false end.
Definition is_str (j : json) : bool := match j with JStr _ => true | _ => false end.
Definition is_int (j : json) : bool := match j with JInt _ => true | _ => false end.
Definition str_in (l : list string) (j : json) : bool := match j with JStr s => existsb (fun t => str_eqb s (s2l t)) l | _ => false end.

Definition spec_transports : list string := ["usb"; "nfc"; "ble"; "smart-card"; "internal"; "cable"; "hybrid"]%string.
Definition spec_uv : list string := ["required"; "preferred"; "discouraged"]%string.
Definition spec_attachment : list string := ["platform"; "cross-platform"]%string.
Definition spec_resident_key : list string := ["discouraged"; "preferred"; "required"]%string.
Definition spec_attestation : list string := ["none"; "indirect"; "direct"; "enterprise"]%string.
Definition spec_hints : list string := ["security-key"; "client-device"; "hybrid"]%string.

(* every member of an object satisfies the check registered for its name; unknown names are not allowed;
   required names are present *)
Fixpoint members_ok (checks : list (string * (json -> bool))) (m : list (pystr * json)) : bool :=
  match m with
  | [] => true
  | (k, v) :: r =>
      (match find (fun c => str_eqb k (s2l (fst c))) checks with Some c => snd c v | None => false end)
      && members_ok checks r
  end.
Definition has_all (req : list string) (m : list (pystr * json)) : bool :=
  forallb (fun k => jhas m (s2l k)) req.
Definition obj_ok (req : list string) (checks : list (string * (json -> bool))) (j : json) : bool :=
  match j with JObj m => has_all req m && members_ok checks m | _ => false end.
Definition arr_of (f : json -> bool) (j : json) : bool := match j with JArr l => forallb f l | _ => false end.
Definition nonempty_arr_of (f : json -> bool) (j : json) : bool := match j with JArr (x :: l) => forallb f (x :: l) | _ => false end.

Definition descriptor_schema : json -> bool :=
  obj_ok ["id"; "type"]%string
    [("id", is_b64url); ("type", fun j => jstr_is j (s2l "public-key")); ("transports", nonempty_arr_of (str_in spec_transports))]%string.

Definition request_schema : json -> bool :=
  obj_ok ["challenge"]%string
    [("challenge", is_b64url); ("timeout", is_int); ("rpId", is_str); ("allowCredentials", arr_of descriptor_schema);
     ("userVerification", str_in spec_uv)]%string.

Definition creation_schema : json -> bool :=
  obj_ok ["rp"; "user"; "challenge"; "pubKeyCredParams"]%string
    [("rp", obj_ok ["name"]%string [("name", is_str); ("id", is_str)]%string);
     ("user", obj_ok ["id"; "name"; "displayName"]%string [("id", is_b64url); ("name", is_str); ("displayName", is_str)]%string);
     ("challenge", is_b64url);
     ("pubKeyCredParams", arr_of (obj_ok ["type"; "alg"]%string [("type", fun j => jstr_is j (s2l "public-key")); ("alg", is_int)]%string));
     ("timeout", is_int);
     ("excludeCredentials", arr_of descriptor_schema);
     ("authenticatorSelection", obj_ok []%string
        [("authenticatorAttachment", str_in spec_attachment); ("residentKey", str_in spec_resident_key);
         ("requireResidentKey", fun j => match j with JBool _ => true | _ => false end); ("userVerification", str_in spec_uv)]%string);
     ("attestation", str_in spec_attestation);
     ("hints", arr_of (str_in spec_hints))]%string.
