(* Spec: what "a registration response is accepted" must mean at ceremony level (C02), the seven formats,
   and the looseness order on registration policies (C20). *)
From Coq Require Import ZArith List Bool String.
From PW Require Import Model.Base Model.SigTypes Model.Json Model.Base64 Model.Cbor Model.AuthData
  Model.Oracles Model.ClientData Model.CredJson Model.Cose Model.SigAlg Model.Formats Model.VerifyAuth Model.VerifyReg
  Generated.Constants Spec.AuthSpec.
Import ListNotations.
Open Scope Z_scope.

Definition seven_formats : list string :=
  ["packed"; "tpm"; "android-key"; "android-safetynet"; "fido-u2f"; "apple"; "none"]%string.

Record RegAccepted (O : oracles) (P : reg_policy) (c : reg_cred) (r : verified_reg) : Prop := {
  ra_id : rcr_id c = b64url_enc (rcr_raw_id c);
  ra_type : rcr_type c = public_key_s;
  ra_cd : exists cd, parse_client_data O (rcr_client_data c) = Ok cd /\
      cd_type cd = JStr webauthn_create /\
      cd_challenge cd = rp_challenge P /\
      origin_ok (rp_origin P) (cd_origin cd) = true /\
      token_binding_ok token_binding_ok_reg (cd_token_binding cd) = true;
  ra_ao : exists ao h att dk alg fmt ag,
      parse_att_object (rcr_att_obj c) = Ok ao /\
      rp_id_hash O (rp_rp_id P) = Ok h /\ ad_rp_hash (ao_auth_data ao) = h /\
      (rp_require_up P = true -> f_up (ao_auth_data ao) = true) /\
      (rp_require_uv P = true -> f_uv (ao_auth_data ao) = true) /\
      ad_att (ao_auth_data ao) = Some att /\
      ac_cred_id att <> [] /\ ac_pubkey att <> [] /\ ac_aaguid att <> [] /\
      decode_credential_public_key (ac_pubkey att) = Ok dk /\
      alg_int (dk_alg dk) = Some alg /\ In alg (rp_algs P) /\
      ao_fmt ao = CText fmt /\
      verify_statement O P fmt (ao_stmt ao) (ao_auth_data_raw ao) (rcr_client_data c) (ao_auth_data ao) att = Ok tt /\
      (f_bs (ao_auth_data ao) = true -> f_be (ao_auth_data ao) = true) /\
      aaguid_to_string (ac_aaguid att) = Ok ag /\
      r = {| vr_cred_id := ac_cred_id att; vr_pubkey := ac_pubkey att; vr_count := ad_count (ao_auth_data ao);
             vr_aaguid := ag; vr_fmt := fmt; vr_type := rcr_type c; vr_uv := f_uv (ao_auth_data ao);
             vr_att_obj := rcr_att_obj c; vr_multi_device := f_be (ao_auth_data ao);
             vr_backed_up := f_bs (ao_auth_data ao) |}
}.

Record reg_looser (P P' : reg_policy) : Prop := {
  rl_challenge : rp_challenge P' = rp_challenge P;
  rl_rp : rp_rp_id P' = rp_rp_id P;
  rl_roots : rp_roots P' = rp_roots P;
  rl_b1 : rp_builtin_apple P' = rp_builtin_apple P;
  rl_b2 : rp_builtin_android_key P' = rp_builtin_android_key P;
  rl_b3 : rp_builtin_safetynet P' = rp_builtin_safetynet P;
  rl_now : rp_now P' = rp_now P;
  rl_origin : origin_looser (rp_origin P) (rp_origin P');
  rl_up : rp_require_up P' = true -> rp_require_up P = true;
  rl_uv : rp_require_uv P' = true -> rp_require_uv P = true;
  rl_algs : incl (rp_algs P) (rp_algs P') }.
