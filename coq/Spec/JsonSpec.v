(* Spec: the WebAuthn JSON form of credentials (C13), built independently of the parsers. *)
From Coq Require Import ZArith List Bool String.
From PW Require Import Model.Base Model.Json Model.Base64.
Import ListNotations.
Open Scope Z_scope.

Definition opt_member {A} (k : string) (f : A -> json) (o : option A) : list (pystr * json) :=
  match o with Some a => [(s2l k, f a)] | None => [] end.

(* k1..k4: any amount of '=' padding appended to each base64url member *)
Definition auth_cred_json (id : pystr) (raw cdj ad sg : bytes) (uh : option bytes) (att : option pystr)
    (k1 k2 k3 k4 k5 : nat) (extra rextra : list (pystr * json)) : json :=
  JObj ([(s2l "id", JStr id);
         (s2l "rawId", JStr (b64url_enc raw ++ repeat 61 k1));
         (s2l "type", JStr (s2l "public-key"));
         (s2l "response", JObj ([(s2l "clientDataJSON", JStr (b64url_enc cdj ++ repeat 61 k2));
                                 (s2l "authenticatorData", JStr (b64url_enc ad ++ repeat 61 k3));
                                 (s2l "signature", JStr (b64url_enc sg ++ repeat 61 k4));
                                 (s2l "userHandle", match uh with Some u => JStr (b64url_enc u ++ repeat 61 k5) | None => JNull end)]
                                ++ rextra));
         (s2l "authenticatorAttachment", match att with Some a => JStr a | None => JNull end)]
        ++ extra).

Definition reg_cred_json (id : pystr) (raw cdj ao : bytes) (tr : option (list json)) (att : option pystr)
    (k1 k2 k3 : nat) (extra rextra : list (pystr * json)) : json :=
  JObj ([(s2l "id", JStr id);
         (s2l "rawId", JStr (b64url_enc raw ++ repeat 61 k1));
         (s2l "type", JStr (s2l "public-key"));
         (s2l "response", JObj ([(s2l "clientDataJSON", JStr (b64url_enc cdj ++ repeat 61 k2));
                                 (s2l "attestationObject", JStr (b64url_enc ao ++ repeat 61 k3));
                                 (s2l "transports", match tr with Some l => JArr l | None => JNull end)]
                                ++ rextra));
         (s2l "authenticatorAttachment", match att with Some a => JStr a | None => JNull end)]
        ++ extra).

Definition known_transports : list string := ["usb"; "nfc"; "ble"; "smart-card"; "internal"; "cable"; "hybrid"]%string.
Definition known_attachments : list string := ["platform"; "cross-platform"]%string.

(* exactly the recognised transports, order kept *)
Definition filter_transports (l : list json) : list pystr :=
  flat_map (fun v => match v with
                     | JStr s => if existsb (fun t => str_eqb s (s2l t)) known_transports then [s] else []
                     | _ => [] end) l.
