(* Spec: what a valid certification path is (RFC 5280 section 6, reduced to what C04/C17 talk about), over an
   abstract view of certificates.  OpenSSL's verdict is tied to it only by an explicit hypothesis. *)
From Coq Require Import ZArith List Bool.
From PW Require Import Model.Base.
Import ListNotations.
Open Scope Z_scope.

Record xcert := {
  x_subject : list Z; x_issuer : list Z;
  x_not_before : Z; x_not_after : Z;          (* seconds *)
  x_is_ca : bool;
  x_key : Z;                                   (* identity of the subject public key *)
  x_signed_by : Z }.                           (* identity of the key under which the signature verifies (0 = none) *)

Definition in_validity (now : Z) (c : xcert) : Prop := x_not_before c <= now < x_not_after c.
Definition issued_by (c parent : xcert) : Prop :=
  x_issuer c = x_subject parent /\ x_signed_by c = x_key parent /\ x_is_ca parent = true.

(* path = leaf :: ... :: anchor ; every certificate inside its validity period at `now` (the anchor included),
   each one issued (name + signature) by the next, every issuer CA-capable, the last one a configured anchor *)
Inductive ValidPath (now : Z) (anchors : list xcert) : list xcert -> Prop :=
| vp_anchor c : In c anchors -> in_validity now c -> ValidPath now anchors [c]
| vp_step c p rest : in_validity now c -> issued_by c p -> ValidPath now anchors (p :: rest) -> ValidPath now anchors (c :: p :: rest).

(* a chain (leaf first, intermediates in any order, possibly with unrelated certificates) is acceptable when some
   path starts at the leaf, uses only presented certificates in between and ends in an anchor *)
Definition ChainAcceptable (now : Z) (x5c anchors : list xcert) : Prop :=
  match x5c with
  | [] => False
  | leaf :: inter => exists path, ValidPath now anchors (leaf :: path) /\
                      (forall c, In c (removelast path) -> In c inter)
  end.

Lemma valid_path_all_in_validity now anchors p : ValidPath now anchors p -> Forall (in_validity now) p.
Proof. induction 1; constructor; auto. Qed.

Lemma valid_path_ends_in_anchor now anchors p : ValidPath now anchors p -> exists c, In c anchors /\ In c p.
Proof.
  induction 1 as [c Hin Hv|c p rest Hv Hi Hp IH].
  - exists c. split; [exact Hin|left; reflexivity].
  - destruct IH as (a & Ha & Hp'). exists a. split; [exact Ha|right; exact Hp'].
Qed.

Lemma valid_path_issuers_are_ca now anchors c p rest : ValidPath now anchors (c :: p :: rest) -> x_is_ca p = true.
Proof. intros H. inversion H as [|? ? ? Hv Hi Hp]; subst. destruct Hi as (_ & _ & Hca). exact Hca. Qed.

(* ---------- the same notion, EXECUTABLE (equivalence proved in Proofs/PathProofs.v) ---------- *)
Definition xcert_eqb (a b : xcert) : bool :=
  list_eqb Z.eqb (x_subject a) (x_subject b) && list_eqb Z.eqb (x_issuer a) (x_issuer b) &&
  (x_not_before a =? x_not_before b) && (x_not_after a =? x_not_after b) && Bool.eqb (x_is_ca a) (x_is_ca b) &&
  (x_key a =? x_key b) && (x_signed_by a =? x_signed_by b).

Definition in_validity_b (now : Z) (c : xcert) : bool := (x_not_before c <=? now) && (now <? x_not_after c).
Definition issued_by_b (c p : xcert) : bool :=
  list_eqb Z.eqb (x_issuer c) (x_subject p) && (x_signed_by c =? x_key p) && x_is_ca p.

(* depth-first search from certificate c: c is an anchor, or is issued by an anchor, or is issued by a presented
   intermediate from which the search succeeds *)
Fixpoint search (fuel : nat) (now : Z) (inter anchors : list xcert) (c : xcert) : bool :=
  match fuel with
  | O => false
  | S f =>
      in_validity_b now c &&
      (existsb (xcert_eqb c) anchors
       || existsb (fun a => issued_by_b c a && in_validity_b now a) anchors
       || existsb (fun p => issued_by_b c p && search f now inter anchors p) inter)
  end.

Definition chain_acceptable_b (now : Z) (x5c anchors : list xcert) : bool :=
  match x5c with
  | [] => false
  | leaf :: inter => search (S (S (length inter))) now inter anchors leaf
  end.

