(* Spec: what "an authentication response is accepted" must mean (C01), as a declarative predicate
   over the parsed pieces; and the looseness order on RP policies (C20). *)
From Coq Require Import ZArith List Bool.
From PW Require Import Model.Base Model.SigTypes Model.Json Model.Base64 Model.Cbor Model.AuthData
  Model.Oracles Model.ClientData Model.CredJson Model.Cose Model.SigAlg Model.VerifyAuth
  Generated.Constants Spec.SigSpec.
Import ListNotations.
Open Scope Z_scope.

Record AuthAccepted (O : oracles) (P : auth_policy) (c : auth_cred) (r : verified_auth) : Prop := {
  aa_id : acr_id c = b64url_enc (acr_raw_id c);
  aa_type : acr_type c = public_key_s;
  aa_cd : exists cd, parse_client_data O (acr_client_data c) = Ok cd /\
      cd_type cd = JStr webauthn_get /\
      cd_challenge cd = ap_challenge P /\
      origin_ok (ap_origin P) (cd_origin cd) = true /\
      token_binding_ok token_binding_ok_auth (cd_token_binding cd) = true;
  aa_ad : exists ad h, parse_auth_data (acr_auth_data c) = Ok ad /\
      rp_id_hash O (ap_rp_id P) = Ok h /\ ad_rp_hash ad = h /\
      f_up ad = true /\ (ap_require_uv P = true -> f_uv ad = true) /\
      counter_ok (ap_count P) (ad_count ad) = true /\
      (f_bs ad = true -> f_be ad = true) /\
      r = {| va_cred_id := acr_raw_id c; va_new_count := ad_count ad;
             va_multi_device := f_be ad; va_backed_up := f_bs ad; va_uv := f_uv ad |};
  aa_sig : exists dk pk alg sch,
      decode_credential_public_key (ap_pubkey P) = Ok dk /\ to_crypto O dk = Ok pk /\
      alg_int (dk_alg dk) = Some alg /\ spec_scheme (kind_of pk) alg = Some sch /\
      o_verify O pk sch (acr_signature c) (acr_auth_data c ++ sha256 O (acr_client_data c)) = true
}.

(* looseness of policies *)
Definition origin_looser (e e' : origin_exp) : Prop :=
  forall o, origin_ok e o = true -> origin_ok e' o = true.

Record auth_looser (P P' : auth_policy) : Prop := {
  al_challenge : ap_challenge P' = ap_challenge P;
  al_rp : ap_rp_id P' = ap_rp_id P;
  al_key : ap_pubkey P' = ap_pubkey P;
  al_count : ap_count P' = ap_count P;
  al_origin : origin_looser (ap_origin P) (ap_origin P');
  al_uv : ap_require_uv P' = true -> ap_require_uv P = true }.
