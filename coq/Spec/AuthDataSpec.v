(* Spec: the WebAuthn authenticator-data layout (section 6.1), written as an ENCODER independent of the parser. *)
From Coq Require Import ZArith List Bool.
From PW Require Import Model.Base Model.Cbor.
Import ListNotations.
Open Scope Z_scope.

Record att_fields := { sp_aaguid : bytes; sp_cred_id : bytes; sp_key : cbor }.

Definition att_bytes (a : option att_fields) : bytes :=
  match a with
  | Some x => sp_aaguid x ++ be_bytes 2 (len (sp_cred_id x)) ++ sp_cred_id x ++ cbor_enc (sp_key x)
  | None => []
  end.
Definition ext_bytes (e : option cbor) : bytes := match e with Some v => cbor_enc v | None => [] end.

Definition authdata_layout (rp_hash : bytes) (flags count : Z) (a : option att_fields) (e : option cbor) : bytes :=
  rp_hash ++ [flags] ++ be_bytes 4 count ++ att_bytes a ++ ext_bytes e.

Definition is_some {A} (o : option A) : bool := match o with Some _ => true | None => false end.
