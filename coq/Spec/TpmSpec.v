(* Spec: TPM 2.0 structure layouts (Part 2: TPMS_ATTEST 10.12.8 with TPMS_CERTIFY_INFO, TPMT_PUBLIC 12.2.4) as
   ENCODERS, the TCG identifier tables (6.3 TPM_ALG_ID, 6.4 TPM_ECC_CURVE, 6.9 TPM_ST), and the TCG vendor-id registry. *)
From Coq Require Import ZArith List Bool String.
From PW Require Import Model.Base Model.Cbor.
Import ListNotations.
Open Scope Z_scope.

Definition sized (b : bytes) : bytes := be_bytes 2 (len b) ++ b.      (* TPM2B_*: 2-byte length prefix *)

Definition tpms_attest (magic : bytes) (typ : Z) (qualified_signer extra_data clock : bytes) (reset restart safe : Z)
    (firmware name qualified_name : bytes) : bytes :=
  magic ++ be_bytes 2 typ ++ sized qualified_signer ++ sized extra_data
  ++ (clock ++ be_bytes 4 reset ++ be_bytes 4 restart ++ [safe]) ++ firmware ++ sized name ++ sized qualified_name.

Definition tpmt_public_rsa (name_alg attrs : Z) (auth_policy : bytes) (sym scheme : Z) (key_bits exponent unique : bytes) : bytes :=
  be_bytes 2 1 ++ be_bytes 2 name_alg ++ be_bytes 4 attrs ++ sized auth_policy
  ++ (be_bytes 2 sym ++ be_bytes 2 scheme ++ key_bits ++ exponent) ++ sized unique.

Definition tpmt_public_ecc (name_alg attrs : Z) (auth_policy : bytes) (sym scheme curve kdf : Z) (x y : bytes) : bytes :=
  be_bytes 2 35 ++ be_bytes 2 name_alg ++ be_bytes 4 attrs ++ sized auth_policy
  ++ (be_bytes 2 sym ++ be_bytes 2 scheme ++ be_bytes 2 curve ++ be_bytes 2 kdf) ++ sized x ++ sized y.

Definition tcg_st : list (Z * string) :=
  [(196, "RSP_COMMAND"); (32768, "NULL"); (32769, "NO_SESSIONS"); (32770, "SESSIONS"); (32788, "ATTEST_NV");
   (32789, "ATTEST_COMMAND_AUDIT"); (32790, "ATTEST_SESSION_AUDIT"); (32791, "ATTEST_CERTIFY"); (32792, "ATTEST_QUOTE");
   (32793, "ATTEST_TIME"); (32794, "ATTEST_CREATION"); (32801, "CREATION"); (32802, "VERIFIED"); (32803, "AUTH_SECRET");
   (32804, "HASHCHECK"); (32805, "AUTH_SIGNED"); (32809, "FU_MANIFEST")]%string.

Definition tcg_alg : list (Z * string) :=
  [(0, "ERROR"); (1, "RSA"); (4, "SHA1"); (5, "HMAC"); (6, "AES"); (7, "MGF1"); (8, "KEYEDHASH"); (10, "XOR"); (11, "SHA256");
   (12, "SHA384"); (13, "SHA512"); (16, "NULL"); (18, "SM3_256"); (19, "SM4"); (20, "RSASSA"); (21, "RSAES"); (22, "RSAPSS");
   (23, "OAEP"); (24, "ECDSA"); (25, "ECDH"); (26, "ECDAA"); (27, "SM2"); (28, "ECSCHNORR"); (29, "ECMQV");
   (32, "KDF1_SP800_56A"); (33, "KDF2"); (34, "KDF1_SP800_108"); (35, "ECC"); (37, "SYMCIPHER"); (38, "CAMELLIA");
   (64, "CTR"); (65, "OFB"); (66, "CBC"); (67, "CFB"); (68, "ECB")]%string.

Definition tcg_curve : list (Z * string) :=
  [(0, "NONE"); (1, "NIST_P192"); (2, "NIST_P224"); (3, "NIST_P256"); (4, "NIST_P384"); (5, "NIST_P521");
   (16, "BN_P256"); (17, "BN_P638"); (32, "SM2_P256")]%string.

(* TCG TPM Vendor ID Registry, Family 1.2 and 2.0, Version 1.07 (hex spelt as in the registry) *)
Definition tcg_vendor_registry : list string :=
  ["id:414D4400"; "id:414E5400"; "id:41544D4C"; "id:4252434D"; "id:4353434F"; "id:464C5953"; "id:524F4343"; "id:474F4F47";
   "id:48504900"; "id:48504500"; "id:48495349"; "id:49424D00"; "id:49465800"; "id:494E5443"; "id:4C454E00"; "id:4D534654";
   "id:4E534D20"; "id:4E545A00"; "id:4E534700"; "id:4E544300"; "id:51434F4D"; "id:534D534E"; "id:53454345"; "id:534E5300";
   "id:534D5343"; "id:53544D20"; "id:54584E00"; "id:57454300"; "id:5345414C"]%string.

(* the TPM object-attribute bits the library reports (TPMA_OBJECT, Part 2 8.3) *)
Definition tpma_object_bits : list (string * Z) :=
  [("fixed_tpm", 1); ("st_clear", 2); ("fixed_parent", 4); ("sensitive_data_origin", 5); ("user_with_auth", 6);
   ("admin_with_policy", 7); ("no_da", 10); ("encrypted_duplication", 11); ("restricted", 16); ("decrypt", 17);
   ("sign_or_encrypt", 18)]%string.
