(* Spec: the COSE algorithm -> signature scheme table, written from the property text (C09),
   independently of the code. *)
From Coq Require Import ZArith List Bool.
From PW Require Import Model.Base Model.SigTypes.
Import ListNotations.
Open Scope Z_scope.

Definition spec_scheme (k : key_kind) (alg : Z) : option scheme :=
  match k with
  | KEC => if alg =? -7 then Some (ECDSA SHA256) else if alg =? -36 then Some (ECDSA SHA512) else None
  | KRSA =>
      if alg =? -257 then Some (PKCS1 SHA256) else if alg =? -258 then Some (PKCS1 SHA384)
      else if alg =? -259 then Some (PKCS1 SHA512) else if alg =? -65535 then Some (PKCS1 SHA1)
      else if alg =? -37 then Some (PSS SHA256) else if alg =? -38 then Some (PSS SHA384)
      else if alg =? -39 then Some (PSS SHA512) else None
  | KED => if alg =? -8 then Some ED25519 else None
  | KOTHER => None
  end.

(* the algorithm ids to which the spec assigns a scheme, per key kind *)
Definition spec_algs (k : key_kind) : list Z :=
  match k with
  | KEC => [-7; -36]
  | KRSA => [-257; -258; -259; -65535; -37; -38; -39]
  | KED => [-8]
  | KOTHER => []
  end.

(* registered COSE algorithm ids named by C05 / C15 *)
Definition spec_default_algs : list Z := [-7; -8; -36; -37; -38; -39; -257; -258; -259].
