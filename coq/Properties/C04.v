From Coq Require Import ZArith List Bool.
From PW Require Import Model.Base Model.Formats.
Theorem C04_placeholder : True. Proof. exact I. Qed.
Print Assumptions C04_placeholder.
