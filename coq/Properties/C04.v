(* C04 — Trust anchors are enforced for attestation certificate chains. *)
From Coq Require Import ZArith List Bool String.
From PW Require Import Model.Base Model.Utf8 Model.Cbor Model.AuthData Model.Oracles Model.Formats Model.VerifyReg
  Generated.Constants Spec.FormatSpec Spec.ChainSpec Proofs.ChainProofs.
Import ListNotations.
Open Scope Z_scope.

(* anchors in force for a format = RP roots configured for THAT format ++ the built-in roots of that format *)
(* with anchors in force, an accepted chain was handed to the validator at the clock of the call, is non-empty,
   and the validator (OpenSSL: oracle) said yes *)
Theorem C04_validator_consulted : forall O now x5c roots, roots <> [] -> validate_chain O now x5c roots = Ok tt ->
  x5c <> [] /\ o_chain O now x5c roots = ChainOk.
Proof. exact validate_chain_anchored. Qed.
Print Assumptions C04_validator_consulted.

(* documented pass-through: with no anchors in force the chain is not checked *)
Theorem C04_passthrough : forall O now x5c, validate_chain O now x5c [] = Ok tt.
Proof. exact validate_chain_passthrough. Qed.
Print Assumptions C04_passthrough.

(* per format: which chain is validated against which anchors *)
Theorem C04_packed : forall O P st adr cdj ad att,
  verify_statement O P (s2l "packed") st adr cdj ad att = Ok tt -> unset (st_x5c st) = false ->
  exists x5c, x5c_list (fld (st_x5c st)) = Ok x5c /\ validate_chain O (rp_now P) x5c (anchors_in_force P (s2l "packed")) = Ok tt.
Proof. exact packed_chain_checked. Qed.
Print Assumptions C04_packed.
Theorem C04_tpm : forall O P st adr cdj ad att, verify_statement O P (s2l "tpm") st adr cdj ad att = Ok tt ->
  exists x5c, x5c_list (fld (st_x5c st)) = Ok x5c /\ validate_chain O (rp_now P) x5c (anchors_in_force P (s2l "tpm")) = Ok tt.
Proof. exact tpm_chain_checked. Qed.
Print Assumptions C04_tpm.
Theorem C04_fido_u2f : forall O P st adr cdj ad att, verify_statement O P (s2l "fido-u2f") st adr cdj ad att = Ok tt ->
  exists der, x5c_list (fld (st_x5c st)) = Ok [der] /\ validate_chain O (rp_now P) [der] (anchors_in_force P (s2l "fido-u2f")) = Ok tt.
Proof. exact u2f_chain_checked. Qed.
Print Assumptions C04_fido_u2f.
Theorem C04_apple : forall O P st adr cdj ad att, verify_statement O P (s2l "apple") st adr cdj ad att = Ok tt ->
  exists x5c, x5c_list (fld (st_x5c st)) = Ok x5c /\ validate_chain O (rp_now P) x5c (anchors_in_force P (s2l "apple")) = Ok tt.
Proof. exact apple_chain_checked. Qed.
Print Assumptions C04_apple.
Theorem C04_android_safetynet : forall O P st adr cdj ad att, verify_statement O P (s2l "android-safetynet") st adr cdj ad att = Ok tt ->
  exists x5c, x5c <> [] /\ validate_chain O (rp_now P) x5c (anchors_in_force P (s2l "android-safetynet")) = Ok tt.
Proof. exact safetynet_chain_checked. Qed.
Print Assumptions C04_android_safetynet.
(* android-key: the chain x5c[:-1] is validated against x5c[-1], and that root must be (byte-)equal to an anchor in force *)
Theorem C04_android_key : forall O P st adr cdj ad att, verify_statement O P (s2l "android-key") st adr cdj ad att = Ok tt ->
  exists x5c rootc, x5c_list (fld (st_x5c st)) = Ok x5c /\ load_cert O (last_bytes x5c) = Ok rootc /\
    validate_chain O (rp_now P) (removelast x5c) [c_pem rootc] = Ok tt /\ In (c_pem rootc) (anchors_in_force P (s2l "android-key")).
Proof. exact android_key_root_known. Qed.
Print Assumptions C04_android_key.

(* roots supplied for one format are never used for another: the verdict depends on the roots mapping only
   through the entry of the response's own format *)
Theorem C04_isolation : forall O P P' fmt st adr cdj ad att,
  roots_for (rp_roots P) fmt = roots_for (rp_roots P') fmt ->
  rp_builtin_apple P = rp_builtin_apple P' -> rp_builtin_android_key P = rp_builtin_android_key P' ->
  rp_builtin_safetynet P = rp_builtin_safetynet P' -> rp_now P = rp_now P' ->
  verify_statement O P fmt st adr cdj ad att = verify_statement O P' fmt st adr cdj ad att.
Proof. exact statement_isolation. Qed.
Print Assumptions C04_isolation.
Theorem C04_other_format_entries_ignored : forall k v l fmt kb, utf8_encode k = Some kb -> kb <> fmt ->
  roots_for ((k, v) :: l) fmt = roots_for l fmt.
Proof. exact roots_for_skip. Qed.
Print Assumptions C04_other_format_entries_ignored.

(* under the stated hypothesis that OpenSSL accepts only chains acceptable in the sense of Spec.ChainSpec
   (every certificate inside its validity period, each issued - name and signature - by the next, issuers CA-capable,
   ending in a configured anchor), an accepted chain with anchors in force is such a chain *)
Theorem C04_valid_path_under_openssl_spec : forall O view_der view_pem,
  (forall now x5c roots, o_chain O now x5c roots = ChainOk ->
     exists xs rs, views view_der x5c = Some xs /\ views view_pem roots = Some rs /\ ChainAcceptable now xs rs) ->
  forall now x5c roots, roots <> [] -> validate_chain O now x5c roots = Ok tt ->
  exists xs rs, views view_der x5c = Some xs /\ views view_pem roots = Some rs /\ ChainAcceptable now xs rs.
Proof. exact anchored_chain_is_valid_path. Qed.
Print Assumptions C04_valid_path_under_openssl_spec.

(* the built-in anchors of the code are the genuine ones (ids = first 8 bytes of SHA-256 of the PEM constants, regenerated) *)
Theorem C04_builtin_anchor_ids :
  builtin_roots_apple = [13144670451880268595] /\
  builtin_roots_android_key = [15779911978602591513; 10626200631456487863; 14276665956202281360; 2720424354486300475] /\
  builtin_roots_safetynet = [12569499210198843918; 16098262113507081481].
Proof. vm_compute. repeat split. Qed.
Print Assumptions C04_builtin_anchor_ids.

(* ---- the path notion is decidable by an executable search (run against OpenSSL's verdict on every chain the
   check explores); the fuel bound (presented intermediates + 2) is sufficient: repeated certificates can be cut
   out of any path ---- *)
From PW Require Import Proofs.PathProofs.
Theorem C04_path_search_decides_the_spec : forall now x5c anchors,
  chain_acceptable_b now x5c anchors = true <-> ChainAcceptable now x5c anchors.
Proof. exact chain_acceptable_b_spec. Qed.
Print Assumptions C04_path_search_decides_the_spec.

(* what the property lists as rejected, read off the spec: a chain whose leaf is not in its validity period, or
   with no presented/anchor certificate that issued it (name + signature + CA), is not acceptable *)
Theorem C04_spec_rejects : forall now leaf inter anchors,
  (~ in_validity now leaf) \/
  (~ In leaf anchors /\ forall p, In p (inter ++ anchors) -> ~ issued_by leaf p) ->
  ~ ChainAcceptable now (leaf :: inter) anchors.
Proof. exact spec_rejects. Qed.
Print Assumptions C04_spec_rejects.
