(* C18 — Stateless API: no history, aliasing or thread interference. *)
From Coq Require Import ZArith List Bool.
From PW Require Import Model.Base Model.Oracles Model.CredJson Model.VerifyAuth Model.VerifyReg Model.Heap Proofs.HeapProofs.
Import ListNotations.
Open Scope nat_scope.

(* verification never modifies the lists it was passed: every object that existed before the call is unchanged
   (the root list handed to format verifiers, to which they append the built-in roots, is a fresh object) *)
Theorem C18_frame : forall h caller builtin a, a < length h ->
  h_get (fst (verify_roots h caller builtin)) a = h_get h a.
Proof. exact verify_roots_frame. Qed.
Print Assumptions C18_frame.

Theorem C18_anchor_list_contents : forall h caller builtin,
  match caller with Some c => c < length h | None => True end ->
  h_get (fst (verify_roots h caller builtin)) (snd (verify_roots h caller builtin)) =
    match caller with Some c => h_get h c | None => [] end ++ builtin /\
  snd (verify_roots h caller builtin) = length h.
Proof. exact verify_roots_contents. Qed.
Print Assumptions C18_anchor_list_contents.

(* for EVERY history of generate calls and in-place mutations of the objects handed back earlier, every call
   without an algorithm list returns exactly the default parameters (induction over the history) *)
Theorem C18_history_free : forall params algs ops,
  Forall (fun out => out = algs) (s_outputs (fold_left step ops (init params algs))).
Proof. exact history_free. Qed.
Print Assumptions C18_history_free.

(* the verifiers of the model are functions: the outcome of a call is determined by its arguments, oracles and clock -
   stated so that it cannot silently change: equal arguments give equal outcomes at any point of any history *)
Theorem C18_verifiers_are_functions : forall O P c O' P' c', O = O' -> P = P' -> c = c' ->
  verify_auth O P c = verify_auth O' P' c'.
Proof. intros; subst; reflexivity. Qed.
Print Assumptions C18_verifiers_are_functions.

(* the repaired defect, as a refutation of history-freedom for the aliasing variant: [generate; clear result; generate] *)
Theorem C18_aliasing_refuted :
  s_outputs (fold_left step_aliasing [OGen; OMutate 0 []; OGen] (init [7; 8]%Z [7; 8]%Z)) = [[7; 8]%Z; []].
Proof. exact aliasing_is_history_dependent. Qed.
Print Assumptions C18_aliasing_refuted.
