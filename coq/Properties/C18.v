From Coq Require Import ZArith List Bool.
From PW Require Import Model.Base.
Theorem C18_placeholder : True. Proof. exact I. Qed.
Print Assumptions C18_placeholder.
