From Coq Require Import ZArith List Bool.
From PW Require Import Model.Base Model.Tpm.
Theorem C12_placeholder : True. Proof. exact I. Qed.
Print Assumptions C12_placeholder.
