(* C12 — TPM attestation structures are decoded field-for-field. *)
From Coq Require Import ZArith List Bool String.
From PW Require Import Model.Base Model.Cbor Model.Tpm Generated.Constants Spec.TpmSpec Proofs.TpmProofs.
Import ListNotations.
Open Scope Z_scope.

(* the identifier tables the code uses (regenerated every run) ARE the TCG tables, keyed by 2-byte ids, injective *)
Theorem C12_tables :
  (norm tpm_st_map = tcg_st /\ all_two_bytes tpm_st_map = true) /\
  (norm tpm_alg_map = tcg_alg /\ all_two_bytes tpm_alg_map = true) /\
  (norm tpm_ecc_curve_map = tcg_curve /\ all_two_bytes tpm_ecc_curve_map = true) /\
  nodupb (map fst tcg_st) = true /\ nodupb (map fst tcg_alg) = true /\ nodupb (map fst tcg_curve) = true.
Proof. exact (conj st_table_is_tcg (conj alg_table_is_tcg (conj curve_table_is_tcg tables_injective))). Qed.
Print Assumptions C12_tables.

(* every attribute bit, for ALL attribute words (bit lemma, not a sweep) *)
Theorem C12_attribute_bits : forall a k, 0 <= k -> attr_bit a k = Z.testbit a k.
Proof. exact attr_bit_is_testbit. Qed.
Print Assumptions C12_attribute_bits.
Theorem C12_attribute_positions : attr_positions = map snd tpma_object_bits.
Proof. exact attr_positions_are_spec. Qed.
Print Assumptions C12_attribute_positions.

(* TPMS_ATTEST: every field value, every 2-byte-prefixed length 0..65535, every known structure tag and name algorithm:
   exactly the encoded fields for 'certify', InvalidTPMCertInfoStructure for every other known tag *)
Theorem C12_cert_info : forall magic typ qs ed clock reset restart safe fw alg nm_rest qn tyname algname,
  len magic = 4 -> len clock = 8 -> len fw = 8 ->
  len qs < 65536 -> len ed < 65536 -> 2 + len nm_rest < 65536 -> len qn < 65536 ->
  0 <= reset < 2 ^ 32 -> 0 <= restart < 2 ^ 32 ->
  In (typ, tyname) tcg_st -> In (alg, algname) tcg_alg ->
  let name := be_bytes 2 alg ++ nm_rest in
  parse_cert_info (tpms_attest magic typ qs ed clock reset restart safe fw name qn) =
    if String.eqb tyname "ATTEST_CERTIFY" then
      Ok {| ci_magic := magic; ci_type := tyname; ci_qualified_signer := qs; ci_extra_data := ed;
            ci_clock := {| ck_clock := clock; ck_reset := reset; ck_restart := restart; ck_safe := negb (safe =? 0) |};
            ci_firmware := fw; ci_name_alg := algname; ci_name_alg_bytes := be_bytes 2 alg; ci_name := name;
            ci_qualified_name := qn |}
    else Err (Lib InvalidTPMCertInfoStructure).
Proof. exact parse_cert_info_exact. Qed.
Print Assumptions C12_cert_info.

Theorem C12_pub_area_rsa : forall name_alg attrs ap sym scheme key_bits exponent unique nalg symname schname,
  0 <= attrs < 2 ^ 32 -> len ap < 65536 -> len key_bits = 2 -> len exponent = 4 -> len unique < 65536 ->
  In (name_alg, nalg) tcg_alg -> In (sym, symname) tcg_alg -> In (scheme, schname) tcg_alg ->
  parse_pub_area (tpmt_public_rsa name_alg attrs ap sym scheme key_bits exponent unique) =
    Ok {| pa_type := "RSA"; pa_name_alg := nalg; pa_attrs := attrs; pa_auth_policy := ap;
          pa_params := RSAParams symname schname key_bits exponent; pa_unique := unique |}.
Proof. exact parse_pub_area_rsa_exact. Qed.
Print Assumptions C12_pub_area_rsa.

Theorem C12_pub_area_ecc : forall name_alg attrs ap sym scheme curve kdf x y nalg symname schname crvname kdfname,
  0 <= attrs < 2 ^ 32 -> len ap < 65536 -> len x < 65536 -> len y < 65536 ->
  In (name_alg, nalg) tcg_alg -> In (sym, symname) tcg_alg -> In (scheme, schname) tcg_alg ->
  In (curve, crvname) tcg_curve -> In (kdf, kdfname) tcg_alg ->
  parse_pub_area (tpmt_public_ecc name_alg attrs ap sym scheme curve kdf x y) =
    Ok {| pa_type := "ECC"; pa_name_alg := nalg; pa_attrs := attrs; pa_auth_policy := ap;
          pa_params := ECCParams symname schname crvname kdfname; pa_unique := x ++ y |}.
Proof. exact parse_pub_area_ecc_exact. Qed.
Print Assumptions C12_pub_area_ecc.

Example C12_nonvacuous :
  In (32791, "ATTEST_CERTIFY"%string) tcg_st /\ In (32792, "ATTEST_QUOTE"%string) tcg_st /\ In (11, "SHA256"%string) tcg_alg /\
  In (3, "NIST_P256"%string) tcg_curve.
Proof. cbn. tauto. Qed.
