(* C20 — Loosening RP policy never rejects; credential input form is irrelevant. (authentication part; registration added below) *)
From Coq Require Import ZArith List Bool.
From PW Require Import Model.Base Model.Json Model.Oracles Model.ClientData Model.CredJson Model.VerifyAuth Spec.AuthSpec Proofs.AuthProofs.
Import ListNotations.
Open Scope Z_scope.

(* for ALL inputs (valid or not), all oracles: accepted under P => accepted with the SAME result under any looser P' *)
Theorem C20_mono_auth : forall O P P' c r, auth_looser P P' ->
  verify_auth O P c = Ok r -> verify_auth O P' c = Ok r.
Proof. exact auth_monotone_any_form. Qed.
Print Assumptions C20_mono_auth.

Theorem C20_origin_single_to_list : forall s, origin_looser (OSingle s) (OMany [s]).
Proof. exact origin_single_many. Qed.
Print Assumptions C20_origin_single_to_list.

Theorem C20_origin_superset : forall l l', incl l l' -> origin_looser (OMany l) (OMany l').
Proof. exact origin_many_incl. Qed.
Print Assumptions C20_origin_superset.

Theorem C20_forms_auth_text_dict : forall O P s j, o_json_loads O true s = JOk j ->
  verify_auth O P (InText s) = verify_auth O P (InDict j).
Proof. exact auth_forms_text_dict. Qed.
Print Assumptions C20_forms_auth_text_dict.

Theorem C20_forms_auth_dict_record : forall O P j rec, parse_auth_cred_json O (inr j) = Ok rec ->
  verify_auth O P (InDict j) = verify_auth O P (InRec rec).
Proof. exact auth_forms_dict_rec. Qed.
Print Assumptions C20_forms_auth_dict_record.

(* registration *)
From PW Require Import Model.VerifyReg Spec.RegSpec Proofs.RegProofs.
Theorem C20_mono_reg : forall O P P' c r, reg_looser P P' ->
  verify_reg O P c = Ok r -> verify_reg O P' c = Ok r.
Proof. exact reg_monotone_any_form. Qed.
Print Assumptions C20_mono_reg.

Theorem C20_forms_reg_text_dict : forall O P s j, o_json_loads O true s = JOk j ->
  verify_reg O P (InText s) = verify_reg O P (InDict j).
Proof. exact reg_forms_text_dict. Qed.
Print Assumptions C20_forms_reg_text_dict.

Theorem C20_forms_reg_dict_record : forall O P j rec, parse_reg_cred_json O (inr j) = Ok rec ->
  verify_reg O P (InDict j) = verify_reg O P (InRec rec).
Proof. exact reg_forms_dict_rec. Qed.
Print Assumptions C20_forms_reg_dict_record.

(* policies that denote the same expectations - each looser than the other: the same SET of allowed algorithms and of expected origins in any order and with any
   repetitions, the same switches - give the same OUTCOME (result or exception) on every credential, valid or not, in every input form *)
From PW Require Import Proofs.PolicyEquiv.
Theorem C20_equivalent_policies_reg : forall O P P' c, reg_looser P P' -> reg_looser P' P -> verify_reg O P c = verify_reg O P' c.
Proof. exact reg_policy_equiv. Qed.
Print Assumptions C20_equivalent_policies_reg.

Theorem C20_equivalent_policies_auth : forall O P P' c, auth_looser P P' -> auth_looser P' P -> verify_auth O P c = verify_auth O P' c.
Proof. exact auth_policy_equiv. Qed.
Print Assumptions C20_equivalent_policies_auth.

Theorem C20_algorithm_list_is_a_set : forall O P c l, (forall a, In a l <-> In a (rp_algs P)) ->
  verify_reg O P c =
  verify_reg O {| rp_challenge := rp_challenge P; rp_rp_id := rp_rp_id P; rp_origin := rp_origin P; rp_require_up := rp_require_up P; rp_require_uv := rp_require_uv P;
                  rp_algs := l; rp_roots := rp_roots P; rp_builtin_apple := rp_builtin_apple P; rp_builtin_android_key := rp_builtin_android_key P;
                  rp_builtin_safetynet := rp_builtin_safetynet P; rp_now := rp_now P |} c.
Proof. exact reg_algs_order_and_repeats. Qed.
Print Assumptions C20_algorithm_list_is_a_set.

Theorem C20_origin_list_is_a_set : forall O P c l l', ap_origin P = OMany l -> (forall s, In s l <-> In s l') ->
  verify_auth O P c =
  verify_auth O {| ap_challenge := ap_challenge P; ap_rp_id := ap_rp_id P; ap_origin := OMany l'; ap_pubkey := ap_pubkey P; ap_count := ap_count P; ap_require_uv := ap_require_uv P |} c.
Proof. exact auth_origins_order_and_repeats. Qed.
Print Assumptions C20_origin_list_is_a_set.
