(* C20 — Loosening RP policy never rejects; credential input form is irrelevant. (authentication part; registration added below) *)
From Coq Require Import ZArith List Bool.
From PW Require Import Model.Base Model.Json Model.Oracles Model.ClientData Model.CredJson Model.VerifyAuth Spec.AuthSpec Proofs.AuthProofs.
Import ListNotations.
Open Scope Z_scope.

(* for ALL inputs (valid or not), all oracles: accepted under P => accepted with the SAME result under any looser P' *)
Theorem C20_mono_auth : forall O P P' c r, auth_looser P P' ->
  verify_auth O P c = Ok r -> verify_auth O P' c = Ok r.
Proof. exact auth_monotone_any_form. Qed.
Print Assumptions C20_mono_auth.

Theorem C20_origin_single_to_list : forall s, origin_looser (OSingle s) (OMany [s]).
Proof. exact origin_single_many. Qed.
Print Assumptions C20_origin_single_to_list.

Theorem C20_origin_superset : forall l l', incl l l' -> origin_looser (OMany l) (OMany l').
Proof. exact origin_many_incl. Qed.
Print Assumptions C20_origin_superset.

Theorem C20_forms_auth_text_dict : forall O P s j, o_json_loads O true s = JOk j ->
  verify_auth O P (InText s) = verify_auth O P (InDict j).
Proof. exact auth_forms_text_dict. Qed.
Print Assumptions C20_forms_auth_text_dict.

Theorem C20_forms_auth_dict_record : forall O P j rec, parse_auth_cred_json O (inr j) = Ok rec ->
  verify_auth O P (InDict j) = verify_auth O P (InRec rec).
Proof. exact auth_forms_dict_rec. Qed.
Print Assumptions C20_forms_auth_dict_record.

(* registration *)
From PW Require Import Model.VerifyReg Spec.RegSpec Proofs.RegProofs.
Theorem C20_mono_reg : forall O P P' c r, reg_looser P P' ->
  verify_reg O P c = Ok r -> verify_reg O P' c = Ok r.
Proof. exact reg_monotone_any_form. Qed.
Print Assumptions C20_mono_reg.

Theorem C20_forms_reg_text_dict : forall O P s j, o_json_loads O true s = JOk j ->
  verify_reg O P (InText s) = verify_reg O P (InDict j).
Proof. exact reg_forms_text_dict. Qed.
Print Assumptions C20_forms_reg_text_dict.

Theorem C20_forms_reg_dict_record : forall O P j rec, parse_reg_cred_json O (inr j) = Ok rec ->
  verify_reg O P (InDict j) = verify_reg O P (InRec rec).
Proof. exact reg_forms_dict_rec. Qed.
Print Assumptions C20_forms_reg_dict_record.
