(* C07 — Signature-counter rule holds over every history. *)
From Coq Require Import ZArith List Bool.
From PW Require Import Model.Base Model.AuthData Model.Oracles Model.CredJson Model.VerifyAuth Proofs.AuthProofs.
Import ListNotations.
Open Scope Z_scope.

Theorem C07_counter_rule : forall s c, 0 <= s -> 0 <= c ->
  (counter_ok s c = true <-> (c > s \/ (c = 0 /\ s = 0))).
Proof. exact counter_rule. Qed.
Print Assumptions C07_counter_rule.

(* acceptance => the rule held for the stored counter, the reported counter is the 32-bit big-endian
   counter of the authenticator data (any input form; raw records must consist of bytes) *)
Theorem C07_accept : forall O P c r, cred_wf c -> verify_auth O P c = Ok r ->
  counter_ok (ap_count P) (va_new_count r) = true /\ 0 <= va_new_count r < 2 ^ 32.
Proof. exact auth_accept_counter. Qed.
Print Assumptions C07_accept.

Theorem C07_reported_is_c : forall O P c r, verify_auth_rec O P c = Ok r ->
  va_new_count r = be_int (slice 33 37 (acr_auth_data c)).
Proof.
  intros O P c r H. apply verify_auth_rec_sound in H.
  destruct H as [_ _ _ (ad & h & Had & _ & _ & _ & _ & _ & _ & ->) _].
  apply parse_auth_data_header in Had as (_ & _ & _ & Hc). exact Hc.
Qed.
Print Assumptions C07_reported_is_c.

(* every history, any length, any oracle: the stored counter never decreases *)
Theorem C07_monotone : forall O P h s, Forall cred_wf h -> nondecreasing s (run O P s h).
Proof. exact history_monotone. Qed.
Print Assumptions C07_monotone.

(* an assertion accepted with a non-zero counter is never accepted again once the RP has stored
   a value >= that counter (which C07_monotone guarantees for every later point of the history) *)
Theorem C07_no_replay : forall O P c r s s', cred_wf c ->
  verify_auth O (with_count P s) c = Ok r -> 0 < va_new_count r -> va_new_count r <= s' ->
  forall r', verify_auth O (with_count P s') c = Ok r' -> False.
Proof. exact no_replay. Qed.
Print Assumptions C07_no_replay.

Example C07_rule_nonvacuous :
  counter_ok 0 0 = true /\ counter_ok 5 6 = true /\ counter_ok 5 5 = false /\ counter_ok 5 0 = false
  /\ counter_ok 4294967294 4294967295 = true /\ counter_ok 4294967295 4294967295 = false.
Proof. vm_compute. repeat split. Qed.

(* non-vacuity on a real assertion: accepted at stored counter 76 with counter 77, refused once 77 is stored *)
From PW Require Import Proofs.Examples.
Example C07_nonvacuous :
  verify_auth ex_oracles ex_policy (InRec ex_cred) = Ok ex_result /\ va_new_count ex_result = 77 /\
  is_ok (verify_auth ex_oracles (with_count ex_policy 77) (InRec ex_cred)) = false.
Proof. split; [exact auth_example_accepted|split; [reflexivity|exact auth_example_replay_rejected]]. Qed.

(* the counter that counts is the SIGNED one: the members of the response that no signature covers (the attachment hint, the user handle) do not enter the verdict at all -
   for every oracle, policy and credential record, whatever they are replaced by (seeded change C07_18 made a counter regression acceptable when the attachment
   hint said "platform") *)
Definition with_unsigned_members (c : auth_cred) (uh : option bytes) (att : option pystr) : auth_cred :=
  {| acr_id := acr_id c; acr_raw_id := acr_raw_id c; acr_type := acr_type c; acr_client_data := acr_client_data c; acr_auth_data := acr_auth_data c;
     acr_signature := acr_signature c; acr_user_handle := uh; acr_attachment := att |}.
Theorem C07_unsigned_members_do_not_count : forall O P c uh att,
  verify_auth_rec O P (with_unsigned_members c uh att) = verify_auth_rec O P c.
Proof. intros. reflexivity. Qed.
Print Assumptions C07_unsigned_members_do_not_count.
(* ... in particular over histories: the stored counter evolves the same way *)
Theorem C07_unsigned_members_do_not_count_in_histories : forall O P s c uh att,
  rp_step O P s (InRec (with_unsigned_members c uh att)) = rp_step O P s (InRec c).
Proof. intros. reflexivity. Qed.
Print Assumptions C07_unsigned_members_do_not_count_in_histories.

(* ---- the replay half of the property, at the level of whole histories (added in round 11) ----
   `final O P s h` is the counter the RP has stored after presenting all of h from stored value s
   (it is the last element of the trace `run` above: HistoryProofs.final_last_run). *)
From PW Require Import Proofs.HistoryProofs.

(* for EVERY history h1 ++ c :: h2 ++ [c] (any length, anything in between, any oracle behaviour):
   if c was accepted with a non-zero counter at its first presentation, its later presentation is refused *)
Theorem C07_no_double_accept_in_histories : forall O P s h1 c h2 r,
  Forall cred_wf h1 -> cred_wf c -> Forall cred_wf h2 ->
  verify_auth O (with_count P (final O P s h1)) c = Ok r -> 0 < va_new_count r ->
  forall r', verify_auth O (with_count P (final O P s (h1 ++ c :: h2))) c = Ok r' -> False.
Proof. exact history_no_double_accept. Qed.
Print Assumptions C07_no_double_accept_in_histories.

(* ... hence a replay never advances the RP state *)
Theorem C07_replay_is_a_noop : forall O P s h1 c h2 r,
  Forall cred_wf h1 -> cred_wf c -> Forall cred_wf h2 ->
  verify_auth O (with_count P (final O P s h1)) c = Ok r -> 0 < va_new_count r ->
  final O P s (h1 ++ c :: h2 ++ [c]) = final O P s (h1 ++ c :: h2).
Proof. exact replay_is_a_noop. Qed.
Print Assumptions C07_replay_is_a_noop.

(* the stored counter stays a 32-bit value along every history *)
Theorem C07_stored_counter_range : forall O P h s, Forall cred_wf h -> 0 <= s < 2 ^ 32 ->
  0 <= final O P s h < 2 ^ 32.
Proof. exact final_range. Qed.
Print Assumptions C07_stored_counter_range.

Example C07_history_nonvacuous :
  final ex_oracles ex_policy 76 [InRec ex_cred] = 77 /\
  final ex_oracles ex_policy 76 [InRec ex_cred; InRec ex_cred] = 77 /\
  final ex_oracles ex_policy 80 [InRec ex_cred] = 80.
Proof. vm_compute. repeat split. Qed.

(* the counter is read big-endian from bytes 33..36 of the authenticator data: the positional
   weights written out (a little-endian or 16-bit reading falsifies this statement) *)
Theorem C07_counter_is_big_endian : forall v ad b0 b1 b2 b3, parse_auth_data v = Ok ad ->
  slice 33 37 v = [b0; b1; b2; b3] ->
  ad_count ad = b0 * 2 ^ 24 + b1 * 2 ^ 16 + b2 * 2 ^ 8 + b3.
Proof. exact counter_big_endian. Qed.
Print Assumptions C07_counter_is_big_endian.

Example C07_big_endian_nonvacuous :
  slice 33 37 (acr_auth_data ex_cred) = [0; 0; 0; 77] /\ is_ok (parse_auth_data (acr_auth_data ex_cred)) = true.
Proof. vm_compute. split; reflexivity. Qed.
