From Coq Require Import ZArith List Bool.
From PW Require Import Model.Base Model.Options.
Theorem C15_placeholder : True. Proof. exact I. Qed.
Print Assumptions C15_placeholder.
