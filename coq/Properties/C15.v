(* C15 — Generated options: fresh unpredictable challenges, caller values unchanged. *)
From Coq Require Import ZArith List Bool String.
From PW Require Import Model.Base Model.Options Generated.Constants Proofs.OptionsProofs.
Import ListNotations.
Open Scope Z_scope.

(* `draw i` is the i-th 64-byte value the OS random source yields (as secrets.token_bytes returns it); the generators
   are functions of (arguments, draw, position) ONLY - the state of the `random` module is not an input *)
Theorem C15_registration_options : forall draw a n o n', gen_reg draw a n = Ok (o, n') ->
  ra_rp_id a <> [] /\ ra_rp_name a <> [] /\ ra_user_name a <> [] /\
  co_rp_id o = Some (ra_rp_id a) /\ co_rp_name o = ra_rp_name a /\ co_user_name o = ra_user_name a /\
  co_timeout o = Some (ra_timeout a) /\ co_attestation o = Some (ra_attestation a) /\ co_hints o = ra_hints a /\
  co_display_name o = match opt_nonempty (ra_display_name a) with Some d => d | None => ra_user_name a end /\
  co_params o = match opt_nonempty (ra_algs a) with Some l => params_of l | None => params_of default_algs_generator end /\
  co_exclude o = Some (match opt_nonempty (ra_exclude a) with Some l => l | None => [] end) /\
  n' = (n + b2n (defaulted (ra_user_id a)) + b2n (defaulted (ra_challenge a)))%nat /\
  co_user_id o = match opt_nonempty (ra_user_id a) with Some u => u | None => draw n end /\
  co_challenge o = match opt_nonempty (ra_challenge a) with Some c => c | None => draw (n + b2n (defaulted (ra_user_id a)))%nat end /\
  co_auth_sel o = option_map fix_sel (ra_auth_sel a).
Proof. exact gen_reg_spec. Qed.
Print Assumptions C15_registration_options.

(* attachment / residentKey / userVerification unchanged; residentKey = required implies requireResidentKey = true *)
Theorem C15_resident_key_rule : forall s, let s' := fix_sel s in
  as_attachment s' = as_attachment s /\ as_resident_key s' = as_resident_key s /\ as_uv s' = as_uv s /\
  (as_resident_key s = Some (s2l "required") -> as_require_rk s' = Some true) /\
  (as_resident_key s <> Some (s2l "required") -> as_require_rk s' = as_require_rk s).
Proof. exact fix_sel_spec. Qed.
Print Assumptions C15_resident_key_rule.

Theorem C15_authentication_options : forall draw a n o n', gen_auth draw a n = Ok (o, n') ->
  aa_rp_id a <> [] /\ ro_rp_id o = Some (aa_rp_id a) /\ ro_timeout o = Some (aa_timeout a) /\ ro_uv o = Some (aa_uv a) /\
  ro_allow o = Some (match opt_nonempty (aa_allow a) with Some l => l | None => [] end) /\
  n' = (n + b2n (defaulted (aa_challenge a)))%nat /\
  ro_challenge o = match opt_nonempty (aa_challenge a) with Some c => c | None => draw n end.
Proof. exact gen_auth_spec. Qed.
Print Assumptions C15_authentication_options.

Theorem C15_refusals : forall draw,
  (forall a n, ra_rp_id a = [] \/ ra_rp_name a = [] \/ ra_user_name a = [] -> gen_reg draw a n = Err (Py ValueError)) /\
  (forall a n, aa_rp_id a = [] -> gen_auth draw a n = Err (Py ValueError)).
Proof. intros draw. split; [apply gen_reg_refuses|apply gen_auth_refuses]. Qed.
Print Assumptions C15_refusals.

(* every history of generator calls: the position on the OS source only moves forward, by exactly one draw per
   defaulted value of each accepted call (induction over the history) *)
Theorem C15_history_positions : forall draw h n, (n <= fold_left (step draw) h n)%nat.
Proof. exact history_positions. Qed.
Print Assumptions C15_history_positions.
Theorem C15_step_count : forall draw n c, step draw n c = (n + (if accepted draw n c then draws_of c else 0))%nat.
Proof. exact step_count. Qed.
Print Assumptions C15_step_count.

(* never repeat: when distinct positions of the OS source hold distinct values (premise), two defaulted challenges
   at different points of ANY history differ *)
Theorem C15_fresh : forall draw (h1 h2 : list call) (a b : auth_args) n o1 o2 m1 m2,
  (forall i j, draw i = draw j -> i = j) ->
  let p1 := fold_left (step draw) h1 n in
  let p2 := fold_left (step draw) h2 (step draw p1 (CAuth a)) in
  aa_challenge a = None -> aa_challenge b = None ->
  gen_auth draw a p1 = Ok (o1, m1) -> gen_auth draw b p2 = Ok (o2, m2) -> ro_challenge o1 <> ro_challenge o2.
Proof. exact fresh_challenges. Qed.
Print Assumptions C15_fresh.

(* the algorithms offered by default are exactly those verification accepts by default (regenerated constants,
   incl. what a call with no algorithm list actually returns) *)
Theorem C15_default_algorithms :
  default_algs_generator = default_algs_verifier /\ map snd default_params_offered = default_algs_verifier /\
  default_params_generator = default_params_offered.
Proof. exact default_algs_agree. Qed.
Print Assumptions C15_default_algorithms.
