(* C17 — Time-limited evidence is judged against the clock at verification time. *)
From Coq Require Import ZArith List Bool.
From PW Require Import Model.Base Model.Oracles Model.Formats Proofs.TimeProofs.
Open Scope Z_scope.

(* T = verifier clock in ms; the code truncates it to whole seconds (now = T / 1000) *)
Theorem C17_window_exact : forall now ts,
  timestamp_ok now ts = true <-> now * 1000 - 10000 <= ts <= now * 1000 + 10000.
Proof. exact timestamp_window. Qed.
Print Assumptions C17_window_exact.

(* accepted only within ten seconds either way, with at most one second of slack from truncation *)
Theorem C17_accept_only_in_window : forall T ts, 0 <= T ->
  timestamp_ok (T / 1000) ts = true -> T - 11000 < ts <= T + 10000.
Proof. exact timestamp_accept_implies. Qed.
Print Assumptions C17_accept_only_in_window.

Theorem C17_inside_accepted : forall T ts, 0 <= T ->
  T - 10000 <= ts <= T + 9000 -> timestamp_ok (T / 1000) ts = true.
Proof. exact timestamp_inside_accepted. Qed.
Print Assumptions C17_inside_accepted.

Theorem C17_outside_rejected : forall T ts, 0 <= T ->
  ts <= T - 11000 \/ T + 10000 < ts -> timestamp_ok (T / 1000) ts = false.
Proof. exact timestamp_outside_rejected. Qed.
Print Assumptions C17_outside_rejected.

Theorem C17_chain_clock_per_call : forall O now x5c roots, roots <> nil -> x5c <> nil ->
  validate_chain O now x5c roots = Ok tt -> o_chain O now x5c roots = ChainOk.
Proof. exact validate_chain_uses_call_clock. Qed.
Print Assumptions C17_chain_clock_per_call.

(* ---- round 11: "the same response verified again after the clock has left the window is rejected" ---- *)
Theorem C17_accepted_then_expires : forall now ts, timestamp_ok now ts = true ->
  forall now', now + 21 <= now' -> timestamp_ok now' ts = false.
Proof. exact timestamp_expires. Qed.
Print Assumptions C17_accepted_then_expires.

Theorem C17_stays_expired : forall now ts, ts < now * 1000 - 10000 ->
  forall now', now <= now' -> timestamp_ok now' ts = false.
Proof. exact timestamp_stays_expired. Qed.
Print Assumptions C17_stays_expired.

(* the accepting clocks of one timestamp form a single interval spanning at most 20 s *)
Theorem C17_accepting_clocks_convex : forall n1 n2 n3 ts, n1 <= n2 <= n3 ->
  timestamp_ok n1 ts = true -> timestamp_ok n3 ts = true -> timestamp_ok n2 ts = true.
Proof. exact timestamp_clocks_convex. Qed.
Print Assumptions C17_accepting_clocks_convex.

Theorem C17_accepting_clocks_bounded : forall n1 n2 ts,
  timestamp_ok n1 ts = true -> timestamp_ok n2 ts = true -> Z.abs (n2 - n1) <= 20.
Proof. exact timestamp_clocks_bounded. Qed.
Print Assumptions C17_accepting_clocks_bounded.

Example C17_window_nonvacuous :
  timestamp_ok 1700000000 1700000005000 = true /\ timestamp_ok 1700000020 1700000005000 = false /\
  timestamp_ok 1699999995 1700000005000 = true /\ timestamp_ok 1699999994 1700000005000 = false.
Proof. vm_compute. repeat split. Qed.
