(* C14 — base64url codec is a faithful, canonical round trip.  Statements only. *)
From Coq Require Import ZArith List Bool String.
Open Scope string_scope.
From PW Require Import Model.Base Model.Base64 Proofs.Base64Proofs Proofs.Base64More.
Import ListNotations.
Open Scope Z_scope.
Open Scope list_scope.

(* decoding the encoding, followed by ANY number k of '=' characters, gives back b *)
Theorem C14_roundtrip : forall (b : bytes) (k : nat), bytes_ok b = true ->
  b64url_dec (b64url_enc b ++ repeat 61 k) = Ok b.
Proof. exact b64_roundtrip. Qed.
Print Assumptions C14_roundtrip.

(* only A-Z a-z 0-9 - _ and never '=' *)
Theorem C14_charset : forall b : bytes, bytes_ok b = true ->
  Forall (fun c => urlsafe_char c = true /\ c <> 61) (b64url_enc b).
Proof. exact b64_charset. Qed.
Print Assumptions C14_charset.

Theorem C14_injective : forall b1 b2 : bytes, bytes_ok b1 = true -> bytes_ok b2 = true ->
  b64url_enc b1 = b64url_enc b2 -> b1 = b2.
Proof. exact b64_injective. Qed.
Print Assumptions C14_injective.

(* the padding arithmetic of every length class: exactly ceil(4n/3) characters, hence never a
   length of 1 mod 4 (the one length class no byte string encodes to) *)
Theorem C14_length : forall b : bytes, len (b64url_enc b) = (4 * len b + 2) / 3.
Proof. exact b64_length. Qed.
Print Assumptions C14_length.

Theorem C14_length_class : forall b : bytes, (len (b64url_enc b)) mod 4 <> 1.
Proof. exact b64_length_mod4. Qed.
Print Assumptions C14_length_class.

(* whatever TEXT is handed to the decoder, a result is a byte string (no value outside 0..255) *)
Theorem C14_decoder_yields_bytes : forall (s : pystr) (b : bytes),
  b64url_dec s = Ok b -> bytes_ok b = true.
Proof. exact b64_dec_bytes. Qed.
Print Assumptions C14_decoder_yields_bytes.

(* Why "canonical" needs the ENCODER: the CPython decoder is lenient.  An ASCII character of
   neither alphabet (other than '=') is skipped wherever it stands, and '+' '/' decode as '-' '_',
   so decoding is many-to-one; the verifiers therefore compare `id` with the encoding of rawId
   (C14_injective), never the decodings. *)
Theorem C14_decoder_skips_foreign_characters : forall (l1 : pystr) (c : Z) (l2 : pystr),
  0 <= c < 128 -> dec_char c = None -> c <> 61 ->
  b64url_dec (l1 ++ c :: l2) = b64url_dec (l1 ++ l2).
Proof. exact b64_dec_skips_junk. Qed.
Print Assumptions C14_decoder_skips_foreign_characters.

Theorem C14_decoder_accepts_either_alphabet : forall s : pystr,
  b64url_dec (map to_std s) = b64url_dec s.
Proof. exact b64_dec_either_alphabet. Qed.
Print Assumptions C14_decoder_accepts_either_alphabet.

Example C14_decoder_many_to_one :
  b64url_dec (s2l "AP8Q_gM") = Ok [0; 255; 16; 254; 3] /\
  b64url_dec (s2l "AP8Q/gM") = Ok [0; 255; 16; 254; 3] /\
  b64url_dec (s2l "AP8Q!_g M") = Ok [0; 255; 16; 254; 3] /\
  dec_char 33 = None /\ dec_char 32 = None.
Proof. vm_compute. repeat split. Qed.

(* non-vacuity: a concrete non-trivial byte string meets the hypothesis and round-trips *)
Example C14_example :
  bytes_ok [0; 255; 16; 254; 3] = true /\
  b64url_enc [0; 255; 16; 254; 3] = s2l "AP8Q_gM" /\
  b64url_dec (s2l "AP8Q_gM=") = Ok [0; 255; 16; 254; 3].
Proof. vm_compute. repeat split. Qed.

(* ---- the anchor sites: `id` is compared with the ENCODING of rawId (round 11) ----
   For every oracle behaviour, policy and response record: acceptance implies that `id` is the one
   canonical text of rawId.  Together with the leniency theorems above this is a strict statement:
   an `id` that merely DECODES to rawId (a '/' for a '_', an inserted blank, '=' padding) is refused
   by both verifiers, whatever else the response carries. *)
From PW Require Import Model.Oracles Model.CredJson Model.VerifyAuth Model.VerifyReg
  Spec.AuthSpec Spec.RegSpec Proofs.AuthProofs Proofs.RegProofs.

Theorem C14_accepted_id_is_canonical_auth : forall O P c r,
  verify_auth_rec O P c = Ok r -> acr_id c = b64url_enc (acr_raw_id c).
Proof. intros O P c r H. apply verify_auth_rec_sound in H. exact (aa_id _ _ _ _ H). Qed.
Print Assumptions C14_accepted_id_is_canonical_auth.

Theorem C14_accepted_id_is_canonical_reg : forall O P c r,
  verify_reg_rec O P c = Ok r -> rcr_id c = b64url_enc (rcr_raw_id c).
Proof. intros O P c r H. apply verify_reg_rec_sound in H. exact (ra_id _ _ _ _ H). Qed.
Print Assumptions C14_accepted_id_is_canonical_reg.

Theorem C14_decodable_but_not_canonical_id_refused : forall O P c,
  b64url_dec (acr_id c) = Ok (acr_raw_id c) -> acr_id c <> b64url_enc (acr_raw_id c) ->
  exists e, verify_auth_rec O P c = Err e.
Proof.
  intros O P c _ Hne. destruct (verify_auth_rec O P c) as [r|e] eqn:E; [|eauto].
  exfalso. apply Hne. exact (C14_accepted_id_is_canonical_auth O P c r E).
Qed.
Print Assumptions C14_decodable_but_not_canonical_id_refused.

(* the premises of the last theorem are met by real texts: a padded and a '/'-spelled id *)
Example C14_noncanonical_ids_exist :
  let raw := [0; 255; 16; 254; 3] in
  b64url_dec (s2l "AP8Q_gM=") = Ok raw /\ s2l "AP8Q_gM=" <> b64url_enc raw /\
  b64url_dec (s2l "AP8Q/gM") = Ok raw /\ s2l "AP8Q/gM" <> b64url_enc raw.
Proof. vm_compute. repeat split; discriminate. Qed.

(* non-vacuity on the really signed example assertion: accepted as it is; with '=' appended to
   `id` (which still decodes to rawId) it is refused, everything else being equal *)
From PW Require Import Proofs.Examples.
Definition with_id (c : auth_cred) (i : pystr) : auth_cred :=
  {| acr_id := i; acr_raw_id := acr_raw_id c; acr_type := acr_type c; acr_client_data := acr_client_data c;
     acr_auth_data := acr_auth_data c; acr_signature := acr_signature c; acr_user_handle := acr_user_handle c;
     acr_attachment := acr_attachment c |}.
Example C14_anchor_nonvacuous :
  verify_auth_rec ex_oracles ex_policy ex_cred = Ok ex_result /\
  b64url_dec (acr_id ex_cred ++ [61]) = Ok (acr_raw_id ex_cred) /\
  is_ok (verify_auth_rec ex_oracles ex_policy (with_id ex_cred (acr_id ex_cred ++ [61]))) = false.
Proof. vm_compute. repeat split. Qed.
