(* C14 — base64url codec is a faithful, canonical round trip.  Statements only. *)
From Coq Require Import ZArith List Bool String.
Open Scope string_scope.
From PW Require Import Model.Base Model.Base64 Proofs.Base64Proofs Proofs.Base64More.
Import ListNotations.
Open Scope Z_scope.
Open Scope list_scope.

(* decoding the encoding, followed by ANY number k of '=' characters, gives back b *)
Theorem C14_roundtrip : forall (b : bytes) (k : nat), bytes_ok b = true ->
  b64url_dec (b64url_enc b ++ repeat 61 k) = Ok b.
Proof. exact b64_roundtrip. Qed.
Print Assumptions C14_roundtrip.

(* only A-Z a-z 0-9 - _ and never '=' *)
Theorem C14_charset : forall b : bytes, bytes_ok b = true ->
  Forall (fun c => urlsafe_char c = true /\ c <> 61) (b64url_enc b).
Proof. exact b64_charset. Qed.
Print Assumptions C14_charset.

Theorem C14_injective : forall b1 b2 : bytes, bytes_ok b1 = true -> bytes_ok b2 = true ->
  b64url_enc b1 = b64url_enc b2 -> b1 = b2.
Proof. exact b64_injective. Qed.
Print Assumptions C14_injective.

(* the padding arithmetic of every length class: exactly ceil(4n/3) characters, hence never a
   length of 1 mod 4 (the one length class no byte string encodes to) *)
Theorem C14_length : forall b : bytes, len (b64url_enc b) = (4 * len b + 2) / 3.
Proof. exact b64_length. Qed.
Print Assumptions C14_length.

Theorem C14_length_class : forall b : bytes, (len (b64url_enc b)) mod 4 <> 1.
Proof. exact b64_length_mod4. Qed.
Print Assumptions C14_length_class.

(* whatever TEXT is handed to the decoder, a result is a byte string (no value outside 0..255) *)
Theorem C14_decoder_yields_bytes : forall (s : pystr) (b : bytes),
  b64url_dec s = Ok b -> bytes_ok b = true.
Proof. exact b64_dec_bytes. Qed.
Print Assumptions C14_decoder_yields_bytes.

(* Why "canonical" needs the ENCODER: the CPython decoder is lenient.  An ASCII character of
   neither alphabet (other than '=') is skipped wherever it stands, and '+' '/' decode as '-' '_',
   so decoding is many-to-one; the verifiers therefore compare `id` with the encoding of rawId
   (C14_injective), never the decodings. *)
Theorem C14_decoder_skips_foreign_characters : forall (l1 : pystr) (c : Z) (l2 : pystr),
  0 <= c < 128 -> dec_char c = None -> c <> 61 ->
  b64url_dec (l1 ++ c :: l2) = b64url_dec (l1 ++ l2).
Proof. exact b64_dec_skips_junk. Qed.
Print Assumptions C14_decoder_skips_foreign_characters.

Theorem C14_decoder_accepts_either_alphabet : forall s : pystr,
  b64url_dec (map to_std s) = b64url_dec s.
Proof. exact b64_dec_either_alphabet. Qed.
Print Assumptions C14_decoder_accepts_either_alphabet.

Example C14_decoder_many_to_one :
  b64url_dec (s2l "AP8Q_gM") = Ok [0; 255; 16; 254; 3] /\
  b64url_dec (s2l "AP8Q/gM") = Ok [0; 255; 16; 254; 3] /\
  b64url_dec (s2l "AP8Q!_g M") = Ok [0; 255; 16; 254; 3] /\
  dec_char 33 = None /\ dec_char 32 = None.
Proof. vm_compute. repeat split. Qed.

(* non-vacuity: a concrete non-trivial byte string meets the hypothesis and round-trips *)
Example C14_example :
  bytes_ok [0; 255; 16; 254; 3] = true /\
  b64url_enc [0; 255; 16; 254; 3] = s2l "AP8Q_gM" /\
  b64url_dec (s2l "AP8Q_gM=") = Ok [0; 255; 16; 254; 3].
Proof. vm_compute. repeat split. Qed.
