(* C14 — base64url codec is a faithful, canonical round trip.  Statements only. *)
From Coq Require Import ZArith List Bool String.
Open Scope string_scope.
From PW Require Import Model.Base Model.Base64 Proofs.Base64Proofs.
Import ListNotations.
Open Scope Z_scope.
Open Scope list_scope.

(* decoding the encoding, followed by ANY number k of '=' characters, gives back b *)
Theorem C14_roundtrip : forall (b : bytes) (k : nat), bytes_ok b = true ->
  b64url_dec (b64url_enc b ++ repeat 61 k) = Ok b.
Proof. exact b64_roundtrip. Qed.
Print Assumptions C14_roundtrip.

(* only A-Z a-z 0-9 - _ and never '=' *)
Theorem C14_charset : forall b : bytes, bytes_ok b = true ->
  Forall (fun c => urlsafe_char c = true /\ c <> 61) (b64url_enc b).
Proof. exact b64_charset. Qed.
Print Assumptions C14_charset.

Theorem C14_injective : forall b1 b2 : bytes, bytes_ok b1 = true -> bytes_ok b2 = true ->
  b64url_enc b1 = b64url_enc b2 -> b1 = b2.
Proof. exact b64_injective. Qed.
Print Assumptions C14_injective.

(* non-vacuity: a concrete non-trivial byte string meets the hypothesis and round-trips *)
Example C14_example :
  bytes_ok [0; 255; 16; 254; 3] = true /\
  b64url_enc [0; 255; 16; 254; 3] = s2l "AP8Q_gM" /\
  b64url_dec (s2l "AP8Q_gM=") = Ok [0; 255; 16; 254; 3].
Proof. vm_compute. repeat split. Qed.
