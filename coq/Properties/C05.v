From Coq Require Import ZArith List Bool.
From PW Require Import Model.Base Model.VerifyReg.
Theorem C05_placeholder : True. Proof. exact I. Qed.
Print Assumptions C05_placeholder.
