(* C05 — Completeness and fidelity: conformant ceremonies accepted, reported exactly. *)
From Coq Require Import ZArith List Bool String.
From PW Require Import Model.Base Model.SigTypes Model.Cbor Model.AuthData Model.Oracles Model.CredJson Model.Cose Model.SigAlg Model.Tpm
  Model.Formats Model.VerifyAuth Model.VerifyReg Generated.Constants Spec.SigSpec Spec.AuthSpec Spec.RegSpec Spec.TpmSpec Spec.FormatSpec
  Proofs.AuthProofs Proofs.RegProofs Proofs.FormatProofs.
Import ListNotations.
Open Scope Z_scope.

(* fidelity: what registration reports is exactly what the authenticator data says *)
Theorem C05_fidelity_reg : forall O P c r, verify_reg_rec O P c = Ok r ->
  exists ao att fmt, parse_att_object (rcr_att_obj c) = Ok ao /\ ad_att (ao_auth_data ao) = Some att /\ ao_fmt ao = CText fmt /\
    vr_cred_id r = ac_cred_id att /\ vr_pubkey r = ac_pubkey att /\
    vr_count r = be_int (slice 33 37 (ao_auth_data_raw ao)) /\
    aaguid_to_string (ac_aaguid att) = Ok (vr_aaguid r) /\ vr_fmt r = fmt /\
    vr_att_obj r = rcr_att_obj c /\ vr_type r = public_key_s.
Proof. exact reg_fidelity. Qed.
Print Assumptions C05_fidelity_reg.

Theorem C05_fidelity_flags_reg : forall O P c r, verify_reg_rec O P c = Ok r ->
  exists ao, parse_att_object (rcr_att_obj c) = Ok ao /\
  let f := nth 32 (ao_auth_data_raw ao) 0 in
  (rp_require_up P = true -> flag f 0 = true) /\ (rp_require_uv P = true -> flag f 2 = true) /\
  flag f 6 = true /\ (flag f 4 = true -> flag f 3 = true) /\
  vr_uv r = flag f 2 /\ vr_multi_device r = flag f 3 /\ vr_backed_up r = flag f 4.
Proof. exact reg_flag_table. Qed.
Print Assumptions C05_fidelity_flags_reg.

Theorem C05_fidelity_auth : forall O P c r, verify_auth_rec O P c = Ok r ->
  va_cred_id r = acr_raw_id c /\ va_new_count r = be_int (slice 33 37 (acr_auth_data c)) /\
  let f := nth 32 (acr_auth_data c) 0 in va_uv r = flag f 2 /\ va_multi_device r = flag f 3 /\ va_backed_up r = flag f 4.
Proof.
  intros O P c r H. pose proof (auth_flag_table O P c r H) as (_ & _ & _ & A & B & C).
  apply verify_auth_rec_sound in H. destruct H as [_ _ _ (ad & h & Had & _ & _ & _ & _ & _ & _ & ->) _].
  apply parse_auth_data_header in Had as (_ & _ & _ & Hc). cbn in *. auto.
Qed.
Print Assumptions C05_fidelity_auth.

(* completeness: every ceremony meeting the declarative predicate IS accepted (authentication: for all
   algorithms, flags, counters, extensions, extra client-data members - whatever makes the predicate true) *)
Theorem C05_complete_auth : forall O P c r, AuthAccepted O P c r -> verify_auth_rec O P c = Ok r.
Proof. exact verify_auth_rec_complete. Qed.
Print Assumptions C05_complete_auth.

Theorem C05_complete_reg : forall O P c r, RegAccepted O P c r -> verify_reg_rec O P c = Ok r.
Proof. exact verify_reg_rec_complete. Qed.
Print Assumptions C05_complete_reg.

(* table obligations on the regenerated constants *)
Definition in_list_str (s : string) (l : list string) : bool := existsb (String.eqb s) l.
Theorem C05_tables :
  default_algs_generator = spec_default_algs /\ default_algs_verifier = spec_default_algs /\
  forallb (fun a => existsb (fun k => match spec_scheme k a with Some _ => true | None => false end) [KEC; KRSA; KED]) spec_default_algs = true /\
  forallb (fun v => in_list_str v tpm_manufacturers) tcg_vendor_registry = true.
Proof. vm_compute. repeat split. Qed.
Print Assumptions C05_tables.

(* completeness from first principles, per format: ANY statement meeting the declared rules of its format
   (Spec/FormatSpec.v: packed basic/self, fido-u2f, tpm incl. the AIK profile, apple, android-key,
   android-safetynet, and the empty statement of `none`) is accepted by the dispatch *)
From PW Require Import Proofs.FormatComplete.
Theorem C05_complete_statement : forall O P fmt st adr cdj ad att,
  StatementRules O P fmt st adr cdj ad att -> verify_statement O P fmt st adr cdj ad att = Ok tt.
Proof. intros O P fmt st adr cdj ad att H. apply verify_statement_iff, H. Qed.
Print Assumptions C05_complete_statement.
