(* C01 — Authentication soundness: only the expected, correctly signed assertion passes. *)
From Coq Require Import ZArith List Bool.
From PW Require Import Model.Base Model.SigTypes Model.Json Model.Base64 Model.Cbor Model.AuthData
  Model.Oracles Model.ClientData Model.CredJson Model.Cose Model.SigAlg Model.VerifyAuth
  Generated.Constants Spec.SigSpec Spec.AuthSpec Proofs.AuthProofs.
Import ListNotations.
Open Scope Z_scope.

(* For EVERY oracle behaviour (no cryptographic hypothesis), every policy and every credential record:
   acceptance is EQUIVALENT to the declarative predicate Spec.AuthSpec.AuthAccepted, whose conjuncts are
   the property's: id = base64url(rawId), type, client data type webauthn.get, challenge equality, origin
   equality/membership, SHA-256(rp id) prefix, UP, UV-if-required, counter rule, and a signature that
   verifies over authData || SHA-256(clientDataJSON) under the RP-supplied key with the scheme that key's
   declared algorithm denotes in the property's table. *)
Theorem C01_auth_sound : forall O P c r, verify_auth_rec O P c = Ok r -> AuthAccepted O P c r.
Proof. exact verify_auth_rec_sound. Qed.
Print Assumptions C01_auth_sound.

Theorem C01_auth_characterised : forall O P c r, verify_auth_rec O P c = Ok r <-> AuthAccepted O P c r.
Proof. exact verify_auth_rec_iff. Qed.
Print Assumptions C01_auth_characterised.

(* JSON text / dict inputs are accepted only through the parsed record *)
Theorem C01_auth_any_form : forall O P c r, verify_auth O P c = Ok r ->
  exists rec, AuthAccepted O P rec r /\
    match c with
    | InText s => parse_auth_cred_json O (inl s) = Ok rec
    | InDict j => parse_auth_cred_json O (inr j) = Ok rec
    | InRec r0 => rec = r0
    end.
Proof.
  intros O P c r H. destruct (verify_auth_via_rec O P c r H) as (rec & A & B).
  exists rec. split; [apply verify_auth_rec_sound; exact A|exact B].
Qed.
Print Assumptions C01_auth_any_form.

(* "a response violating any one of these is rejected": the contrapositive, for any deviation at all *)
Theorem C01_any_deviation_rejected : forall O P c, (forall r, ~ AuthAccepted O P c r) ->
  exists e, verify_auth_rec O P c = Err e.
Proof.
  intros O P c H. destruct (verify_auth_rec O P c) as [r|e] eqn:E; [|eauto].
  exfalso. apply (H r). apply verify_auth_rec_sound. exact E.
Qed.
Print Assumptions C01_any_deviation_rejected.

(* non-vacuity: a concrete, really signed ES256 assertion (oracle answers inlined) is accepted by kernel evaluation
   and meets AuthAccepted; with another challenge it is rejected *)
From PW Require Import Proofs.Examples.
Example C01_nonvacuous : AuthAccepted ex_oracles ex_policy ex_cred ex_result.
Proof. exact auth_example_meets_the_spec. Qed.
Example C01_nonvacuous_rejection : exists e, verify_auth ex_oracles
  {| ap_challenge := Z.lxor (hd 0 (ap_challenge ex_policy)) 1 :: tl (ap_challenge ex_policy); ap_rp_id := ap_rp_id ex_policy;
     ap_origin := ap_origin ex_policy; ap_pubkey := ap_pubkey ex_policy; ap_count := ap_count ex_policy; ap_require_uv := true |}
  (InRec ex_cred) = Err e.
Proof. eexists. vm_compute. reflexivity. Qed.
