From Coq Require Import ZArith List Bool.
From PW Require Import Model.Base Model.VerifyAuth.
Theorem C06_placeholder : True. Proof. exact I. Qed.
Print Assumptions C06_placeholder.
