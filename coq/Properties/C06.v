(* C06 — Integrity of signed material: no single-bit change survives. *)
From Coq Require Import ZArith List Bool.
From PW Require Import Model.Base Model.SigTypes Model.Oracles Model.CredJson Model.VerifyAuth Model.Formats
  Spec.FormatSpec Proofs.TamperProofs Proofs.FormatProofs Proofs.Examples Proofs.DegenerateKey.
Import ListNotations.
Open Scope Z_scope.

(* no hypothesis: the whole raw authenticator data, the hash of the whole raw client data and the whole signature reach the verifier *)
Theorem C06_whole_bytes_signed : forall O P c r, verify_auth_rec O P c = Ok r ->
  exists pk sch, o_verify O pk sch (acr_signature c) (acr_auth_data c ++ sha256 O (acr_client_data c)) = true.
Proof. exact whole_bytes_reach_the_verifier. Qed.
Print Assumptions C06_whole_bytes_signed.

(* under the stated cryptographic premises (one message per signature, no second signature of the same length,
   SHA-256 collision-free, fixed digest length): ANY change - hence any single-bit change - of the authenticator
   data, of the client data JSON, or of the signature of an accepted assertion is rejected *)
Theorem C06_tamper_auth_data : forall O,
  (forall k sch s m m', o_verify O k sch s m = true -> o_verify O k sch s m' = true -> m = m') ->
  forall P c c' r, verify_auth_rec O P c = Ok r ->
  acr_signature c' = acr_signature c -> acr_client_data c' = acr_client_data c -> acr_auth_data c' <> acr_auth_data c ->
  forall r', verify_auth_rec O P c' = Ok r' -> False.
Proof. exact tamper_auth_data. Qed.
Print Assumptions C06_tamper_auth_data.

(* the premise is needed (finding F12, DESIGN.md section 4): with a verification oracle that ignores the message for one key and one signature - what an Ed25519 public
   key of small order does to RFC 8032 verification - an accepted assertion stays accepted with a bit of its authenticator data changed.  The unconditional statement of
   C06 is false of the faithful model; the witness replayed on the implementation is the KNOWN-FINDING the C06 check reproduces on every run. *)
Theorem C06_unconditional_refuted : exists O P c c' r r',
  verify_auth_rec O P c = Ok r /\ verify_auth_rec O P c' = Ok r' /\
  acr_signature c' = acr_signature c /\ acr_client_data c' = acr_client_data c /\ acr_auth_data c' <> acr_auth_data c /\
  length (acr_auth_data c') = length (acr_auth_data c).
Proof. exact tamper_unconditional_refuted. Qed.
Print Assumptions C06_unconditional_refuted.

Theorem C06_degenerate_key_breaks_the_premise :
  ~ (forall k sch s m m', o_verify dk_oracles k sch s m = true -> o_verify dk_oracles k sch s m' = true -> m = m').
Proof. exact dk_oracle_breaks_the_premise. Qed.
Print Assumptions C06_degenerate_key_breaks_the_premise.

Theorem C06_tamper_client_data : forall O,
  (forall k sch s m m', o_verify O k sch s m = true -> o_verify O k sch s m' = true -> m = m') ->
  (forall a b, sha256 O a = sha256 O b -> a = b) -> (forall a b, length (sha256 O a) = length (sha256 O b)) ->
  forall P c c' r, verify_auth_rec O P c = Ok r ->
  acr_signature c' = acr_signature c -> acr_auth_data c' = acr_auth_data c -> acr_client_data c' <> acr_client_data c ->
  forall r', verify_auth_rec O P c' = Ok r' -> False.
Proof. exact tamper_client_data. Qed.
Print Assumptions C06_tamper_client_data.

Theorem C06_tamper_signature : forall O,
  (forall k sch s s' m, o_verify O k sch s m = true -> o_verify O k sch s' m = true -> length s = length s' -> s = s') ->
  forall P c c' r, verify_auth_rec O P c = Ok r ->
  acr_auth_data c' = acr_auth_data c -> acr_client_data c' = acr_client_data c ->
  acr_signature c' <> acr_signature c -> length (acr_signature c') = length (acr_signature c) ->
  forall r', verify_auth_rec O P c' = Ok r' -> False.
Proof. exact tamper_signature. Qed.
Print Assumptions C06_tamper_signature.

(* registration formats: the signed / hashed material is the whole raw authenticator data and client-data hash *)
Theorem C06_packed_signs_whole : forall O now st ad cdj pk roots, verify_packed O now st ad cdj pk roots = Ok tt ->
  exists k, Signed O k (fld (st_alg st)) (fld (st_sig st)) (ad ++ sha256 O cdj).
Proof.
  intros O now st ad cdj pk roots H. apply verify_packed_sound in H.
  destruct H as [_ _ [(_ & x5c & c & _ & _ & _ & S)|(_ & dk & k & _ & _ & _ & S)]]; eauto.
Qed.
Print Assumptions C06_packed_signs_whole.
