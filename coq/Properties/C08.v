(* C08 — What registration returns is exactly what authenticates; nothing else does. *)
From Coq Require Import ZArith List Bool.
From PW Require Import Model.Base Model.Cbor Model.AuthData Model.Oracles Model.CredJson Model.Cose Model.SigAlg
  Model.Formats Model.VerifyAuth Model.VerifyReg Spec.AuthDataSpec Spec.CoseSpec Spec.AuthSpec Spec.SigSpec
  Proofs.CborProofs Proofs.AuthDataExact Proofs.CoseProofs Proofs.RegProofs Proofs.AuthProofs.
Import ListNotations.
Open Scope Z_scope.

(* the key bytes survive: canonical CBOR of ANY well-formed value re-encodes to itself after decoding *)
Theorem C08_cbor_reencode : forall v rest, wfd v ->
  exists v', parse_cbor (cbor_enc v ++ rest) = Ok v' /\ cbor_enc v' = cbor_enc v.
Proof. intros v rest W. exists v. split; [apply parse_cbor_enc; exact W|reflexivity]. Qed.
Print Assumptions C08_cbor_reencode.

(* authenticator data laid out around a credential key K: the parsed record carries exactly cbor_enc K *)
Theorem C08_key_bytes_in_authdata : forall rp fl count x e,
  len rp = 32 -> 0 <= count < 2 ^ 32 -> flag fl 6 = true -> flag fl 7 = is_some e ->
  att_ok (Some x) (ext_bytes e) -> ext_ok e ->
  exists ad att, parse_auth_data (authdata_layout rp fl count (Some x) e) = Ok ad /\ ad_att ad = Some att /\
    ac_pubkey att = cbor_enc (sp_key x) /\ ac_cred_id att = sp_cred_id x.
Proof.
  intros rp fl count x e Hrp Hc H6 H7 Ha He.
  pose proof (parse_layout rp fl count (Some x) e [] Hrp Hc H6 H7) as P. rewrite !app_nil_r in P.
  specialize (P Ha He). eexists. eexists. split; [exact P|]. cbn. repeat split.
Qed.
Print Assumptions C08_key_bytes_in_authdata.

(* registration returns those very bytes and that credential id *)
Theorem C08_registration_returns_them : forall O P c r, verify_reg_rec O P c = Ok r ->
  exists ao att, parse_att_object (rcr_att_obj c) = Ok ao /\ ad_att (ao_auth_data ao) = Some att /\
    vr_pubkey r = ac_pubkey att /\ vr_cred_id r = ac_cred_id att /\ vr_count r = ad_count (ao_auth_data ao).
Proof.
  intros O P c r H. apply verify_reg_rec_sound in H.
  destruct H as [_ _ _ (ao & h & att & dk & alg & fmt & ag & Hao & _ & _ & _ & _ & Hatt & _ & _ & _ & _ & _ & _ & _ & _ & _ & _ & ->)].
  exists ao, att. cbn. auto.
Qed.
Print Assumptions C08_registration_returns_them.

(* stored key bytes of the three COSE key types decode back to exactly the registered key *)
Theorem C08_stored_key_decodes : forall alg crv x y,
  small alg -> small crv -> alg <> 0 -> crv <> 0 -> blen_ok x -> blen_ok y ->
  decode_credential_public_key (cbor_enc (cose_ec2 alg crv x y)) = Ok (DEC2 (CInt alg) (CInt crv) (CBytes x) (CBytes y)).
Proof. exact decode_ec2. Qed.
Print Assumptions C08_stored_key_decodes.

(* authentication with the stored key accepts exactly the assertions that verify under THAT key: a
   signature that does not verify under the stored key's abstract public key is rejected (whoever made it) *)
Theorem C08_only_the_stored_key : forall O P c r, verify_auth_rec O P c = Ok r ->
  exists dk pk alg sch, decode_credential_public_key (ap_pubkey P) = Ok dk /\ to_crypto O dk = Ok pk /\
    alg_int (dk_alg dk) = Some alg /\ spec_scheme (kind_of pk) alg = Some sch /\
    o_verify O pk sch (acr_signature c) (acr_auth_data c ++ sha256 O (acr_client_data c)) = true.
Proof. intros O P c r H. apply verify_auth_rec_sound in H. destruct H as [_ _ _ _ S]. exact S. Qed.
Print Assumptions C08_only_the_stored_key.

(* the stored key is read through the labels of its type only: whatever else the COSE map carries (kid 2, key_ops 4 with ANY content, Base IV 5, private labels) and in
   whatever order, it decodes to the same key - so a credential whose key says key_ops = [sign] (seeded change C08_17) authenticates like any other *)
Theorem C08_key_is_read_through_its_labels_only : forall key key' m m',
  hd 0 key <> 4 -> hd 0 key' <> 4 -> key <> [] -> key' <> [] ->
  parse_cbor key = Ok (CMap m) -> parse_cbor key' = Ok (CMap m') ->
  (forall l, In l [L_KTY; L_ALG; L_CRV; L_X; L_Y; L_N; L_E] -> dict_get m' (CInt l) = dict_get m (CInt l)) ->
  decode_credential_public_key key' = decode_credential_public_key key.
Proof. exact decode_reads_its_labels_only. Qed.
Print Assumptions C08_key_is_read_through_its_labels_only.

(* non-vacuity: {1: 1, 3: -8, -1: 6, -2: h'07'} and the same key with key_ops = [1] ("sign") and a kid *)
Example C08_key_ops_example :
  decode_credential_public_key [166; 1; 1; 3; 39; 32; 6; 33; 65; 7; 4; 129; 1; 2; 65; 107] = decode_credential_public_key [164; 1; 1; 3; 39; 32; 6; 33; 65; 7]
  /\ is_ok (decode_credential_public_key [164; 1; 1; 3; 39; 32; 6; 33; 65; 7]) = true.
Proof. vm_compute. split; reflexivity. Qed.
Print Assumptions C08_key_ops_example.
