From Coq Require Import ZArith List Bool.
From PW Require Import Model.Base Model.VerifyAuth.
Theorem C08_placeholder : True. Proof. exact I. Qed.
Print Assumptions C08_placeholder.
