From Coq Require Import ZArith List Bool.
From PW Require Import Model.Base Model.VerifyReg.
Theorem C02_placeholder : True. Proof. exact I. Qed.
Print Assumptions C02_placeholder.
