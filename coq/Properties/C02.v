(* C02 — Registration soundness: RP expectations enforced for every attestation format. *)
From Coq Require Import ZArith List Bool String.
From PW Require Import Model.Base Model.Json Model.Cbor Model.AuthData Model.Oracles Model.ClientData Model.CredJson
  Model.Formats Model.VerifyReg Generated.Constants Spec.RegSpec Proofs.RegProofs.
Import ListNotations.
Open Scope Z_scope.

(* For every oracle behaviour, policy and credential record: acceptance is EQUIVALENT to RegAccepted, whose
   conjuncts are the property's (id=b64url(rawId), type, webauthn.create, challenge, origin, rpIdHash, UP unless
   waived, UV if required, attested credential data with non-empty id, key alg in the allowed list, statement
   verified by the dispatch of its format) *)
Theorem C02_reg_sound : forall O P c r, verify_reg_rec O P c = Ok r -> RegAccepted O P c r.
Proof. exact verify_reg_rec_sound. Qed.
Print Assumptions C02_reg_sound.

Theorem C02_reg_characterised : forall O P c r, verify_reg_rec O P c = Ok r <-> RegAccepted O P c r.
Proof. exact verify_reg_rec_iff. Qed.
Print Assumptions C02_reg_characterised.

(* the format is one of the seven known ones - whatever the statement contains *)
Theorem C02_seven_formats : forall O P fmt st adr cdj ad att,
  verify_statement O P fmt st adr cdj ad att = Ok tt -> exists name, In name seven_formats /\ fmt = s2l name.
Proof. exact statement_fmt_known. Qed.
Print Assumptions C02_seven_formats.

Theorem C02_formats_are_the_enum : map snd att_format_enum = seven_formats.
Proof. exact formats_are_spec. Qed.
Print Assumptions C02_formats_are_the_enum.

(* 'none' is accepted only with none of the seven statement members set *)
Theorem C02_none_statement_empty : forall O P st adr cdj ad att,
  verify_statement O P (s2l "none") st adr cdj ad att = Ok tt -> stmt_any_set st = false.
Proof. exact statement_none_empty. Qed.
Print Assumptions C02_none_statement_empty.

Theorem C02_any_deviation_rejected : forall O P c, (forall r, ~ RegAccepted O P c r) ->
  exists e, verify_reg_rec O P c = Err e.
Proof.
  intros O P c H. destruct (verify_reg_rec O P c) as [r|e] eqn:E; [|eauto].
  exfalso. apply (H r). apply verify_reg_rec_sound. exact E.
Qed.
Print Assumptions C02_any_deviation_rejected.

(* non-vacuity: a concrete 'none' registration produced by the simulator is accepted by kernel evaluation and meets RegAccepted *)
From PW Require Import Proofs.Examples.
Example C02_nonvacuous : exists r, RegAccepted rx_oracles rx_policy rx_cred r.
Proof. exact reg_example_meets_the_spec. Qed.

(* the members of a registration response that nothing signs (the transports hint, the attachment hint) do not enter the verdict nor the reported record *)
Definition with_unsigned_reg_members (c : reg_cred) (tr : option (list pystr)) (att : option pystr) : reg_cred :=
  {| rcr_id := rcr_id c; rcr_raw_id := rcr_raw_id c; rcr_type := rcr_type c; rcr_client_data := rcr_client_data c; rcr_att_obj := rcr_att_obj c;
     rcr_transports := tr; rcr_attachment := att |}.
Theorem C02_unsigned_members_do_not_count : forall O P c tr att,
  verify_reg_rec O P (with_unsigned_reg_members c tr att) = verify_reg_rec O P c.
Proof. intros. reflexivity. Qed.
Print Assumptions C02_unsigned_members_do_not_count.
