(* C09 — Signatures are verified with exactly the algorithm the COSE key declares. *)
From Coq Require Import ZArith List Bool.
From PW Require Import Model.Base Model.SigTypes Model.Cbor Model.Oracles Model.Cose Model.SigAlg
  Generated.Constants Spec.SigSpec Proofs.SigProofs.
Import ListNotations.
Open Scope Z_scope.

(* the table the code implements (exported behaviourally, regenerated every run) equals the table of
   the property text - for ALL integers, not just the probed ones *)
Theorem C09_table : forall (k : key_kind) (alg : Z), scheme_of k alg = spec_res k alg.
Proof. exact scheme_table_correct. Qed.
Print Assumptions C09_table.

(* composed path taken by authentication and packed self-attestation *)
Theorem C09_exact : forall O dk pk sg msg,
  to_crypto O dk = Ok pk -> verify_signature O pk (dk_alg dk) sg msg = Ok true ->
  exists alg sch s, alg_int (dk_alg dk) = Some alg /\ spec_scheme (kind_of pk) alg = Some sch /\
                    sg = CBytes s /\ o_verify O pk sch s msg = true.
Proof. exact verify_signature_exact. Qed.
Print Assumptions C09_exact.

Theorem C09_unsupported_rejected : forall O pk alg z sg msg,
  alg_int alg = Some z -> kind_of pk <> KED -> spec_scheme (kind_of pk) z = None ->
  exists c, verify_signature O pk alg sg msg = Err (Lib c).
Proof. exact verify_signature_unsupported. Qed.
Print Assumptions C09_unsupported_rejected.

(* an OKP key is only ever turned into an Ed25519 key when it declares alg -8 and crv 6 *)
Theorem C09_okp_pairing : forall O alg crv x pk, to_crypto O (DOKP alg crv x) = Ok pk ->
  cbor_eq_int alg (-8) = true /\ cbor_eq_int crv 6 = true.
Proof.
  intros O alg crv x pk H. cbn [to_crypto] in H.
  apply Tactics.bind_guard_ok in H as [G _]. apply andb_true_iff in G. exact G.
Qed.
Print Assumptions C09_okp_pairing.

(* ---- decoding a COSE key yields precisely that key (coordinates / modulus of any length, leading zeros kept) ---- *)
From PW Require Import Spec.CoseSpec Proofs.CoseProofs.
Theorem C09_decode_ec2 : forall alg crv x y,
  small alg -> small crv -> alg <> 0 -> crv <> 0 -> blen_ok x -> blen_ok y ->
  decode_credential_public_key (cbor_enc (cose_ec2 alg crv x y)) = Ok (DEC2 (CInt alg) (CInt crv) (CBytes x) (CBytes y)).
Proof. exact decode_ec2. Qed.
Print Assumptions C09_decode_ec2.
Theorem C09_decode_okp : forall alg crv x, small alg -> small crv -> alg <> 0 -> crv <> 0 -> blen_ok x ->
  decode_credential_public_key (cbor_enc (cose_okp alg crv x)) = Ok (DOKP (CInt alg) (CInt crv) (CBytes x)).
Proof. exact decode_okp. Qed.
Print Assumptions C09_decode_okp.
Theorem C09_decode_rsa : forall alg n e, small alg -> alg <> 0 -> blen_ok n -> blen_ok e ->
  decode_credential_public_key (cbor_enc (cose_rsa alg n e)) = Ok (DRSA (CInt alg) (CBytes n) (CBytes e)).
Proof. exact decode_rsa. Qed.
Print Assumptions C09_decode_rsa.
Theorem C09_decode_raw_p256 : forall x y, len x = 32 -> len y = 32 ->
  decode_credential_public_key (raw_p256 x y) = Ok (DEC2 (CInt (-7)) (CInt 1) (CBytes x) (CBytes y)).
Proof. exact decode_raw_p256. Qed.
Print Assumptions C09_decode_raw_p256.
Theorem C09_to_crypto_ec2 : forall O alg c x y pk, to_crypto O (DEC2 (CInt alg) (CInt c) (CBytes x) (CBytes y)) = Ok pk ->
  exists crv, pk = PkEC crv (be_int x) (be_int y) /\ ((c = 1 /\ crv = 1) \/ (c = 2 /\ crv = 2) \/ (c = 3 /\ crv = 3)) /\ o_key_ok O pk = true.
Proof. exact to_crypto_ec2. Qed.
Print Assumptions C09_to_crypto_ec2.
Theorem C09_to_crypto_rsa : forall O alg n e pk, to_crypto O (DRSA (CInt alg) (CBytes n) (CBytes e)) = Ok pk ->
  pk = PkRSA (be_int n) (be_int e) /\ o_key_ok O pk = true.
Proof. exact to_crypto_rsa. Qed.
Print Assumptions C09_to_crypto_rsa.
Theorem C09_to_crypto_okp : forall O alg c x pk, to_crypto O (DOKP (CInt alg) (CInt c) (CBytes x)) = Ok pk ->
  pk = PkEd x /\ alg = -8 /\ c = 6 /\ o_key_ok O pk = true.
Proof. exact to_crypto_okp. Qed.
Print Assumptions C09_to_crypto_okp.
