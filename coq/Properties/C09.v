(* C09 — Signatures are verified with exactly the algorithm the COSE key declares. *)
From Coq Require Import ZArith List Bool.
From PW Require Import Model.Base Model.SigTypes Model.Cbor Model.Oracles Model.Cose Model.SigAlg
  Generated.Constants Spec.SigSpec Proofs.SigProofs.
Import ListNotations.
Open Scope Z_scope.

(* the table the code implements (exported behaviourally, regenerated every run) equals the table of
   the property text - for ALL integers, not just the probed ones *)
Theorem C09_table : forall (k : key_kind) (alg : Z), scheme_of k alg = spec_res k alg.
Proof. exact scheme_table_correct. Qed.
Print Assumptions C09_table.

(* composed path taken by authentication and packed self-attestation *)
Theorem C09_exact : forall O dk pk sg msg,
  to_crypto O dk = Ok pk -> verify_signature O pk (dk_alg dk) sg msg = Ok true ->
  exists alg sch s, alg_int (dk_alg dk) = Some alg /\ spec_scheme (kind_of pk) alg = Some sch /\
                    sg = CBytes s /\ o_verify O pk sch s msg = true.
Proof. exact verify_signature_exact. Qed.
Print Assumptions C09_exact.

Theorem C09_unsupported_rejected : forall O pk alg z sg msg,
  alg_int alg = Some z -> kind_of pk <> KED -> spec_scheme (kind_of pk) z = None ->
  exists c, verify_signature O pk alg sg msg = Err (Lib c).
Proof. exact verify_signature_unsupported. Qed.
Print Assumptions C09_unsupported_rejected.

(* an OKP key is only ever turned into an Ed25519 key when it declares alg -8 and crv 6 *)
Theorem C09_okp_pairing : forall O alg crv x pk, to_crypto O (DOKP alg crv x) = Ok pk ->
  cbor_eq_int alg (-8) = true /\ cbor_eq_int crv 6 = true.
Proof.
  intros O alg crv x pk H. cbn [to_crypto] in H.
  apply Tactics.bind_guard_ok in H as [G _]. apply andb_true_iff in G. exact G.
Qed.
Print Assumptions C09_okp_pairing.
