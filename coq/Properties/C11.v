(* C11 — Authenticator data is parsed exactly and completely. *)
From Coq Require Import ZArith List Bool.
From PW Require Import Model.Base Model.Utf8 Model.Cbor Model.AuthData Proofs.CborProofs Proofs.AuthDataProofs Proofs.AuthProofs.
Import ListNotations.
Open Scope Z_scope.

(* canonical CBOR of ANY well-formed value (ints, byte/text strings, booleans, null, arrays, maps, nested
   without bound) decodes to exactly that value, whatever follows it - the fact that lets the parser find
   the end of the COSE key and of the extension map *)
Theorem C11_cbor_exact : forall v rest, wfd v -> cbor_loads (cbor_enc v ++ rest) = DOk v rest.
Proof. exact cbor_loads_enc. Qed.
Print Assumptions C11_cbor_exact.

(* fixed header: returned record carries exactly bytes 0..32, byte 32, big-endian bytes 33..37 *)
Theorem C11_header : forall v ad, parse_auth_data v = Ok ad ->
  37 <= len v /\ ad_rp_hash ad = slice 0 32 v /\ ad_flags ad = nth 32 v 0 /\ ad_count ad = be_int (slice 33 37 v).
Proof. exact parse_auth_data_header. Qed.
Print Assumptions C11_header.

(* attested credential data present iff AT, extensions present iff ED; no partially filled record *)
Theorem C11_presence : forall v ad, parse_auth_data v = Ok ad ->
  (ad_att ad <> None <-> flag (nth 32 v 0) 6 = true) /\ (ad_ext ad <> None <-> flag (nth 32 v 0) 7 = true).
Proof. exact parse_auth_data_presence. Qed.
Print Assumptions C11_presence.

(* every byte string whatsoever: a complete record, or one of the two library exceptions
   (Unmodelled = CBOR outside the modelled subset, where only the correspondence run speaks) *)
Theorem C11_total : forall v,
  match parse_auth_data v with
  | Ok _ | Err (Lib InvalidAuthenticatorDataStructure) | Err (Lib InvalidCBORData) | Err Unmodelled => True
  | _ => False
  end.
Proof. exact parse_auth_data_total. Qed.
Print Assumptions C11_total.

Theorem C11_too_short : forall v, len v < 37 -> parse_auth_data v = Err (Lib InvalidAuthenticatorDataStructure).
Proof. exact parse_auth_data_short. Qed.
Print Assumptions C11_too_short.

(* ---- exactness and leftover rejection for EVERY laid-out authenticator data ---- *)
From PW Require Import Spec.AuthDataSpec Proofs.AuthDataExact.

(* rp hash of 32 bytes, any flags byte consistent with the presence of the optional parts, counter 0..2^32-1,
   AAGUID of 16 bytes, credential id of ANY length 0..65535, any well-formed COSE key / extension value
   (ints, byte/text strings, booleans, null, arrays, maps, nested without bound): parsing the layout returns
   exactly those fields; with ANY non-empty suffix it raises InvalidAuthenticatorDataStructure *)
Theorem C11_exact_and_leftover : forall rp fl count a e suffix,
  len rp = 32 -> 0 <= count < 2 ^ 32 ->
  flag fl 6 = is_some a -> flag fl 7 = is_some e ->
  att_ok a (ext_bytes e ++ suffix) -> ext_ok e ->
  parse_auth_data (authdata_layout rp fl count a e ++ suffix) =
    match suffix with
    | [] => Ok (expected rp fl count a e)
    | _ => Err (Lib InvalidAuthenticatorDataStructure)
    end.
Proof. exact parse_layout. Qed.
Print Assumptions C11_exact_and_leftover.

(* ---- truncation: EVERY strict prefix of EVERY laid-out authenticator data is rejected ---- *)
From PW Require Import Proofs.CborPrefix Proofs.AuthDataTrunc.

(* the CBOR encoding is prefix-free for the decoder: no strict prefix of the encoding of a well-formed value
   decodes successfully, with any fuel (no bound on size or nesting) *)
Theorem C11_cbor_prefix_free : forall v fuel q t, wf v -> t <> [] -> q ++ t = cbor_enc v ->
  match cbor_dec fuel q with DOk _ _ => False | _ => True end.
Proof. intros v fuel q t W Ht H. exact (cbor_trunc v fuel W q t Ht H). Qed.
Print Assumptions C11_cbor_prefix_free.

(* cut the laid-out bytes anywhere (inside the header, the AAGUID, the length bytes, the credential id, the
   COSE key or the extensions): the parser raises InvalidAuthenticatorDataStructure or InvalidCBORData
   (Unmodelled can only arise for CBOR nested deeper than the modelled 256 levels) - never a record *)
Theorem C11_truncated : forall rp fl count a e q t,
  len rp = 32 -> 0 <= count < 2 ^ 32 ->
  flag fl 6 = is_some a -> flag fl 7 = is_some e ->
  att_ok a (ext_bytes e) -> ext_ok e ->
  t <> [] -> q ++ t = authdata_layout rp fl count a e ->
  parse_auth_data q = Err (Lib InvalidAuthenticatorDataStructure) \/
  parse_auth_data q = Err (Lib InvalidCBORData) \/ parse_auth_data q = Err Unmodelled.
Proof. exact parse_truncated. Qed.
Print Assumptions C11_truncated.
