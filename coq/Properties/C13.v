(* C13 — Client-supplied JSON is decoded faithfully and never partially. *)
From Coq Require Import ZArith List Bool String.
From PW Require Import Model.Base Model.Json Model.Base64 Model.Oracles Model.CredJson Generated.Constants
  Spec.JsonSpec Proofs.JsonProofs.
Import ListNotations.
Open Scope Z_scope.

(* for EVERY JSON value (any depth, any members) and both input forms the parsers return a record or
   raise InvalidJSONStructure / the response exception - nothing else.  json.loads itself: a value or ANY ValueError - a JSONDecodeError, or
   the integer string conversion limit on a number of more than 4300 digits (defect F10, repaired: until then the premise had to exclude it);
   loads_ok now excludes only non-ValueError failures such as RecursionError (nesting beyond the interpreter's limit, outside C13's quantifier) *)
Theorem C13_total_auth : forall O inp, loads_ok O inp ->
  cred_outcome_ok InvalidAuthenticationResponse (parse_auth_cred_json O inp).
Proof. exact parse_auth_cred_total. Qed.
Print Assumptions C13_total_auth.

Theorem C13_total_reg : forall O inp, loads_ok O inp ->
  cred_outcome_ok InvalidRegistrationResponse (parse_reg_cred_json O inp).
Proof. exact parse_reg_cred_total. Qed.
Print Assumptions C13_total_reg.

(* well-formed credentials over ARBITRARY byte contents, any '=' padding, unknown members ignored *)
Theorem C13_faithful_auth : forall O id raw cdj ad sg uh att k1 k2 k3 k4 k5 extra rextra,
  bytes_ok raw = true -> bytes_ok cdj = true -> bytes_ok ad = true -> bytes_ok sg = true ->
  match uh with Some u => bytes_ok u = true | None => True end -> att_ok att ->
  parse_auth_cred_json O (inr (auth_cred_json id raw cdj ad sg uh att k1 k2 k3 k4 k5 extra rextra)) =
  Ok {| acr_id := id; acr_raw_id := raw; acr_type := public_key_s; acr_client_data := cdj;
        acr_auth_data := ad; acr_signature := sg; acr_user_handle := uh; acr_attachment := att |}.
Proof. exact parse_auth_faithful. Qed.
Print Assumptions C13_faithful_auth.

Theorem C13_faithful_reg : forall O id raw cdj ao tr att k1 k2 k3 extra rextra,
  bytes_ok raw = true -> bytes_ok cdj = true -> bytes_ok ao = true -> att_ok att ->
  parse_reg_cred_json O (inr (reg_cred_json id raw cdj ao tr att k1 k2 k3 extra rextra)) =
  Ok {| rcr_id := id; rcr_raw_id := raw; rcr_type := public_key_s; rcr_client_data := cdj;
        rcr_att_obj := ao; rcr_attachment := att;
        rcr_transports := option_map (fun l => flat_map (fun v => match v with
                              | JStr s => if enum_has transport_enum v then [s] else []
                              | _ => [] end) l) tr |}.
Proof. exact parse_reg_faithful. Qed.
Print Assumptions C13_faithful_reg.

Theorem C13_enums_are_spec :
  map snd transport_enum = known_transports /\ map snd attachment_enum = known_attachments /\
  map snd cred_type_enum = ["public-key"%string].
Proof. exact (conj transports_are_spec (conj attachments_are_spec cred_types_are_spec)). Qed.
Print Assumptions C13_enums_are_spec.

Theorem C13_text_dict : forall O s j, o_json_loads O true s = JOk j ->
  parse_auth_cred_json O (inl s) = parse_auth_cred_json O (inr j) /\
  parse_reg_cred_json O (inl s) = parse_reg_cred_json O (inr j).
Proof. intros O s j H. split; [apply parse_auth_text_dict|apply parse_reg_text_dict]; exact H. Qed.
Print Assumptions C13_text_dict.

(* client data JSON: exactly the object's type, decoded challenge and origin; every other member ignored *)
From PW Require Import Model.ClientData.
Theorem C13_client_data : forall O raw m t c ch o,
  o_json_loads O false raw = JOk (JObj m) ->
  jget m k_type = Some t -> jget m k_challenge = Some (JStr c) -> b64url_dec c = Ok ch -> jget m k_origin = Some o ->
  match jget m (s2l "tokenBinding") with Some (JObj _) => False | _ => True end ->
  parse_client_data O raw = Ok {| cd_type := t; cd_challenge := ch; cd_origin := o; cd_token_binding := None |}.
Proof. exact parse_client_data_exact. Qed.
Print Assumptions C13_client_data.
Theorem C13_client_data_missing_member : forall O raw m,
  o_json_loads O false raw = JOk (JObj m) ->
  jget m k_type = None \/ jget m k_challenge = None \/ jget m k_origin = None ->
  parse_client_data O raw = Err (Lib InvalidJSONStructure).
Proof. exact parse_client_data_missing_member. Qed.
Print Assumptions C13_client_data_missing_member.
(* bytes that json.loads refuses - no JSON text, no UTF-8, a number too long to convert - are refused with the library's structure exception *)
Theorem C13_client_data_undecodable : forall O raw,
  o_json_loads O false raw = JDecodeError \/ o_json_loads O false raw = JUnicodeError ->
  parse_client_data O raw = Err (Lib InvalidJSONStructure).
Proof. intros O raw [H|H]; unfold parse_client_data; rewrite H; reflexivity. Qed.
Print Assumptions C13_client_data_undecodable.
Theorem C13_loads_premise_nonvacuous : forall O s j, o_json_loads O true s = JOk j -> loads_ok O (inl s).
Proof. intros O s j H. unfold loads_ok. rewrite H. exact I. Qed.
Print Assumptions C13_loads_premise_nonvacuous.
