(* C16 — Options serialise to the WebAuthn JSON wire format and parse back unchanged. *)
From Coq Require Import ZArith List Bool String.
From PW Require Import Model.Base Model.Json Model.Base64 Model.Oracles Model.CredJson Model.Options Model.OptionsJson
  Generated.Constants Spec.OptionsSpec Proofs.OptionsJsonProofs.
Import ListNotations.
Open Scope Z_scope.

(* the JSON value handed to json.dumps satisfies the wire-shape predicate: spec member names, enum strings, numeric alg
   ids, every binary member unpadded base64url, optional members omitted (never null) *)
Theorem C16_creation_schema : forall o, creation_wf o -> creation_schema (creation_options_json o) = true.
Proof. exact creation_schema_ok. Qed.
Print Assumptions C16_creation_schema.
Theorem C16_request_schema : forall o, request_wf o -> request_schema (request_options_json o) = true.
Proof. exact request_schema_ok. Qed.
Print Assumptions C16_request_schema.

(* every options object reachable from the generator over admissible arguments is of that kind *)
Theorem C16_generated_are_wellformed : forall draw a n o n',
  (forall i, bytes_ok (draw i) = true) -> reg_args_wf a -> gen_reg draw a n = Ok (o, n') ->
  creation_wf o /\ exists att, co_attestation o = Some att.
Proof. exact generated_creation_options_wf. Qed.
Print Assumptions C16_generated_are_wellformed.

(* parsing the produced JSON value returns the original up to the documented defaults
   (empty transport list -> None; unset requireResidentKey / userVerification -> False / preferred) *)
Theorem C16_creation_roundtrip : forall O o, creation_wf o -> (exists a, co_attestation o = Some a) ->
  parse_reg_options_json O (inr (creation_options_json o)) = Ok (norm_creation o).
Proof. exact creation_roundtrip. Qed.
Print Assumptions C16_creation_roundtrip.
Theorem C16_request_roundtrip : forall O o, request_wf o ->
  parse_auth_options_json O (inr (request_options_json o)) = Ok (norm_request o).
Proof. exact request_roundtrip. Qed.
Print Assumptions C16_request_roundtrip.

(* text form: whatever json.loads makes of the text is what is parsed *)
Theorem C16_text_form : forall O s j, o_json_loads O true s = JOk j ->
  parse_reg_options_json O (inl s) = parse_reg_options_json O (inr j) /\
  parse_auth_options_json O (inl s) = parse_auth_options_json O (inr j).
Proof. intros O s j H. unfold parse_reg_options_json, parse_auth_options_json, load_obj. rewrite H. split; reflexivity. Qed.
Print Assumptions C16_text_form.

(* refusals with the structure exception *)
Theorem C16_refuse_creation : forall O m, required_ok m = false ->
  parse_reg_options_json O (inr (JObj m)) = Err (Lib InvalidJSONStructure).
Proof. exact creation_refuses. Qed.
Print Assumptions C16_refuse_creation.
Theorem C16_refuse_request_challenge : forall O m, (forall s, jget_none m (jstr "challenge") <> JStr s) ->
  parse_auth_options_json O (inr (JObj m)) = Err (Lib InvalidJSONStructure).
Proof. exact request_refuses_challenge. Qed.
Print Assumptions C16_refuse_request_challenge.
Theorem C16_refuse_request_user_verification : forall O m ch, jget_none m (jstr "challenge") = JStr ch ->
  (forall s, jget_none m (jstr "userVerification") = JStr s -> in_strs spec_uv s = false) ->
  parse_auth_options_json O (inr (JObj m)) = Err (Lib InvalidJSONStructure).
Proof. exact request_refuses_uv. Qed.
Print Assumptions C16_refuse_request_user_verification.
Theorem C16_refuse_non_object : forall O j, (forall m, j <> JObj m) ->
  parse_auth_options_json O (inr j) = Err (Lib InvalidJSONStructure) /\
  parse_reg_options_json O (inr j) = Err (Lib InvalidJSONStructure).
Proof. exact options_not_object. Qed.
Print Assumptions C16_refuse_non_object.
Theorem C16_enums_are_spec :
  map snd transport_enum = spec_transports /\ map snd user_verification_enum = spec_uv /\
  map snd attachment_enum = spec_attachment /\ map snd resident_key_enum = spec_resident_key /\
  map snd attestation_pref_enum = spec_attestation /\ map snd hint_enum = spec_hints.
Proof. exact enums_are_spec. Qed.
Print Assumptions C16_enums_are_spec.
