From Coq Require Import ZArith List Bool.
From PW Require Import Model.Base Model.OptionsJson.
Theorem C16_placeholder : True. Proof. exact I. Qed.
Print Assumptions C16_placeholder.
