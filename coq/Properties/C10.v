(* C10 — Authenticator flag semantics for all 256 flag bytes. *)
From Coq Require Import ZArith List Bool.
From PW Require Import Model.Base Model.AuthData Model.Oracles Model.CredJson Model.VerifyAuth Proofs.AuthProofs.
Import ListNotations.
Open Scope Z_scope.

(* the code's `flags & (1 << k) != 0` is bit k, for every flag byte (finite domain, bound in the statement) *)
Theorem C10_bits : forall f, 0 <= f < 256 ->
  forall k, In k [0; 1; 2; 3; 4; 5; 6; 7] -> flag f k = Z.testbit f k.
Proof. exact flag_bits. Qed.
Print Assumptions C10_bits.

Theorem C10_reserved_ignored : forall f, 0 <= f < 256 -> forall k, In k [0; 2; 3; 4; 6; 7] ->
  flag (Z.lxor f 2) k = flag f k /\ flag (Z.lxor f 32) k = flag f k.
Proof. exact reserved_bits_ignored. Qed.
Print Assumptions C10_reserved_ignored.

(* authentication: accepted => UP, UV-if-required, not (BS without BE); reported fields are the bits *)
Theorem C10_table_auth : forall O P c r, verify_auth_rec O P c = Ok r ->
  let f := nth 32 (acr_auth_data c) 0 in
  flag f 0 = true /\ (ap_require_uv P = true -> flag f 2 = true) /\ (flag f 4 = true -> flag f 3 = true) /\
  va_uv r = flag f 2 /\ va_multi_device r = flag f 3 /\ va_backed_up r = flag f 4.
Proof. exact auth_flag_table. Qed.
Print Assumptions C10_table_auth.

(* registration: accepted => UP unless waived, UV-if-required, AT (attested credential data follows),
   not (BS without BE); reported fields are the bits *)
From PW Require Import Model.VerifyReg Proofs.RegProofs.
Theorem C10_table_reg : forall O P c r, verify_reg_rec O P c = Ok r ->
  exists ao, parse_att_object (rcr_att_obj c) = Ok ao /\
  let f := nth 32 (ao_auth_data_raw ao) 0 in
  (rp_require_up P = true -> flag f 0 = true) /\ (rp_require_uv P = true -> flag f 2 = true) /\
  flag f 6 = true /\ (flag f 4 = true -> flag f 3 = true) /\
  vr_uv r = flag f 2 /\ vr_multi_device r = flag f 3 /\ vr_backed_up r = flag f 4.
Proof. exact reg_flag_table. Qed.
Print Assumptions C10_table_reg.

(* the client hints that travel next to a response (authenticatorAttachment, transports, user handle) have no influence on acceptance
   or on ANY reported field: verification is a function of the other members only *)
Theorem C10_hints_irrelevant_reg : forall O P c att tr,
  verify_reg_rec O P c =
  verify_reg_rec O P {| rcr_id := rcr_id c; rcr_raw_id := rcr_raw_id c; rcr_type := rcr_type c; rcr_client_data := rcr_client_data c;
                        rcr_att_obj := rcr_att_obj c; rcr_transports := tr; rcr_attachment := att |}.
Proof. intros. reflexivity. Qed.
Print Assumptions C10_hints_irrelevant_reg.

Theorem C10_hints_irrelevant_auth : forall O P c att uh,
  verify_auth_rec O P c =
  verify_auth_rec O P {| acr_id := acr_id c; acr_raw_id := acr_raw_id c; acr_type := acr_type c; acr_client_data := acr_client_data c;
                         acr_auth_data := acr_auth_data c; acr_signature := acr_signature c; acr_user_handle := uh; acr_attachment := att |}.
Proof. intros. reflexivity. Qed.
Print Assumptions C10_hints_irrelevant_auth.

(* the extension data that may follow (ED) never sets a flag: the reported user_verified is bit 2 of the flags byte whatever the extensions say
   (a `uvm` output, for instance) - both tables above are stated over the flags byte alone and hold for EVERY authenticator data *)
