(* C19 — Rejections are signalled through the library's own exception hierarchy. *)
From Coq Require Import ZArith List Bool String.
From PW Require Import Model.Base Model.Cbor Model.AuthData Model.Oracles Model.ClientData Model.CredJson Model.Cose
  Model.Formats Model.VerifyAuth Model.VerifyReg Generated.Constants Proofs.ExnProofs Proofs.AuthDataProofs Proofs.JsonProofs.
Import ListNotations.
Open Scope Z_scope.

(* every exception class the exceptions module defines derives from the single base (reflective export, finite) *)
Theorem C19_hierarchy : forallb derives_from_base exception_classes = true /\ exception_base = "WebAuthnException"%string.
Proof. exact hierarchy_ok. Qed.
Print Assumptions C19_hierarchy.

Theorem C19_classes_are_the_models : map fst exception_classes = lib_names.
Proof. exact class_list_is_enum. Qed.
Print Assumptions C19_classes_are_the_models.

(* a well-formed authentication response is accepted or rejected with a library exception - for every
   reason the verifier has: id, type, client data type/challenge/origin/token binding, RP ID hash, UP, UV,
   counter, algorithm, signature, backup flags *)
Theorem C19_semantic_auth : forall O P c, auth_wf O P c -> lib_or_ok (verify_auth_rec O P c).
Proof. exact auth_rejections_in_hierarchy. Qed.
Print Assumptions C19_semantic_auth.

Theorem C19_semantic_reg : forall O P c, reg_wf O P c ->
  (forall ao att, parse_att_object (rcr_att_obj c) = Ok ao -> ad_att (ao_auth_data ao) = Some att -> len (ac_aaguid att) = 16) ->
  lib_or_ok (verify_reg_rec O P c).
Proof. exact reg_rejections_in_hierarchy. Qed.
Print Assumptions C19_semantic_reg.

(* the parsers the property names: total into {record, library exception} *)
Theorem C19_authenticator_data_parser : forall v,
  match parse_auth_data v with
  | Ok _ | Err (Lib InvalidAuthenticatorDataStructure) | Err (Lib InvalidCBORData) | Err Unmodelled => True
  | _ => False
  end.
Proof. exact parse_auth_data_total. Qed.
Print Assumptions C19_authenticator_data_parser.

Theorem C19_cbor_helper : forall s, match parse_cbor s with Ok _ | Err (Lib InvalidCBORData) | Err Unmodelled => True | _ => False end.
Proof. exact parse_cbor_outcome. Qed.
Print Assumptions C19_cbor_helper.

Theorem C19_credential_json_parsers : forall O inp, loads_ok O inp ->
  cred_outcome_ok InvalidAuthenticationResponse (parse_auth_cred_json O inp) /\
  cred_outcome_ok InvalidRegistrationResponse (parse_reg_cred_json O inp).
Proof. intros O inp H. split; [apply parse_auth_cred_total|apply parse_reg_cred_total]; exact H. Qed.
Print Assumptions C19_credential_json_parsers.

Theorem C19_no_failure_value : forall O P fmt st adr cdj ad att u,
  verify_statement O P fmt st adr cdj ad att = Ok u -> u = tt.
Proof. exact no_false_result. Qed.
Print Assumptions C19_no_failure_value.

(* ---- the attestation rules: every format verifier answers inside the hierarchy on a structurally
   well-formed statement (members of the right CBOR type, certificates that load, credential key that decodes,
   TPM structures / JWS parts that parse) - whatever the reason for the rejection ---- *)
From PW Require Import Proofs.ExnFormats.

Theorem C19_statement_verifiers : forall O P fmt st adr cdj ad att,
  statement_wf O P fmt st att -> lib_or_ok (verify_statement O P fmt st adr cdj ad att).
Proof. exact statement_lob. Qed.
Print Assumptions C19_statement_verifiers.

(* registration as a whole, with the statement hypothesis of C19_semantic_reg discharged *)
Theorem C19_semantic_reg_structural : forall O P c, reg_wf' O P c -> lib_or_ok (verify_reg_rec O P c).
Proof. exact reg_rejections_in_hierarchy'. Qed.
Print Assumptions C19_semantic_reg_structural.

(* the structural hypotheses are satisfiable: a real packed self-attestation statement meets them *)
From PW Require Import Proofs.Examples2.
Example C19_wf_nonvacuous : packed_wf px_oracles 0 px_stmt px_key [].
Proof. exact packed_example_wf. Qed.
Print Assumptions C19_wf_nonvacuous.
