From Coq Require Import ZArith List Bool.
From PW Require Import Model.Base.
Theorem C19_placeholder : True. Proof. exact I. Qed.
Print Assumptions C19_placeholder.
