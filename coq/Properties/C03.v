From Coq Require Import ZArith List Bool.
From PW Require Import Model.Base Model.Formats.
Theorem C03_placeholder : True. Proof. exact I. Qed.
Print Assumptions C03_placeholder.
